(* C13, symbolically: a session that the table manager abandons leaves a complete log holding exactly the boards finished
   before the abort.  Four clients arrive North, East, South, West (Model/Conform.v's conf_session); they CONFORM on the
   boards before board index a (board number a+1; nth_error boards a = Some bd) and board a goes wrong after j conforming
   calls / cards (the fault is call / card number j+1; any a >= 0, any j >= 0, any seat):
     (i)   the seat to call says a text that does not read as a call                       (auction_unparseable_at),
     (ii)  ... a text that reads as a call the auction refuses                             (auction_illegal_at),
     (iii) the seat to play says a text that does not read as a card                       (play_unparseable_at),
     (iv)  ... a text that reads as a card the play refuses (not in the hand on turn)      (play_refused_at),
     (v)   the operator interrupts the main thread (s_interrupt = Some k): of any session whose plain version ends
           (interrupt_generic), in particular a conforming one and one that also goes wrong in one of the ways (i)-(iv).
   What the model does in each case is what Model/Session.v says (the error lines queued in (ii), who raises); nothing is
   idealised: in the play the bundled client checks its own card BEFORE it sends the text, so in (iii)/(iv) the VALUE the
   script pairs with the text must be playable - it is the TEXT that is wrong (a client whose value is not playable
   stops silently and the table manager waits for ever: no abort, not covered here).
   For (i)-(iv) a schedule is constructed (with the lemmas of SessionPassOut.v / SessionConform.v) under which the main
   thread RAISES (its process is Fail) and the output file is  LOpen :: map LRec recs ++ [LClose]  with
   map Some recs = recs_from (NM ns ew) scripts 0 (firstn a boards): the model records of exactly the boards before board a.
   Part A lifts "some schedule" to EVERY schedule without a final state: two runs of the network can always be joined
   (from Proofs/Kahn.v's diamond), and once the main thread has ended neither its process nor the file changes; hence in
   every reachable state in which the main thread has ended, and in every state in which no thread can move, the main thread
   has raised and the file is the same (raised_in_every_schedule, abort_log_every_schedule); with Proofs/C13Cor.v the file
   content parses to exactly those records (aborted_file_parses, abort_every_schedule_parses, *_every_schedule).
   (v): the interrupted network simulates the plain one step by step until the interrupt is delivered (wrapped_step); then
   the main thread closes the log and raises; the records in the file are a prefix (firstn cnt) of the plain session's.
   Last part: a step replaces one thread's process by a child in its resumption tree, which is well founded, so NO schedule
   of ANY session runs for ever (no_infinite_schedule) and every run extends to a final state; with the confluence theorems
   of Proofs/Session.v an abandoned session has ONE final state, in which the main thread has raised and the file is as
   above, every schedule is bounded and every maximal schedule ends there (ended_bounded, abort_bounded,
   abandoned_session_bounded, interrupted_session_bounded, abandoned_session_interrupted).  abandoned_session_log is the summary for (i)-(iv).
   In the model the table manager always asks play_by about the seat on turn, so "not the seat's turn" cannot reach it: a
   text naming another seat does not read as a card of the seat on turn and is case (iii).
   Not covered: other arrival orders (lifted separately).
   Standard library only; closed under the global context. *)
From BE Require Import Model.Session Model.Conform Proofs.Kahn Proofs.Session Proofs.Wire Proofs.SessionPassOut Proofs.SessionConform.
From BE Require Proofs.Play Proofs.Auction.
From BE Require Import Model.Json Model.JsonFramingHand Proofs.C13Cor.
From Coq Require Import Lia ZArith.
Local Open Scope string_scope.
Local Open Scope nat_scope.
Local Open Scope list_scope.


(* ===================================================================== part A: joining two runs; a log is frozen once main has ended *)
Section Join.
  Variable x : session.
  Local Notation WS := (wf_state msg (rd x) (wr x) cw).

  Lemma srun_cons t l s : srun (t :: l) s = match Kahn.step msg PARTIES t s with Some s1 => srun l s1 | None => None end.
  Proof. reflexivity. Qed.

  Lemma strip_step : forall l s s1 f t, WS s -> Kahn.step msg PARTIES t s = Some s1 -> srun l s = Some f ->
    (exists l1, srun l1 s1 = Some f) \/ (exists f', Kahn.step msg PARTIES t f = Some f' /\ srun l s1 = Some f').
  Proof.
    induction l as [|t2 l2 IH]; intros s s1 f t W Hst Hrun.
    - injection Hrun as <-. right. exists s1. split; [exact Hst|reflexivity].
    - rewrite srun_cons in Hrun. destruct (Kahn.step msg PARTIES t2 s) as [s2|] eqn:E2; [|discriminate Hrun].
      destruct (Nat.eq_dec t t2) as [->|Hne].
      + rewrite E2 in Hst. injection Hst as <-. left. exists l2. exact Hrun.
      + destruct (diamond msg PARTIES (rd x) (wr x) cw s t t2 s1 s2 W Hne Hst E2) as (s' & H1 & H2).
        destruct (IH s2 s' f t (wf_step _ _ _ _ _ _ _ _ W E2) H2 Hrun) as [(l1 & Hl1)|(f' & Hf1 & Hf2)].
        * left. exists (t2 :: l1). rewrite srun_cons, H1. exact Hl1.
        * right. exists f'. split; [exact Hf1|]. rewrite srun_cons, H1. exact Hf2.
  Qed.

  Lemma join_runs : forall l' l s f s', WS s -> srun l s = Some f -> srun l' s = Some s' ->
    exists m m' j, srun m f = Some j /\ srun m' s' = Some j.
  Proof.
    induction l' as [|t l' IH]; intros l s f s' W Hrun Hrun'.
    - injection Hrun' as <-. exists [], l, f. split; [reflexivity|exact Hrun].
    - rewrite srun_cons in Hrun'. destruct (Kahn.step msg PARTIES t s) as [s1|] eqn:E; [|discriminate Hrun'].
      pose proof (wf_step _ _ _ _ _ _ _ _ W E) as W1.
      destruct (strip_step l s s1 f t W E Hrun) as [(l1 & Hl1)|(f' & Hf1 & Hf2)].
      + exact (IH l1 s1 f s' W1 Hl1 Hrun').
      + destruct (IH l s1 f' s' W1 Hf2 Hrun') as (m & m' & j & Hm & Hm').
        exists (t :: m), m', j. split; [rewrite srun_cons, Hf1; exact Hm|exact Hm'].
  Qed.
End Join.

(* once the main thread has returned or raised, no later step changes its process or the output file *)
Lemma ended_step n t s s' : LI n s -> main_ended s -> Kahn.step msg PARTIES t s = Some s' ->
  nth_error (procs msg s') 0 = nth_error (procs msg s) 0 /\ log_events n s' = log_events n s.
Proof.
  intros (W & Len & _) ME H.
  destruct (step_cases _ _ _ H) as (p & p' & ev & Ep & Eprocs & T & F).
  destruct t as [|t].
  - exfalso. destruct ME as [ME|ME]; rewrite ME in Ep; injection Ep as <-; inversion T.
  - split; [rewrite Eprocs, nth_upd_other by discriminate; reflexivity|].
    apply log_events_same. apply (frame n (S t) s s' _ W H).
    + rewrite rd_log. assert (N : nth_error (procs msg s) (S t) <> None) by congruence.
      apply nth_error_Some in N. lia.
    + rewrite wr_log. discriminate.
Qed.

Lemma ended_run n : forall l s s', LI n s -> main_ended s -> srun l s = Some s' ->
  nth_error (procs msg s') 0 = nth_error (procs msg s) 0 /\ log_events n s' = log_events n s.
Proof.
  induction l as [|t l IH]; intros s s' I ME H.
  - injection H as <-. split; reflexivity.
  - rewrite srun_cons in H. destruct (Kahn.step msg PARTIES t s) as [s1|] eqn:E; [|discriminate H].
    destruct (ended_step n t s s1 I ME E) as [E1 E2].
    assert (ME1 : main_ended s1) by (unfold main_ended in *; rewrite E1; exact ME).
    destruct (IH s1 s' (LI_step n t s s1 I E) ME1 H) as [E3 E4].
    split; [rewrite E3; exact E1|rewrite E4; exact E2].
Qed.

(* if SOME schedule makes the main thread raise, then in EVERY schedule: whenever the main thread has ended - and in
   particular whenever no thread can move any more - it has raised, and the output file is the same *)
Theorem raised_in_every_schedule : forall x l f,
  srun l (init_state x) = Some f -> nth_error (procs msg f) 0 = Some Fail ->
  forall l' s', srun l' (init_state x) = Some s' -> main_ended s' \/ sfinal s' ->
    nth_error (procs msg s') 0 = Some Fail /\ log_events (nconn x) s' = log_events (nconn x) f.
Proof.
  intros x l f Hrun Hfail l' s' Hrun' Hend.
  destruct (join_runs x l' l _ f s' (session_wf x) Hrun Hrun') as (m & m' & j & Hm & Hm').
  pose proof (LI_run _ _ _ _ (LI_init x) Hrun) as If.
  pose proof (LI_run _ _ _ _ (LI_init x) Hrun') as Is'.
  destruct (ended_run _ m f j If (or_intror Hfail) Hm) as [Ej1 Ej2].
  destruct Hend as [ME|FIN].
  - destruct (ended_run _ m' s' j Is' ME Hm') as [Es1 Es2].
    split; [rewrite <- Es1, Ej1; exact Hfail|rewrite <- Es2, Ej2; reflexivity].
  - destruct m' as [|t m']; [|rewrite srun_cons, (FIN t) in Hm'; discriminate Hm'].
    injection Hm' as ->. split; [rewrite Ej1; exact Hfail|exact Ej2].
Qed.


(* ===================================================================== part B: where a board goes wrong *)
(* j calls that conform (exactly the checks of Conform.seq_calls), none of them ending the auction *)
Fixpoint calls_prefix (j : nat) (s : astate) (said : said_calls) : option (astate * said_calls) :=
  match j with
  | 0 => Some (s, said)
  | S j' =>
    match active s with
    | None => None
    | Some a =>
      match said a with
      | [] => None
      | (m, c) :: _ =>
          match server_read_bid m (formal_name a) with
          | (m', Some c') =>
              if call_beq c c' && match parse_bid m' (formal_name a) with Some c'' => call_beq c c'' | None => false end
              then match take_bid s c with
                   | (s', Ongoing) => calls_prefix j' s' (pop said a)
                   | _ => None end
              else None
          | _ => None end end end end.

(* the seat to call after j conforming calls, the text it says and the value its script gives for it *)
Definition next_call (bd : board) (sc : seat -> cscript) (j : nat) : option (astate * seat * string * call) :=
  match calls_prefix j (Auction.init (b_dealer bd) (b_vul bd)) (fun p => sc_calls (sc p)) with
  | None => None
  | Some (s, said) =>
      match active s with
      | None => None
      | Some a => match said a with [] => None | (m, c) :: _ => Some (s, a, m, c) end end end.

(* fault (i): after j conforming calls the seat to call says a text the table manager cannot read as a call *)
Definition auction_unparseable_at (bd : board) (sc : seat -> cscript) (j : nat) : bool :=
  match next_call bd sc j with
  | Some (s, a, m, c) => match snd (server_read_bid m (formal_name a)) with None => true | Some _ => false end
  | None => false end.
(* fault (ii): ... says a text that reads as a call the auction refuses *)
Definition auction_illegal_at (bd : board) (sc : seat -> cscript) (j : nat) : bool :=
  match next_call bd sc j with
  | Some (s, a, m, c) =>
      match snd (server_read_bid m (formal_name a)) with
      | Some c' => match snd (take_bid s c') with Illegal => true | _ => false end
      | None => false end
  | None => false end.

(* the main thread has raised and the output file holds exactly L *)
Definition Raised (L : list msg) (st : Kahn.st msg) : Prop :=
  nth_error (procs msg st) 0 = Some Fail /\ chan st (ch_log 4) = L.

(* ---------- j conforming calls ---------- *)
Lemma auction_prefix : forall j f s calls s' calls', calls_prefix j s calls = Some (s', calls') ->
  forall km kt0 kt1 kt2 kt3 kc0 kc1 kc2 kc3 L T0 T1 T2 T3 T4 T5 T6 T7 b (F : Kahn.st msg -> Prop),
  (forall T0' T1' T2' T3' T4' T5' T6' T7',
     reach (BidSt f s' calls' km kt0 kt1 kt2 kt3 kc0 kc1 kc2 kc3 L T0' T1' T2' T3' T4' T5' T6' T7' b) F) ->
  reach (BidSt (j + f) s calls km kt0 kt1 kt2 kt3 kc0 kc1 kc2 kc3 L T0 T1 T2 T3 T4 T5 T6 T7 b) F.
Proof.
  induction j as [|j IH]; intros f s calls s' calls' H km kt0 kt1 kt2 kt3 kc0 kc1 kc2 kc3 L T0 T1 T2 T3 T4 T5 T6 T7 b F HF;
    cbn [calls_prefix] in H.
  - injection H as <- <-. apply HF.
  - destruct (active s) as [a|] eqn:Ha; [|discriminate].
    destruct (calls a) as [|[m c] r] eqn:Hc; [discriminate|].
    destruct (server_read_bid m (formal_name a)) as [m' [c'|]] eqn:Hs; [|discriminate].
    destruct (call_beq c c') eqn:E1; [|discriminate]. apply internal_call_dec_bl in E1. subst c'.
    destruct (parse_bid m' (formal_name a)) as [c''|] eqn:Hp; [|discriminate].
    cbn [andb] in H. destruct (call_beq c c'') eqn:E2; [|discriminate]. apply internal_call_dec_bl in E2. subst c''.
    destruct (take_bid s c) as [s1 o] eqn:Ht.
    destruct o; try discriminate.
    cbn [plus].
    eapply (round_general a s s1 Ongoing (j + f) calls m m' c r); try eassumption; [left; reflexivity|].
    intros T1' T3' T5' T7'.
    eapply IH; [exact H|]. exact HF.
Qed.

(* j accepted calls from the start of an auction: the auction has j calls, hence j <= 319 *)
Lemma calls_prefix_count d v : forall j s calls s' calls', calls_prefix j s calls = Some (s', calls') ->
  Proofs.Auction.Inv d v s -> Proofs.Auction.Inv d v s' /\ length (rhist s') = j + length (rhist s).
Proof.
  induction j as [|j IH]; intros s calls s' calls' H HI; cbn [calls_prefix] in H.
  - injection H as <- <-. split; [exact HI|reflexivity].
  - destruct (active s) as [a|] eqn:Ha; [|discriminate].
    destruct (calls a) as [|[m c] r] eqn:Hc; [discriminate|].
    destruct (server_read_bid m (formal_name a)) as [m' [c'|]] eqn:Hs; [|discriminate].
    destruct (call_beq c c' && _); [|discriminate].
    destruct (take_bid s c) as [s1 o] eqn:Ht.
    destruct o; try discriminate.
    destruct (bid_accept d v s c s1 Ongoing HI Ht ltac:(discriminate) ltac:(discriminate)) as [HI1 HL].
    destruct (IH s1 _ s' calls' H HI1) as [HI' HL']. split; [exact HI'|]. rewrite HL', HL. lia.
Qed.
Lemma calls_prefix_bound d v j s' calls calls' :
  calls_prefix j (Auction.init d v) calls = Some (s', calls') -> j <= 319.
Proof.
  intros H. destruct (calls_prefix_count d v j _ _ _ _ H (Proofs.Auction.Inv_init d v)) as [HI HL].
  pose proof (Proofs.Auction.wf_length d _ (Proofs.Auction.I_wf d v s' HI)) as B. cbn [Auction.init rhist length] in HL. lia.
Qed.

(* ---------- the call that makes the table manager give up ---------- *)
Lemma round_unparseable : forall a s f calls m m' c r km kt0 kt1 kt2 kt3 kc0 kc1 kc2 kc3 L T0 T1 T2 T3 T4 T5 T6 T7 b (F : Kahn.st msg -> Prop),
  active s = Some a -> calls a = (m, c) :: r ->
  server_read_bid m (formal_name a) = (m', None) ->
  (forall st, Raised (L ++ [MLog LClose]) st -> F st) ->
  reach (BidSt (S f) s calls km kt0 kt1 kt2 kt3 kc0 kc1 kc2 kc3 L T0 T1 T2 T3 T4 T5 T6 T7 b) F.
Proof.
  intros a s f calls m m' c r km kt0 kt1 kt2 kt3 kc0 kc1 kc2 kc3 L T0 T1 T2 T3 T4 T5 T6 T7 b F Ha Hc Hs HF.
  unfold BidSt, QS in *.
  destruct a;
    unf_all_bid; rewrite Ha; cbv iota; cbn [seat_beq];
    unfold put_all, put_others, all_seats; cbn [fold_right seat_beq]; cbv iota;
    autorun ltac:(rewrite ?Hc, ?Hs; unfold abort, logp);
    apply reach_done; apply HF; split; reflexivity.
Qed.

Lemma round_illegal : forall a s s' f calls m m' c c' r km kt0 kt1 kt2 kt3 kc0 kc1 kc2 kc3 L T0 T1 T2 T3 T4 T5 T6 T7 b (F : Kahn.st msg -> Prop),
  active s = Some a -> calls a = (m, c) :: r ->
  server_read_bid m (formal_name a) = (m', Some c') -> take_bid s c' = (s', Illegal) ->
  (forall st, Raised (L ++ [MLog LClose]) st -> F st) ->
  reach (BidSt (S f) s calls km kt0 kt1 kt2 kt3 kc0 kc1 kc2 kc3 L T0 T1 T2 T3 T4 T5 T6 T7 b) F.
Proof.
  intros a s s' f calls m m' c c' r km kt0 kt1 kt2 kt3 kc0 kc1 kc2 kc3 L T0 T1 T2 T3 T4 T5 T6 T7 b F Ha Hc Hs Ht HF.
  unfold BidSt, QS in *.
  destruct a;
    unf_all_bid; rewrite Ha; cbv iota; cbn [seat_beq];
    unfold put_all, put_others, all_seats; cbn [fold_right seat_beq]; cbv iota;
    autorun ltac:(rewrite ?Hc, ?Hs, ?Ht; unfold abort, logp);
    apply reach_done; apply HF; split; reflexivity.
Qed.


(* ===================================================================== part C: the boards finished before the abort *)
Opaque conform_board model_record board_view.
Lemma loop_prefix : forall pre post, post <> [] -> forall a scr k names K0 K1 K2 K3 L T0 T1 T2 T3 T4 T5 T6 T7 b (F : Kahn.st msg -> Prop),
  (forall p, length (scr p) = a + length (pre ++ post)) ->
  forallb (fun '(j, b) => conform_board b (fun p => nth_script (scr p) j)) (combine (seq a (length pre)) pre) = true ->
  K0 START = c_boards 4 0 North (S (length (pre ++ post))) START (skipn a (scr North)) ->
  K1 START = c_boards 4 1 East (S (length (pre ++ post))) START (skipn a (scr East)) ->
  K2 START = c_boards 4 2 South (S (length (pre ++ post))) START (skipn a (scr South)) ->
  K3 START = c_boards 4 3 West (S (length (pre ++ post))) START (skipn a (scr West)) ->
  (forall recs a' k' K0' K1' K2' K3' T0' T1' T2' T3' T4' T5' T6' T7' b',
     a' = a + length pre -> k' = k + length pre ->
     map Some recs = recs_from names scr a pre ->
     K0' START = c_boards 4 0 North (S (length post)) START (skipn a' (scr North)) ->
     K1' START = c_boards 4 1 East (S (length post)) START (skipn a' (scr East)) ->
     K2' START = c_boards 4 2 South (S (length post)) START (skipn a' (scr South)) ->
     K3' START = c_boards 4 3 West (S (length post)) START (skipn a' (scr West)) ->
     reach (QS (boards_loop 4 CN names post k')
               (t_boards 4 0 (S (length post)) North) (t_boards 4 1 (S (length post)) East)
               (t_boards 4 2 (S (length post)) South) (t_boards 4 3 (S (length post)) West)
               (crecv 0 K0') (crecv 1 K1') (crecv 2 K2') (crecv 3 K3')
               (L ++ map recmsg recs) T0' T1' T2' T3' T4' T5' T6' T7' b') F) ->
  reach (QS (boards_loop 4 CN names (pre ++ post) k)
            (t_boards 4 0 (S (length (pre ++ post))) North) (t_boards 4 1 (S (length (pre ++ post))) East)
            (t_boards 4 2 (S (length (pre ++ post))) South) (t_boards 4 3 (S (length (pre ++ post))) West)
            (crecv 0 K0) (crecv 1 K1) (crecv 2 K2) (crecv 3 K3) L T0 T1 T2 T3 T4 T5 T6 T7 b) F.
Proof.
  induction pre as [|bd pre IH]; intros post Hne a scr k names K0 K1 K2 K3 L T0 T1 T2 T3 T4 T5 T6 T7 b F Hlen HC HK0 HK1 HK2 HK3 HF.
  - cbn [app] in *. specialize (HF [] a k K0 K1 K2 K3 T0 T1 T2 T3 T4 T5 T6 T7 b). cbn [map length] in HF. rewrite app_nil_r in HF.
    apply HF; try assumption; try lia; reflexivity.
  - cbn [app] in *. remember (pre ++ post) as rest eqn:Erest.
    rewrite forallb_seq_cons in HC. apply andb_true_iff in HC. destruct HC as [HC1 HC2].
    assert (Hsk : forall p, skipn a (scr p) = nth_script (scr p) a :: skipn (S a) (scr p)).
    { intros p. apply skipn_nth. rewrite (Hlen p). cbn [length]. lia. }
    rewrite Hsk in HK0, HK1, HK2, HK3.
    eapply (board_general bd rest k names (length (bd :: rest)) (length (bd :: rest)) (fun p => nth_script (scr p) a)
              (skipn (S a) (scr North)) (skipn (S a) (scr East)) (skipn (S a) (scr South)) (skipn (S a) (scr West))
              K0 K1 K2 K3 L T0 T1 T2 T3 T4 T5 T6 T7 b F HC1 HK0 HK1 HK2 HK3).
    clear T1 T3 T5 T7. intros r T1 T3 T5 T7 Hr.
    destruct rest as [|bd' rest'].
    { exfalso. symmetry in Erest. apply app_eq_nil in Erest. destruct Erest as [_ E]. exact (Hne E). }
    apply next_board.
    rewrite Erest in Hlen |- *.
    eapply (IH post Hne (S a) scr (S k) names); [|exact HC2|reflexivity|reflexivity|reflexivity|reflexivity|].
    + intros p. rewrite (Hlen p). cbn [length]. lia.
    + intros recs a' k' K0' K1' K2' K3' T0' T1' T2' T3' T4' T5' T6' T7' b' Ha' Hk' Hrecs HK0' HK1' HK2' HK3'.
      rewrite <- app_assoc. apply (HF (r :: recs) a' k' K0' K1' K2' K3'); try assumption.
      * cbn [length]. lia.
      * cbn [length]. lia.
      * unfold recs_from in *. rewrite map_seq_cons. cbn [map]. rewrite Hr, Hrecs. reflexivity.
Qed.
Transparent conform_board model_record board_view.


(* ===================================================================== part D: from the start of the session to the auction of the board that goes wrong *)
Lemma upto_auction_split : forall pre bd post ns ew scripts (F : Kahn.st msg -> Prop),
  no_quote ns -> no_quote ew ->
  (forall p, length (scripts p) = length (pre ++ bd :: post)) ->
  forallb (fun '(i, b) => conform_board b (fun p => nth_script (scripts p) i)) (combine (seq 0 (length pre)) pre) = true ->
  (forall recs k ft fc s0 s1 s2 s3 h0 h1 h2 h3 T0 T1 T2 T3 T4 T5 T6 T7 b,
     map Some recs = recs_from (NM ns ew) scripts 0 pre ->
     same_cards h0 (b_deal bd North) -> same_cards h1 (b_deal bd East) ->
     same_cards h2 (b_deal bd South) -> same_cards h3 (b_deal bd West) ->
     reach (BidSt 400 (Auction.init (b_dealer bd) (b_vul bd)) (fun p => sc_calls (nth_script (scripts p) (length pre)))
              (KMb bd post k (NM ns ew))
              (KTb 0 ft North) (KTb 1 ft East) (KTb 2 ft South) (KTb 3 ft West)
              (KCb 0 North fc (nth_script (scripts North) (length pre)) s0 h0)
              (KCb 1 East fc (nth_script (scripts East) (length pre)) s1 h1)
              (KCb 2 South fc (nth_script (scripts South) (length pre)) s2 h2)
              (KCb 3 West fc (nth_script (scripts West) (length pre)) s3 h3)
              ([MLog LOpen] ++ map recmsg recs) T0 T1 T2 T3 T4 T5 T6 T7 b) F) ->
  reach (init_state (conf_session (pre ++ bd :: post) ns ew scripts)) F.
Proof.
  intros pre bd post ns ew scripts F Hns Hew Hlen HC HF.
  apply startup_general; [exact Hns|exact Hew|exact Hlen|]. intros T1 T3 T5 T7.
  apply (loop_prefix pre (bd :: post) ltac:(discriminate) 0 scripts 1 (NM ns ew)); [exact Hlen|exact HC|reflexivity|reflexivity|reflexivity|reflexivity|].
  intros recs a' k' K0 K1 K2 K3 T0' T1' T2' T3' T4' T5' T6' T7' b' Ha' Hk' Hrecs HK0 HK1 HK2 HK3.
  cbn [plus] in Ha'. subst a'.
  assert (Hsk : forall p, skipn (length pre) (scripts p) = nth_script (scripts p) (length pre) :: skipn (S (length pre)) (scripts p)).
  { intros p. apply skipn_nth. rewrite (Hlen p), app_length. cbn [length]. lia. }
  rewrite Hsk in HK0, HK1, HK2, HK3.
  destruct (hand_roundtrip (formal_name North) (b_deal bd North)) as (h0 & Hh0 & Hs0); [simpl; tauto|].
  destruct (hand_roundtrip (formal_name East) (b_deal bd East)) as (h1 & Hh1 & Hs1); [simpl; tauto|].
  destruct (hand_roundtrip (formal_name South) (b_deal bd South)) as (h2 & Hh2 & Hs2); [simpl; tauto|].
  destruct (hand_roundtrip (formal_name West) (b_deal bd West)) as (h3 & Hh3 & Hs3); [simpl; tauto|].
  apply (board_deal bd post k' (NM ns ew) (length (bd :: post)) (length (bd :: post)) (fun p => nth_script (scripts p) (length pre))
           (skipn (S (length pre)) (scripts North)) (skipn (S (length pre)) (scripts East))
           (skipn (S (length pre)) (scripts South)) (skipn (S (length pre)) (scripts West))
           h0 h1 h2 h3 K0 K1 K2 K3 _ T0' T1' T2' T3' T4' T5' T6' T7' b' F HK0 HK1 HK2 HK3 Hh0 Hh1 Hh2 Hh3).
  intros U1 U3 U5 U7. apply HF; assumption.
Qed.

Lemma split_at_nth {A} (l : list A) a x : nth_error l a = Some x ->
  l = firstn a l ++ x :: skipn (S a) l /\ length (firstn a l) = a.
Proof.
  revert a. induction l as [|y l IH]; intros [|a] H; cbn [nth_error] in H; try discriminate.
  - injection H as <-. split; reflexivity.
  - destruct (IH a H) as [E1 E2]. cbn [firstn skipn app length]. split; [f_equal; exact E1|f_equal; exact E2].
Qed.

Lemma upto_auction : forall boards a bd ns ew scripts (F : Kahn.st msg -> Prop),
  no_quote ns -> no_quote ew ->
  (forall p, length (scripts p) = length boards) ->
  nth_error boards a = Some bd ->
  forallb (fun '(i, b) => conform_board b (fun p => nth_script (scripts p) i)) (combine (seq 0 a) (firstn a boards)) = true ->
  (forall recs post k ft fc s0 s1 s2 s3 h0 h1 h2 h3 T0 T1 T2 T3 T4 T5 T6 T7 b,
     map Some recs = recs_from (NM ns ew) scripts 0 (firstn a boards) ->
     same_cards h0 (b_deal bd North) -> same_cards h1 (b_deal bd East) ->
     same_cards h2 (b_deal bd South) -> same_cards h3 (b_deal bd West) ->
     reach (BidSt 400 (Auction.init (b_dealer bd) (b_vul bd)) (fun p => sc_calls (nth_script (scripts p) a))
              (KMb bd post k (NM ns ew))
              (KTb 0 ft North) (KTb 1 ft East) (KTb 2 ft South) (KTb 3 ft West)
              (KCb 0 North fc (nth_script (scripts North) a) s0 h0)
              (KCb 1 East fc (nth_script (scripts East) a) s1 h1)
              (KCb 2 South fc (nth_script (scripts South) a) s2 h2)
              (KCb 3 West fc (nth_script (scripts West) a) s3 h3)
              ([MLog LOpen] ++ map recmsg recs) T0 T1 T2 T3 T4 T5 T6 T7 b) F) ->
  reach (init_state (conf_session boards ns ew scripts)) F.
Proof.
  intros boards a bd ns ew scripts F Hns Hew Hlen Hnth HC HF.
  destruct (split_at_nth boards a bd Hnth) as [Hsplit Hla].
  revert Hlen HC HF. generalize (firstn a boards) (skipn (S a) boards) Hsplit Hla. clear Hsplit Hla Hnth.
  intros pre post -> <- Hlen HC HF.
  apply upto_auction_split; try assumption.
  intros recs k ft fc s0 s1 s2 s3 h0 h1 h2 h3 T0 T1 T2 T3 T4 T5 T6 T7 b Hrecs Hs0 Hs1 Hs2 Hs3.
  apply HF; assumption.
Qed.

(* what the theorems say about the state reached *)
Definition aborted_with (recs : list logrec) (f : Kahn.st msg) : Prop :=
  nth_error (procs msg f) 0 = Some Fail /\ log_events 4 f = LOpen :: map LRec recs ++ [LClose].

Lemma raised_log recs st : Raised (([MLog LOpen] ++ map recmsg recs) ++ [MLog LClose]) st -> aborted_with recs st.
Proof.
  intros [H1 H2]. split; [exact H1|]. unfold log_events. rewrite H2, <- app_assoc. apply log_flat.
Qed.

(* ===================================================================== part E: the auction goes wrong *)
Theorem abort_in_auction_unparseable : forall boards ns ew scripts a bd j,
  no_quote ns -> no_quote ew ->
  (forall p, length (scripts p) = length boards) ->
  nth_error boards a = Some bd ->
  forallb (fun '(i, b) => conform_board b (fun p => nth_script (scripts p) i)) (combine (seq 0 a) (firstn a boards)) = true ->
  auction_unparseable_at bd (fun p => nth_script (scripts p) a) j = true ->
  exists l f recs, srun l (init_state (conf_session boards ns ew scripts)) = Some f /\
    aborted_with recs f /\ map Some recs = recs_from (NM ns ew) scripts 0 (firstn a boards).
Proof.
  intros boards ns ew scripts a bd j Hns Hew Hlen Hnth HC Hfault.
  cut (reach (init_state (conf_session boards ns ew scripts))
         (fun f => exists recs, aborted_with recs f /\ map Some recs = recs_from (NM ns ew) scripts 0 (firstn a boards))).
  { intros (l & f & Hr & recs & H1 & H2). exists l, f, recs. auto. }
  apply (upto_auction boards a bd ns ew scripts _ Hns Hew Hlen Hnth HC).
  intros recs post k ft fc s0 s1 s2 s3 h0 h1 h2 h3 T0 T1 T2 T3 T4 T5 T6 T7 b Hrecs _ _ _ _.
  unfold auction_unparseable_at, next_call in Hfault.
  destruct (calls_prefix j _ _) as [[s said]|] eqn:Hpre; [|discriminate].
  destruct (active s) as [p|] eqn:Ha; [|discriminate].
  destruct (said p) as [|[m c] r] eqn:Hc; [discriminate|].
  destruct (server_read_bid m (formal_name p)) as [m' oc] eqn:Hs. cbn [snd] in Hfault.
  destruct oc as [c'|]; [discriminate|].
  pose proof (calls_prefix_bound _ _ _ _ _ _ Hpre) as Hj.
  replace 400 with (j + S (399 - j)) by lia. generalize (399 - j). intros f.
  apply (auction_prefix j (S f) _ _ s said Hpre).
  clear T0 T1 T2 T3 T4 T5 T6 T7. intros T0 T1 T2 T3 T4 T5 T6 T7.
  apply (round_unparseable p s f said m m' c r _ _ _ _ _ _ _ _ _ _ _ _ _ _ _ _ _ _ _ _ Ha Hc Hs).
  intros st HR. exists recs. split; [apply raised_log; exact HR|exact Hrecs].
Qed.

Theorem abort_in_auction_illegal : forall boards ns ew scripts a bd j,
  no_quote ns -> no_quote ew ->
  (forall p, length (scripts p) = length boards) ->
  nth_error boards a = Some bd ->
  forallb (fun '(i, b) => conform_board b (fun p => nth_script (scripts p) i)) (combine (seq 0 a) (firstn a boards)) = true ->
  auction_illegal_at bd (fun p => nth_script (scripts p) a) j = true ->
  exists l f recs, srun l (init_state (conf_session boards ns ew scripts)) = Some f /\
    aborted_with recs f /\ map Some recs = recs_from (NM ns ew) scripts 0 (firstn a boards).
Proof.
  intros boards ns ew scripts a bd j Hns Hew Hlen Hnth HC Hfault.
  cut (reach (init_state (conf_session boards ns ew scripts))
         (fun f => exists recs, aborted_with recs f /\ map Some recs = recs_from (NM ns ew) scripts 0 (firstn a boards))).
  { intros (l & f & Hr & recs & H1 & H2). exists l, f, recs. auto. }
  apply (upto_auction boards a bd ns ew scripts _ Hns Hew Hlen Hnth HC).
  intros recs post k ft fc s0 s1 s2 s3 h0 h1 h2 h3 T0 T1 T2 T3 T4 T5 T6 T7 b Hrecs _ _ _ _.
  unfold auction_illegal_at, next_call in Hfault.
  destruct (calls_prefix j _ _) as [[s said]|] eqn:Hpre; [|discriminate].
  destruct (active s) as [p|] eqn:Ha; [|discriminate].
  destruct (said p) as [|[m c] r] eqn:Hc; [discriminate|].
  destruct (server_read_bid m (formal_name p)) as [m' oc] eqn:Hs. cbn [snd] in Hfault.
  destruct oc as [c'|]; [|discriminate].
  destruct (take_bid s c') as [s' o] eqn:Ht. cbn [snd] in Hfault.
  destruct o; try discriminate.
  pose proof (calls_prefix_bound _ _ _ _ _ _ Hpre) as Hj.
  replace 400 with (j + S (399 - j)) by lia. generalize (399 - j). intros f.
  apply (auction_prefix j (S f) _ _ s said Hpre).
  clear T0 T1 T2 T3 T4 T5 T6 T7. intros T0 T1 T2 T3 T4 T5 T6 T7.
  apply (round_illegal p s s' f said m m' c c' r _ _ _ _ _ _ _ _ _ _ _ _ _ _ _ _ _ _ _ _ Ha Hc Hs Ht).
  intros st HR. exists recs. split; [apply raised_log; exact HR|exact Hrecs].
Qed.


(* ===================================================================== part F: the play goes wrong *)
(* what the table manager cannot accept from the seat a in the state hs: a text that is not a card, or a card the play refuses *)
Definition bad_card (hs : hstate) (a : seat) (m : string) : Prop :=
  parse_card m a = None \/ exists c' hs', parse_card m a = Some c' /\ play_by hs c' a = (hs', PRaises).

Lemma bad_card_decision (P : Type) hs a m (A : P) (X : hstate -> P) : bad_card hs a m ->
  match parse_card m a with
  | None => A
  | Some c => match play_by hs c a with (_, PRaises) => A | (hs', POk) => X hs' end end = A.
Proof. intros [H | (c' & hs' & H1 & H2)]; [rewrite H; reflexivity|rewrite H1, H2; reflexivity]. Qed.



(* ---------- a card from the third on ---------- *)
Ltac sweep3 ti ci rw := drain 0 rw; drain ti rw; drain ci rw.
Ltac autorun3 H rw :=
  match type of H with _ ?sp = _ =>
    let i := eval cbv in (CN sp) in let ti := eval cbv in (S i) in let ci := eval cbv in (5 + i) in
    repeat (progress (sweep3 ti ci rw)) end.

Lemma card_fault : forall a decl lead f i hs orig a0 ld os os' cards m c r K kt0 kt1 kt2 kt3 kc0 kc1 kc2 kc3
    L T0 T1 T2 T3 T4 T5 T6 T7 b (F : Kahn.st msg -> Prop),
  (i =? 0) = false -> (i mod 4 =? 0) = lead -> (lead = true -> ld = a) -> (lead = false -> a0 = a) ->
  pactive (hbase hs) = a -> dummy (hbase hs) = partner decl -> declarer (hbase hs) = decl -> leader (hbase hs) = ld ->
  (forall q, pactive (obase (os q)) = a) -> (forall q, dummy (obase (os q)) = partner decl) ->
  (forall q, declarer (obase (os q)) = decl) -> (forall q, trick_num (obase (os q)) = i / 4 + 1) ->
  cards (speaker a decl) = (m, c) :: r ->
  (forall q, obs_play_by (os q) c a = (os' q, POk)) ->
  bad_card hs a m ->
  (forall st, Raised (L ++ [MLog LClose]) st -> F st) ->
  reach (PlaySt (S f) i hs orig decl a0 os true cards K kt0 kt1 kt2 kt3 kc0 kc1 kc2 kc3 L T0 T1 T2 T3 T4 T5 T6 T7 b) F.
Proof.
  intros a decl lead f i hs orig a0 ld os os' cards m c r K kt0 kt1 kt2 kt3 kc0 kc1 kc2 kc3
    L T0 T1 T2 T3 T4 T5 T6 T7 b F Hi0 Hm Hld Ha0 Hpa Hdm Hdc Hle Opa Odm Odc Otn Hc Hob Hbad HF.
  unfold PlaySt, QS, speaker in *.
  (destruct lead; [rewrite (Hld eq_refl) in Hle|rewrite (Ha0 eq_refl)]; clear Hld Ha0;
    destruct a, decl;
    unf_all_play; rewrite ?Hi0, ?Hm, ?Hpa, ?Hdm, ?Hdc, ?Hle, ?Opa, ?Odm, ?Odc, ?Otn;
    cbn [partner next seat_beq andb orb negb] in *; cbv beta iota zeta;
    unfold put_all, put_others, all_seats; cbn [fold_right seat_beq]; cbv iota;
    autorun3 Hc ltac:(rewrite ?Hc, ?Hob, ?(bad_card_decision _ _ _ _ _ _ Hbad), ?ready_card_ok by (simpl; tauto); unfold abort, logp);
    apply reach_done; apply HF; split; reflexivity).
Qed.


Ltac sweep3b ti ci rw := drain2 0 rw; drain2 ti rw; drain2 ci rw.
Ltac autorun3b H rw :=
  match type of H with _ ?sp = _ =>
    let i := eval cbv in (CN sp) in let ti := eval cbv in (S i) in let ci := eval cbv in (5 + i) in
    repeat (progress (sweep3b ti ci rw)) end.

(* ---------- the opening lead ---------- *)
Lemma lead_fault : forall decl f hs0 orig a0 os os1 cards m0 c0 r0 K kt0 kt1 kt2 kt3 kc0 kc1 kc2 kc3
    L T0 T1 T2 T3 T4 T5 T6 T7 b (F : Kahn.st msg -> Prop),
  pactive (hbase hs0) = next decl -> dummy (hbase hs0) = partner decl -> declarer (hbase hs0) = decl -> leader (hbase hs0) = next decl ->
  (forall q, pactive (obase (os q)) = next decl) -> (forall q, dummy (obase (os q)) = partner decl) ->
  (forall q, declarer (obase (os q)) = decl) -> (forall q, trick_num (obase (os q)) = 0 / 4 + 1) ->
  cards (next decl) = (m0, c0) :: r0 ->
  (forall q, obs_play_by (os q) c0 (next decl) = (os1 q, POk)) ->
  bad_card hs0 (next decl) m0 ->
  (forall st, Raised (L ++ [MLog LClose]) st -> F st) ->
  reach (PlaySt (S f) 0 hs0 orig decl a0 os false cards K kt0 kt1 kt2 kt3 kc0 kc1 kc2 kc3 L T0 T1 T2 T3 T4 T5 T6 T7 b) F.
Proof.
  intros decl f hs0 orig a0 os os1 cards m0 c0 r0 K kt0 kt1 kt2 kt3 kc0 kc1 kc2 kc3
    L T0 T1 T2 T3 T4 T5 T6 T7 b F H0pa H0dm H0dc H0le Opa Odm Odc Otn Hc0 Hob0 Hbad HF.
  unfold PlaySt, QS in *.
  (destruct decl;
    cbn [partner next seat_beq] in *;
    unf_all_play; rewrite ?H0pa, ?H0dm, ?H0dc, ?H0le, ?Opa, ?Odm, ?Odc, ?Otn;
    cbn [partner next seat_beq andb orb negb] in *; cbv beta iota zeta;
    unfold put_all, put_others, all_seats; cbn [fold_right seat_beq]; cbv iota;
    autorun3b Hc0 ltac:(rewrite ?Hc0, ?Hob0, ?(bad_card_decision _ _ _ _ _ _ Hbad), ?ready_card_ok by (simpl; tauto); unfold abort, logp);
    apply reach_done; apply HF; split; reflexivity).
Qed.

(* ---------- the second card: declarer plays from dummy ---------- *)
Lemma dummy_fault : forall decl f hs1 orig os1 os2 hd cards m1 c1 r1 K kt0 kt1 kt2 kt3 kc0 kc1 kc2 kc3
    L T0 T1 T2 T3 T4 T5 T6 T7 b (F : Kahn.st msg -> Prop),
  pactive (hbase hs1) = partner decl -> dummy (hbase hs1) = partner decl -> declarer (hbase hs1) = decl ->
  (forall q, pactive (obase (os1 q)) = partner decl) -> (forall q, dummy (obase (os1 q)) = partner decl) ->
  (forall q, declarer (obase (os1 q)) = decl) -> (forall q, trick_num (obase (os1 q)) = 1 / 4 + 1) ->
  parse_cards_line (cards_line "Dummy" (orig (partner decl))) "Dummy" = Some hd ->
  cards decl = (m1, c1) :: r1 ->
  (forall q, obs_play_by (if seat_beq q (partner decl) then os1 q else set_dummy_hand (os1 q) hd) c1 (partner decl) = (os2 q, POk)) ->
  bad_card hs1 (partner decl) m1 ->
  (forall st, Raised (L ++ [MLog LClose]) st -> F st) ->
  reach (MidSt (S f) hs1 orig decl os1 cards K kt0 kt1 kt2 kt3 kc0 kc1 kc2 kc3 L T0 T1 T2 T3 T4 T5 T6 T7 b) F.
Proof.
  intros decl f hs1 orig os1 os2 hd cards m1 c1 r1 K kt0 kt1 kt2 kt3 kc0 kc1 kc2 kc3
    L T0 T1 T2 T3 T4 T5 T6 T7 b F H1pa H1dm H1dc O1pa O1dm O1dc O1tn Hhd Hc1 Hob1 Hbad HF.
  pose proof (Hob1 North) as HobN. pose proof (Hob1 East) as HobE. pose proof (Hob1 South) as HobS. pose proof (Hob1 West) as HobW.
  clear Hob1.
  unfold PlaySt, MidSt, QS in *.
  (destruct decl;
    cbn [partner next seat_beq] in *; cbv beta iota zeta;
    unf_all_play; rewrite ?H1pa, ?H1dm, ?H1dc, ?O1pa, ?O1dm, ?O1dc, ?O1tn;
    cbn [partner next seat_beq andb orb negb] in *; cbv beta iota zeta;
    unfold put_all, put_others, all_seats; cbn [fold_right seat_beq]; cbv iota;
    autorun3b Hc1 ltac:(rewrite ?Hhd, ?dummy_line_open, ?Hc1, ?HobN, ?HobE, ?HobS, ?HobW, ?(bad_card_decision _ _ _ _ _ _ Hbad),
                       ?ready_card_ok by (simpl; tauto); unfold abort, logp);
    apply reach_done; apply HF; split; reflexivity).
Qed.


(* ---------- j cards that conform (exactly the checks of Conform.seq_cards) ---------- *)
Fixpoint cards_prefix (j : nat) (hs : hstate) (said : said_cards) : option (hstate * said_cards) :=
  match j with
  | 0 => Some (hs, said)
  | S j' =>
    let b := hbase hs in
    let a := pactive b in
    let who := if seat_beq a (dummy b) then declarer b else a in
    match said who with
    | [] => None
    | (m, c) :: _ =>
        match parse_card m a with
        | Some c' => if card_beq c c'
                     then match play_by hs c a with
                          | (hs', POk) => cards_prefix j' hs' (pop said who)
                          | _ => None end
                     else None
        | None => None end end end.

Lemma cards_prefix_inv j hs said hs' said' decl : cards_prefix (S j) hs said = Some (hs', said') ->
  dummy (hbase hs) = partner decl -> declarer (hbase hs) = decl ->
  exists m c r hs1, said (speaker (pactive (hbase hs)) decl) = (m, c) :: r /\
     parse_card m (pactive (hbase hs)) = Some c /\ play_by hs c (pactive (hbase hs)) = (hs1, POk) /\
     cards_prefix j hs1 (pop said (speaker (pactive (hbase hs)) decl)) = Some (hs', said').
Proof.
  intros H Fdm Fdc. cbn [cards_prefix] in H. cbv zeta in H. rewrite Fdm, Fdc in H.
  change (if seat_beq (pactive (hbase hs)) (partner decl) then decl else pactive (hbase hs))
    with (speaker (pactive (hbase hs)) decl) in H.
  destruct (said (speaker (pactive (hbase hs)) decl)) as [|[m c] r] eqn:Hc; [discriminate|].
  destruct (parse_card m (pactive (hbase hs))) as [c'|] eqn:Hpc; [|discriminate].
  destruct (card_beq c c') eqn:E; [|discriminate]. apply internal_card_dec_bl in E. subst c'.
  destruct (play_by hs c (pactive (hbase hs))) as [hs1 [|]] eqn:Hpb; [|discriminate].
  exists m, c, r, hs1. auto.
Qed.

Lemma cards_prefix_static : forall j hs said hs' said', cards_prefix j hs said = Some (hs', said') ->
  declarer (hbase hs') = declarer (hbase hs) /\ dummy (hbase hs') = dummy (hbase hs).
Proof.
  induction j as [|j IH]; intros hs said hs' said' H.
  - cbn [cards_prefix] in H. injection H as <- <-. split; reflexivity.
  - cbn [cards_prefix] in H. cbv zeta in H.
    destruct (said _) as [|[m c] r]; [discriminate|].
    destruct (parse_card m (pactive (hbase hs))) as [c'|]; [|discriminate].
    destruct (card_beq c c'); [|discriminate].
    destruct (play_by hs c (pactive (hbase hs))) as [hs1 [|]] eqn:Hpb; [|discriminate].
    destruct (IH hs1 _ hs' said' H) as [E1 E2].
    assert (Hok : snd (play_by hs c (pactive (hbase hs))) = POk) by (rewrite Hpb; reflexivity).
    destruct (Proofs.Play.play_by_accepted_effect hs c _ Hok) as [Hb _]. rewrite Hpb in Hb. cbn [fst] in Hb.
    destruct (Proofs.Play.play_card_static (hbase hs) c) as (_ & S1 & S2).
    rewrite E1, E2, Hb. split; assumption.
Qed.

(* ---------- j conforming cards from the third on ---------- *)
Lemma play_prefix k decl orig e : forall j i hs cards hs' cards', cards_prefix j hs cards = Some (hs', cards') ->
  forall a0 os K kt0 kt1 kt2 kt3 kc0 kc1 kc2 kc3 L T0 T1 T2 T3 T4 T5 T6 T7 b (F : Kahn.st msg -> Prop),
  (i =? 0) = false -> PInv k decl i hs os -> DInv decl hs os -> ((i mod 4 =? 0) = false -> a0 = pactive (hbase hs)) ->
  (forall a0' os' T0' T1' T2' T3' T4' T5' T6' T7', PInv k decl (i + j) hs' os' -> DInv decl hs' os' ->
     (((i + j) mod 4 =? 0) = false -> a0' = pactive (hbase hs')) ->
     reach (PlaySt e (i + j) hs' orig decl a0' os' true cards' K kt0 kt1 kt2 kt3 kc0 kc1 kc2 kc3 L T0' T1' T2' T3' T4' T5' T6' T7' b) F) ->
  reach (PlaySt (j + e) i hs orig decl a0 os true cards K kt0 kt1 kt2 kt3 kc0 kc1 kc2 kc3 L T0 T1 T2 T3 T4 T5 T6 T7 b) F.
Proof.
  induction j as [|j IH]; intros i hs cards hs' cards' H a0 os K kt0 kt1 kt2 kt3 kc0 kc1 kc2 kc3 L T0 T1 T2 T3 T4 T5 T6 T7 b F
    Hi0 HP HD Ha0 HF.
  - cbn [cards_prefix] in H. injection H as <- <-. cbn [plus].
    specialize (HF a0 os T0 T1 T2 T3 T4 T5 T6 T7). rewrite Nat.add_0_r in HF. apply HF; assumption.
  - pose proof (pinv_facts _ _ _ _ _ HP) as (Fdm & Fdc & Ftn & Flt & Fpa & _ & Opa & Odm & Odc & Otn).
    destruct (cards_prefix_inv _ _ _ _ _ decl H Fdm Fdc) as (m & c & r & hs1 & Hc & Hpc & Hpb & H').
    destruct (pinv_step k decl i hs os c hs1 HP (fun _ => HD) Hpb) as (os1 & Hob & HP' & HD' & Hnx & _).
    assert (Hld : (i mod 4 =? 0) = true -> leader (hbase hs) = pactive (hbase hs)).
    { intros Hm. apply Nat.eqb_eq in Hm. rewrite Fpa, Hm. reflexivity. }
    cbn [plus].
    eapply (card_round (pactive (hbase hs)) decl (i mod 4 =? 0) (j + e) i hs hs1 orig a0 (leader (hbase hs)) os os1 cards m c r
              K kt0 kt1 kt2 kt3 kc0 kc1 kc2 kc3 L T0 T1 T2 T3 T4 T5 T6 T7 b F
              Hi0 eq_refl Hld Ha0 eq_refl Fdm Fdc eq_refl Opa Odm Odc Otn Hc Hpc Hpb Hob).
    intros T1' T3' T5' T7'.
    eapply (IH (S i) hs1 _ hs' cards' H'); [reflexivity|exact HP'|exact (HD' HD)| |].
    + intros Hm. apply Hnx. exact Hm.
    + intros a0' os' U0 U1 U2 U3 U4 U5 U6 U7 HPf HDf Ha0f.
      replace (S i + j) with (i + S j) in * by lia. apply HF; assumption.
Qed.

(* ---------- from the end of the auction of a played board to its opening lead ---------- *)
Lemma board_to_play : forall bd rest k names ft fc sc s0 s1 s2 s3 h0 h1 h2 h3 f sfin kk hs0 calls L T0 T1 T2 T3 T4 T5 T6 T7 b
    (F : Kahn.st msg -> Prop),
  active sfin = None -> contract_of sfin = Some kk -> is_passed_out kk = false ->
  init_hands kk (b_deal bd) = Some hs0 ->
  (forall d b0 K U0 U1 U2 U3 U4 U5 U6 U7,
     hs0 = mkH b0 (b_deal bd) -> init_play kk = Some b0 ->
     declarer b0 = d -> dummy b0 = partner d -> leader b0 = next d -> pactive b0 = next d ->
     reach (PlaySt 52 0 (mkH b0 (b_deal bd)) (b_deal bd) d North
              (fun q : seat => mkO b0 q (match q with North => h0 | East => h1 | South => h2 | West => h3 end) None) false
              (fun p => sc_cards (sc p)) K
              (t_after 0 ft North) (t_after 1 ft East) (t_after 2 ft South) (t_after 3 ft West)
              (fun _ _ => c_next 0 North fc s0) (fun _ _ => c_next 1 East fc s1)
              (fun _ _ => c_next 2 South fc s2) (fun _ _ => c_next 3 West fc s3)
              L U0 U1 U2 U3 U4 U5 U6 U7 b) F) ->
  reach (BidSt (S f) sfin calls (KMb bd rest k names)
              (KTb 0 ft North) (KTb 1 ft East) (KTb 2 ft South) (KTb 3 ft West)
              (KCb 0 North fc (sc North) s0 h0) (KCb 1 East fc (sc East) s1 h1)
              (KCb 2 South fc (sc South) s2 h2) (KCb 3 West fc (sc West) s3 h3)
              L T0 T1 T2 T3 T4 T5 T6 T7 b) F.
Proof.
  intros bd rest k names ft fc sc s0 s1 s2 s3 h0 h1 h2 h3 f sfin kk hs0 calls L T0 T1 T2 T3 T4 T5 T6 T7 b F
    Hact Hk Hpo Hih HF.
  destruct (Proofs.Play.init_hands_shape kk (b_deal bd) hs0 Hih) as (b0 & Hb0 & ->).
  destruct (Proofs.Play.opening kk b0 Hb0) as (lv & st & d & Hfb & Hcd & _ & Hdc & Hdm & Hle & Hpa & _).
  specialize (HF d b0).
  destruct kk as [fb x xx v cd]. cbn [final_bid cdeclarer] in Hfb, Hcd. subst fb cd.
  unfold BidSt, PlaySt, QS in *. cbv beta iota in HF.
  rewrite (bidding_end 4 CN f _ _ Hact).
  rewrite !(c_bidding_end 4 _ _ f _ _ _ Hact).
  unfold KMb, KCb. rewrite Hk. cbv iota. rewrite Hpo, Hih. cbv iota. cbn [hbase]. rewrite Hdc.
  unfold init_obs. rewrite Hb0. cbn [option_map]. cbv iota.
  unfold put_null_pair, put_all, all_seats; cbn [fold_right]. rewrite Hpo. cbv iota.
  do 12 go 0.
  unfold KTb.
  pre_t 0. pre_t 1. pre_t 2. pre_t 3.
  eapply HF; try eassumption; reflexivity.
Qed.

(* ---------- the play of a board up to the card that makes the table manager give up ---------- *)
Lemma play_upto : forall kk d b0 orig cards j e hs cards' hsx m c r os0 a0 K kt0 kt1 kt2 kt3 kc0 kc1 kc2 kc3
    L T0 T1 T2 T3 T4 T5 T6 T7 b (F : Kahn.st msg -> Prop),
  init_play kk = Some b0 -> declarer b0 = d -> dummy b0 = partner d -> leader b0 = next d -> pactive b0 = next d ->
  (forall q, obase (os0 q) = b0 /\ ome (os0 q) = q /\ odummy (os0 q) = None /\ same_cards (ohand (os0 q)) (orig q)) ->
  cards_prefix j (mkH b0 orig) cards = Some (hs, cards') ->
  cards' (speaker (pactive (hbase hs)) d) = (m, c) :: r ->
  play_by hs c (pactive (hbase hs)) = (hsx, POk) ->
  bad_card hs (pactive (hbase hs)) m ->
  (forall st, Raised (L ++ [MLog LClose]) st -> F st) ->
  reach (PlaySt (j + S e) 0 (mkH b0 orig) orig d a0 os0 false cards K kt0 kt1 kt2 kt3 kc0 kc1 kc2 kc3 L T0 T1 T2 T3 T4 T5 T6 T7 b) F.
Proof.
  intros kk d b0 orig cards j e hs cards' hsx m c r os0 a0 K kt0 kt1 kt2 kt3 kc0 kc1 kc2 kc3 L T0 T1 T2 T3 T4 T5 T6 T7 b F
    Hb0 Hdc Hdm Hle Hpa Hos Hpre Hc Hpb Hbad HF.
  set (hs0 := mkH b0 orig) in *.
  assert (HP0 : PInv kk d 0 hs0 os0).
  { exists b0, []. repeat split; try assumption; try reflexivity; destruct (Hos q) as (A1 & A2 & A3 & A4).
    - rewrite A1. reflexivity.
    - exact A2.
    - apply A4.
    - apply A4. }
  pose proof (pinv_facts _ _ _ _ _ HP0) as (F0dm & F0dc & _ & _ & _ & _ & O0pa & O0dm & O0dc & O0tn).
  assert (E0 : pactive (hbase hs0) = next d) by exact Hpa.
  assert (Hle0 : leader (hbase hs0) = next d) by exact Hle.
  rewrite E0 in O0pa.
  destruct j as [|j].
  { (* the opening lead *)
    cbn [cards_prefix] in Hpre. injection Hpre as <- <-.
    rewrite E0 in Hc, Hpb, Hbad. rewrite speaker_lead in Hc.
    destruct (pinv_step kk d 0 hs0 os0 c hsx HP0) as (os1 & Hob0 & _).
    { rewrite E0. intros E. exfalso. exact (next_not_partner d E). }
    { rewrite E0. exact Hpb. }
    rewrite E0 in Hob0.
    change (0 + S e) with (S e).
    exact (lead_fault d e hs0 orig a0 os0 os1 cards m c r K kt0 kt1 kt2 kt3 kc0 kc1 kc2 kc3 L T0 T1 T2 T3 T4 T5 T6 T7 b F
             E0 F0dm F0dc Hle0 O0pa O0dm O0dc O0tn Hc Hob0 Hbad HF). }
  destruct (cards_prefix_inv _ _ _ _ _ d Hpre F0dm F0dc) as (m0 & c0 & r0 & hs1 & Hc0 & Hpc0 & Hpb0 & Hpre1).
  rewrite E0 in Hc0, Hpc0, Hpb0, Hpre1. rewrite speaker_lead in Hc0, Hpre1.
  destruct (pinv_step kk d 0 hs0 os0 c0 hs1 HP0) as (os1 & Hob0 & HP1 & _ & Hnx0 & Hhn1).
  { rewrite E0. intros E. exfalso. exact (next_not_partner d E). }
  { rewrite E0. exact Hpb0. }
  rewrite E0 in Hob0, Hnx0, Hhn1.
  change (S j + S e) with (S (j + S e)).
  eapply (opening_lead d (j + S e) hs0 hs1 orig a0 os0 os1 cards m0 c0 r0 K kt0 kt1 kt2 kt3 kc0 kc1 kc2 kc3 L T0 T1 T2 T3 T4 T5 T6 T7 b F
            E0 F0dm F0dc Hle0 O0pa O0dm O0dc O0tn Hc0 Hpc0 Hpb0 Hob0).
  clear T1 T3 T5 T7. intros T1 T3 T5 T7.
  assert (E1 : pactive (hbase hs1) = partner d) by (symmetry; apply Hnx0; reflexivity).
  pose proof (pinv_facts _ _ _ _ _ HP1) as (F1dm & F1dc & _ & _ & _ & _ & O1pa & O1dm & O1dc & O1tn).
  rewrite E1 in O1pa.
  destruct (hand_roundtrip "Dummy" (orig (partner d))) as (hd & Hhd & Hsd); [simpl; tauto|].
  set (os1' := fun q : seat => if seat_beq q (partner d) then os1 q else set_dummy_hand (os1 q) hd).
  assert (HP1' : PInv kk d 1 hs1 os1').
  { destruct HP1 as (b0' & pl & A1 & A2 & A3 & A4 & A5 & A6). exists b0', pl. repeat split; try assumption;
      unfold os1'; destruct (seat_beq q (partner d)); try apply A6; apply (A6 q). }
  assert (HD1' : DInv d hs1 os1').
  { intros q Hne. unfold os1'. destruct (seat_beq q (partner d)) eqn:E; [apply Proofs.Play.seat_beq_true in E; contradiction|].
    exists hd. split; [reflexivity|]. intros _ x. rewrite Hhn1. unfold hs0. cbn [hands].
    pose proof (Hsd x) as Hx. pose proof (next_not_partner d). split; [intros Hi; split; [apply Hx; exact Hi|]|intros [Hi _]; apply Hx; exact Hi].
    intros [Ep _]. congruence. }
  destruct j as [|j].
  { (* the second card, from dummy *)
    cbn [cards_prefix] in Hpre1. injection Hpre1 as <- <-.
    rewrite E1 in Hc, Hpb, Hbad. rewrite speaker_dummy in Hc.
    destruct (pinv_step kk d 1 hs1 os1' c hsx HP1' (fun _ => HD1')) as (os2 & Hob1 & _).
    { rewrite E1. exact Hpb. }
    rewrite E1 in Hob1.
    change (0 + S e) with (S e).
    exact (dummy_fault d e hs1 orig os1 os2 hd (pop cards (next d)) m c r K kt0 kt1 kt2 kt3 kc0 kc1 kc2 kc3 L _ T1 _ T3 _ T5 _ T7 b F
             E1 F1dm F1dc O1pa O1dm O1dc O1tn Hhd Hc Hob1 Hbad HF). }
  destruct (cards_prefix_inv _ _ _ _ _ d Hpre1 F1dm F1dc) as (m1 & c1 & r1 & hs2 & Hc1 & Hpc1 & Hpb1 & Hpre2).
  rewrite E1 in Hc1, Hpc1, Hpb1, Hpre2. rewrite speaker_dummy in Hc1, Hpre2.
  destruct (pinv_step kk d 1 hs1 os1' c1 hs2 HP1' (fun _ => HD1')) as (os2 & Hob1 & HP2 & HD2 & Hnx1 & _).
  { rewrite E1. exact Hpb1. }
  rewrite E1 in Hob1, Hnx1. specialize (HD2 HD1').
  change (S j + S e) with (S (j + S e)).
  eapply (dummy_shown d (j + S e) hs1 hs2 orig os1 os2 hd (pop cards (next d)) m1 c1 r1 K kt0 kt1 kt2 kt3 kc0 kc1 kc2 kc3 L _ T1 _ T3 _ T5 _ T7 b F
            E1 F1dm F1dc O1pa O1dm O1dc O1tn Hhd Hc1 Hpc1 Hpb1 Hob1).
  clear T1 T3 T5 T7. intros T1 T3 T5 T7.
  eapply (play_prefix kk d orig (S e) j 2 hs2 _ hs cards' Hpre2); [reflexivity|exact HP2|exact HD2| |].
  { intros _. apply Hnx1. reflexivity. }
  intros a0' os' U0 U1 U2 U3 U4 U5 U6 U7 HPf HDf Ha0f.
  pose proof (pinv_facts _ _ _ _ _ HPf) as (Ffdm & Ffdc & _ & _ & Ffpa & _ & Ofpa & Ofdm & Ofdc & Oftn).
  destruct (pinv_step kk d (2 + j) hs os' c hsx HPf (fun _ => HDf) Hpb) as (osx & Hobf & _).
  assert (Hld : ((2 + j) mod 4 =? 0) = true -> leader (hbase hs) = pactive (hbase hs)).
  { intros Hm. apply Nat.eqb_eq in Hm. rewrite Ffpa, Hm. reflexivity. }
  exact (card_fault (pactive (hbase hs)) d ((2 + j) mod 4 =? 0) e (2 + j) hs orig a0' (leader (hbase hs)) os' osx cards' m c r
           K kt0 kt1 kt2 kt3 kc0 kc1 kc2 kc3 L U0 U1 U2 U3 U4 U5 U6 U7 b F
           eq_refl eq_refl Hld Ha0f eq_refl Ffdm Ffdc eq_refl Ofpa Ofdm Ofdc Oftn Hc Hobf Hbad HF).
Qed.


(* ---------- where the play of a board goes wrong ---------- *)
(* after a conforming auction and j conforming cards: the play state, the seat on turn, the text said for it (by declarer
   when dummy is on turn) and the value the script gives for that text *)
Definition next_card (bd : board) (sc : seat -> cscript) (j : nat) : option (hstate * seat * string * card) :=
  match seq_calls 400 (Auction.init (b_dealer bd) (b_vul bd)) (fun p => sc_calls (sc p)) with
  | None => None
  | Some s =>
    match contract_of s with
    | None => None
    | Some k =>
      if is_passed_out k then None
      else match init_hands k (b_deal bd) with
           | None => None
           | Some hs0 =>
             match cards_prefix j hs0 (fun p => sc_cards (sc p)) with
             | None => None
             | Some (hs, said) =>
                 let a := pactive (hbase hs) in
                 match said (if seat_beq a (dummy (hbase hs)) then declarer (hbase hs) else a) with
                 | [] => None
                 | (m, c) :: _ => Some (hs, a, m, c) end end end end end.
(* fault (iii): the scripted card is playable (the bundled client checks it before it sends anything) but the text said
   for it does not read as a card *)
Definition play_unparseable_at (bd : board) (sc : seat -> cscript) (j : nat) : bool :=
  (j <? 52) &&
  match next_card bd sc j with
  | Some (hs, a, m, c) =>
      match snd (play_by hs c a), parse_card m a with POk, None => true | _, _ => false end
  | None => false end.
(* fault (iv): ... the text reads as a card the play refuses (not in the hand that must play) *)
Definition play_refused_at (bd : board) (sc : seat -> cscript) (j : nat) : bool :=
  (j <? 52) &&
  match next_card bd sc j with
  | Some (hs, a, m, c) =>
      match snd (play_by hs c a), parse_card m a with
      | POk, Some c' => match snd (play_by hs c' a) with PRaises => true | POk => false end
      | _, _ => false end
  | None => false end.

Lemma abort_in_play_gen : forall boards ns ew scripts a bd j hs p m c,
  no_quote ns -> no_quote ew ->
  (forall q, length (scripts q) = length boards) ->
  nth_error boards a = Some bd ->
  forallb (fun '(i, b) => conform_board b (fun q => nth_script (scripts q) i)) (combine (seq 0 a) (firstn a boards)) = true ->
  j < 52 -> next_card bd (fun q => nth_script (scripts q) a) j = Some (hs, p, m, c) ->
  snd (play_by hs c p) = POk -> bad_card hs p m ->
  exists l f recs, srun l (init_state (conf_session boards ns ew scripts)) = Some f /\
    aborted_with recs f /\ map Some recs = recs_from (NM ns ew) scripts 0 (firstn a boards).
Proof.
  intros boards ns ew scripts a bd j hs p m c Hns Hew Hlen Hnth HC Hj Hnc Hok Hbad.
  cut (reach (init_state (conf_session boards ns ew scripts))
         (fun f => exists recs, aborted_with recs f /\ map Some recs = recs_from (NM ns ew) scripts 0 (firstn a boards))).
  { intros (l & f & Hr & recs & H1 & H2). exists l, f, recs. auto. }
  apply (upto_auction boards a bd ns ew scripts _ Hns Hew Hlen Hnth HC).
  intros recs post k ft fc s0 s1 s2 s3 h0 h1 h2 h3 T0 T1 T2 T3 T4 T5 T6 T7 b Hrecs Hs0 Hs1 Hs2 Hs3.
  unfold next_card in Hnc.
  destruct (seq_calls 400 _ _) as [sfin|] eqn:Hsc; [|discriminate].
  destruct (contract_of sfin) as [kk|] eqn:Hk; [|discriminate].
  destruct (is_passed_out kk) eqn:Hpo; [discriminate|].
  destruct (init_hands kk (b_deal bd)) as [hs0|] eqn:Hih; [|discriminate].
  destruct (cards_prefix j hs0 _) as [[hs' said]|] eqn:Hpre; [|discriminate].
  cbv zeta in Hnc.
  destruct (said _) as [|[m' c'] r] eqn:Hc; [discriminate|].
  injection Hnc as E1 E2 E3 E4. subst hs' m' c'.
  apply (auction_general 400 _ _ sfin Hsc).
  clear T1 T3 T5 T7. intros f' calls' T1 T3 T5 T7 Hact.
  apply (board_to_play bd post k (NM ns ew) ft fc (fun q => nth_script (scripts q) a) s0 s1 s2 s3 h0 h1 h2 h3 f' sfin kk hs0 calls'
           _ _ _ _ _ _ _ _ _ _ _ Hact Hk Hpo Hih).
  intros d b0 K U0 U1 U2 U3 U4 U5 U6 U7 Ehs0 Hb0 Hdc Hdm Hle Hpa. subst hs0.
  destruct (cards_prefix_static _ _ _ _ _ Hpre) as [Sdc Sdm]. cbn [hbase] in Sdc, Sdm. rewrite Hdc in Sdc. rewrite Hdm in Sdm.
  rewrite Sdc, Sdm, E2 in Hc.
  change (if seat_beq p (partner d) then d else p) with (speaker p d) in Hc.
  subst p.
  destruct (play_by hs c (pactive (hbase hs))) as [hsx o] eqn:Hpb. cbn [snd] in Hok. subst o.
  replace 52 with (j + S (51 - j)) by lia.
  eapply (play_upto kk d b0 (b_deal bd) _ j (51 - j) hs said hsx m c r _ North K _ _ _ _ _ _ _ _ _ _ _ _ _ _ _ _ _ _ _
            Hb0 Hdc Hdm Hle Hpa _ Hpre Hc Hpb Hbad).
  intros st HR. exists recs. split; [apply raised_log; exact HR|exact Hrecs].
  Unshelve.
  intros q. repeat split; try reflexivity; destruct q; cbn; first [apply Hs0 | apply Hs1 | apply Hs2 | apply Hs3].
Qed.

Theorem abort_in_play_unparseable : forall boards ns ew scripts a bd j,
  no_quote ns -> no_quote ew ->
  (forall p, length (scripts p) = length boards) ->
  nth_error boards a = Some bd ->
  forallb (fun '(i, b) => conform_board b (fun p => nth_script (scripts p) i)) (combine (seq 0 a) (firstn a boards)) = true ->
  play_unparseable_at bd (fun p => nth_script (scripts p) a) j = true ->
  exists l f recs, srun l (init_state (conf_session boards ns ew scripts)) = Some f /\
    aborted_with recs f /\ map Some recs = recs_from (NM ns ew) scripts 0 (firstn a boards).
Proof.
  intros boards ns ew scripts a bd j Hns Hew Hlen Hnth HC Hfault.
  unfold play_unparseable_at in Hfault. apply andb_true_iff in Hfault. destruct Hfault as [Hj Hfault]. apply Nat.ltb_lt in Hj.
  destruct (next_card bd _ j) as [[[[hs p] m] c]|] eqn:Hnc; [|discriminate].
  destruct (snd (play_by hs c p)) eqn:Hok; [|discriminate].
  destruct (parse_card m p) as [c'|] eqn:Hpc; [discriminate|].
  exact (abort_in_play_gen boards ns ew scripts a bd j hs p m c Hns Hew Hlen Hnth HC Hj Hnc Hok (or_introl Hpc)).
Qed.

Theorem abort_in_play_refused : forall boards ns ew scripts a bd j,
  no_quote ns -> no_quote ew ->
  (forall p, length (scripts p) = length boards) ->
  nth_error boards a = Some bd ->
  forallb (fun '(i, b) => conform_board b (fun p => nth_script (scripts p) i)) (combine (seq 0 a) (firstn a boards)) = true ->
  play_refused_at bd (fun p => nth_script (scripts p) a) j = true ->
  exists l f recs, srun l (init_state (conf_session boards ns ew scripts)) = Some f /\
    aborted_with recs f /\ map Some recs = recs_from (NM ns ew) scripts 0 (firstn a boards).
Proof.
  intros boards ns ew scripts a bd j Hns Hew Hlen Hnth HC Hfault.
  unfold play_refused_at in Hfault. apply andb_true_iff in Hfault. destruct Hfault as [Hj Hfault]. apply Nat.ltb_lt in Hj.
  destruct (next_card bd _ j) as [[[[hs p] m] c]|] eqn:Hnc; [|discriminate].
  destruct (snd (play_by hs c p)) eqn:Hok; [|discriminate].
  destruct (parse_card m p) as [c'|] eqn:Hpc; [|discriminate].
  destruct (play_by hs c' p) as [hs' o] eqn:Hpb'. cbn [snd] in Hfault. destruct o; [discriminate|].
  apply (abort_in_play_gen boards ns ew scripts a bd j hs p m c Hns Hew Hlen Hnth HC Hj Hnc Hok).
  right. exists c', hs'. split; assumption.
Qed.


(* ===================================================================== part G: the operator interrupts the table manager *)
(* the same for a main thread that has ended in either way *)
Theorem ended_in_every_schedule : forall x l f,
  srun l (init_state x) = Some f -> main_ended f ->
  forall l' s', srun l' (init_state x) = Some s' -> main_ended s' \/ sfinal s' ->
    nth_error (procs msg s') 0 = nth_error (procs msg f) 0 /\ log_events (nconn x) s' = log_events (nconn x) f.
Proof.
  intros x l f Hrun Hfail l' s' Hrun' Hend.
  destruct (join_runs x l' l _ f s' (session_wf x) Hrun Hrun') as (m & m' & j & Hm & Hm').
  pose proof (LI_run _ _ _ _ (LI_init x) Hrun) as If.
  pose proof (LI_run _ _ _ _ (LI_init x) Hrun') as Is'.
  destruct (ended_run _ m f j If Hfail Hm) as [Ej1 Ej2].
  destruct Hend as [ME|FIN].
  - destruct (ended_run _ m' s' j Is' ME Hm') as [Es1 Es2].
    split; [rewrite <- Es1, Ej1; reflexivity|rewrite <- Es2, Ej2; reflexivity].
  - destruct m' as [|t m']; [|rewrite srun_cons, (FIN t) in Hm'; discriminate Hm'].
    injection Hm' as ->. split; [exact Ej1|exact Ej2].
Qed.

Section Interrupt.
  Variable n : nat.
  (* [si] is [s] with the process of the main thread wrapped by interrupt_at *)
  Definition wrapped (o : bool) (k : nat) (s si : Kahn.st msg) : Prop :=
    exists M rest, procs msg s = M :: rest /\
      si = Kahn.mk msg (interrupt_at n o k M :: rest) (chans msg s) (cells msg s) (barr msg s).

  Ltac split_step H :=
    repeat match type of H with
           | match ?x with _ => _ end = Some _ => destruct x eqn:?; try discriminate H
           | (if ?x then _ else _) = Some _ => destruct x eqn:?; try discriminate H
           end.

  (* the wrapped network follows the plain one step by step until the interrupt is delivered *)
  Lemma wrapped_step o k s si t s' : wrapped o k s si -> Kahn.step msg PARTIES t s = Some s' ->
    (exists o' k' si', Kahn.step msg PARTIES t si = Some si' /\ wrapped o' k' s' si') \/
    (chans msg si = chans msg s /\ nth_error (procs msg si) 0 = Some (Put (ch_log n) (MLog LClose) Fail)).
  Proof.
    intros (M & rest & Hps & ->) Hst. destruct s as [ps chs ce ba]. cbn [procs chans cells barr] in *. subst ps.
    unfold Kahn.step in *. cbn [procs chans cells barr] in *.
    destruct t as [|t]; cbn [nth_error] in *.
    - destruct M; try discriminate Hst; cbn [interrupt_at].
      + destruct o; [destruct k as [|k]|].
        * right. split; reflexivity.
        * left. split_step Hst. injection Hst as <-. exists true, k. eexists. split; [reflexivity|].
          eexists _, rest. split; reflexivity.
        * left. split_step Hst. injection Hst as <-. exists false, k. eexists. split; [reflexivity|].
          eexists _, rest. split; reflexivity.
      + left. split_step Hst. injection Hst as <-. eexists _, k. eexists. split; [reflexivity|].
        eexists _, rest. split; reflexivity.
      + left. split_step Hst. injection Hst as <-. exists o, k. eexists. split; [reflexivity|].
        eexists _, rest. split; reflexivity.
      + left. split_step Hst. injection Hst as <-. exists o, k. eexists. split; [reflexivity|].
        eexists _, rest. split; reflexivity.
      + left. split_step Hst. injection Hst as <-. exists o, k. eexists. split; [reflexivity|].
        eexists _, rest. split; reflexivity.
      + left. split_step Hst. injection Hst as <-. exists o, k. eexists. split; [reflexivity|].
        eexists _, rest. split; reflexivity.
      + left. injection Hst as <-. exists o, k. eexists. split; [reflexivity|].
        eexists _, rest. split; reflexivity.
    - left. destruct (nth_error rest t) as [p|] eqn:Ep; [|discriminate Hst].
      destruct p; try discriminate Hst; split_step Hst; injection Hst as <-; exists o, k; eexists; (split; [reflexivity|]);
        eexists M, _; split; reflexivity.
  Qed.

  Lemma wrapped_run : forall l s si o k f, wrapped o k s si -> srun l s = Some f ->
    (exists o' k' li si', srun li si = Some si' /\ wrapped o' k' f si') \/
    (exists l1 l2 smid li si', srun l1 s = Some smid /\ srun l2 smid = Some f /\ srun li si = Some si' /\
        chans msg si' = chans msg smid /\ nth_error (procs msg si') 0 = Some (Put (ch_log n) (MLog LClose) Fail)).
  Proof.
    induction l as [|t l IH]; intros s si o k f W Hrun.
    - injection Hrun as <-. left. exists o, k, [], si. split; [reflexivity|exact W].
    - rewrite srun_cons in Hrun. destruct (Kahn.step msg PARTIES t s) as [s1|] eqn:E; [|discriminate Hrun].
      destruct (wrapped_step o k s si t s1 W E) as [(o' & k' & si1 & Hst & W1)|[Hch Hmain]].
      + destruct (IH s1 si1 o' k' f W1 Hrun) as [(o2 & k2 & li & si' & Hli & W2)|(l1 & l2 & smid & li & si' & H1 & H2 & H3 & H4 & H5)].
        * left. exists o2, k2, (t :: li), si'. split; [rewrite srun_cons, Hst; exact Hli|exact W2].
        * right. exists (t :: l1), l2, smid, (t :: li), si'.
          split; [rewrite srun_cons, E; exact H1|]. split; [exact H2|]. split; [rewrite srun_cons, Hst; exact H3|]. split; assumption.
      + right. exists [], (t :: l), s, [], si. split; [reflexivity|]. split; [rewrite srun_cons, E; exact Hrun|].
        split; [reflexivity|]. split; assumption.
  Qed.
End Interrupt.

Lemma step_chans_len t s s' : Kahn.step msg PARTIES t s = Some s' -> length (chans msg s') = length (chans msg s).
Proof.
  intros H. unfold Kahn.step in H.
  destruct (nth_error (procs msg s) t) as [p|]; [|discriminate H].
  destruct p; try discriminate H;
    repeat match type of H with
           | match ?x with _ => _ end = Some _ => destruct x eqn:?; try discriminate H
           | (if ?x then _ else _) = Some _ => destruct x eqn:?; try discriminate H
           end; injection H as <-; cbn [chans]; rewrite ?upd_length; reflexivity.
Qed.
Lemma run_chans_len : forall l s s', srun l s = Some s' -> length (chans msg s') = length (chans msg s).
Proof.
  induction l as [|t l IH]; intros s s' H.
  - injection H as <-. reflexivity.
  - rewrite srun_cons in H. destruct (Kahn.step msg PARTIES t s) as [s1|] eqn:E; [|discriminate H].
    rewrite (IH s1 s' H). exact (step_chans_len t s s1 E).
Qed.

(* the output file only grows *)
Lemma log_grows_step n t s s' : LI n s -> Kahn.step msg PARTIES t s = Some s' -> exists y, log_events n s' = log_events n s ++ y.
Proof.
  intros (W & Len & _) H.
  destruct (step_cases _ _ _ H) as (p & p' & ev & Ep & Eprocs & T & F).
  destruct W as [W _]. pose proof (W _ _ Ep) as Wp.
  destruct T; cbn [eff] in F.
  1-5: (exists []; rewrite app_nil_r; apply log_events_same; apply F).
  - exists []. rewrite app_nil_r. apply log_events_same. destruct F as [_ F]. apply F.
    intros <-. assert (Hrd : reader_of n (ch_log n) = t) by (inversion Wp; assumption). rewrite rd_log in Hrd.
    assert (N : nth_error (procs msg s) t <> None) by congruence. apply nth_error_Some in N. lia.
  - destruct (Nat.eq_dec c (ch_log n)) as [->|Hne].
    + destruct F as [F _]. eexists. apply log_events_app. exact F.
    + exists []. rewrite app_nil_r. apply log_events_same. destruct F as [_ F]. apply F. congruence.
Qed.
Lemma log_grows_run n : forall l s s', LI n s -> srun l s = Some s' -> exists y, log_events n s' = log_events n s ++ y.
Proof.
  induction l as [|t l IH]; intros s s' I H.
  - injection H as <-. exists []. rewrite app_nil_r. reflexivity.
  - rewrite srun_cons in H. destruct (Kahn.step msg PARTIES t s) as [s1|] eqn:E; [|discriminate H].
    destruct (log_grows_step n t s s1 I E) as (y1 & H1).
    destruct (IH s1 s' (LI_step n t s s1 I E) H) as (y2 & H2).
    exists (y1 ++ y2). rewrite H2, H1, app_assoc. reflexivity.
Qed.

Lemma recs_prefix : forall r' r Y, map LRec r' ++ Y = map LRec r ++ [LClose] -> exists cnt, r' = firstn cnt r.
Proof.
  induction r' as [|x r' IH]; intros r Y H.
  - exists 0. reflexivity.
  - destruct r as [|y r]; cbn [map app] in H; [discriminate H|].
    injection H as -> H. destruct (IH r Y H) as (cnt & ->). exists (S cnt). reflexivity.
Qed.

(* any session, interrupted by the operator at the k-th queue read of the main thread after the log has been opened *)
Definition with_interrupt (x : session) (k : nat) : session :=
  mkSession (s_boards x) (s_arrivals x) (s_scripts x) (Some k).

(* if the main thread of the plain session ends (in either way) with the records recs in the file, then the main thread of the
   interrupted session ends with a prefix of recs in the file: either the interrupt is never delivered (all of recs), or the
   main thread closes the log when it is delivered, and raises *)
Theorem interrupt_generic : forall x k l0 f0 recs,
  s_interrupt x = None -> srun l0 (init_state x) = Some f0 -> main_ended f0 ->
  log_events (nconn x) f0 = LOpen :: map LRec recs ++ [LClose] ->
  exists l f cnt, srun l (init_state (with_interrupt x k)) = Some f /\ main_ended f /\
    log_events (nconn x) f = LOpen :: map LRec (firstn cnt recs) ++ [LClose].
Proof.
  intros x k l0 f0 recs Hnone Hr0 Hd0 Hlog0.
  set (n := nconn x) in *. set (xi := with_interrupt x k).
  assert (W0 : wrapped n false k (init_state x) (init_state xi)).
  { unfold init_state, xi, with_interrupt. cbn [s_interrupt s_boards s_arrivals s_scripts]. rewrite Hnone.
    change (nconn (mkSession (s_boards x) (s_arrivals x) (s_scripts x) (Some k))) with n. fold n.
    eexists _, _. split; reflexivity. }
  destruct (wrapped_run n l0 _ _ false k f0 W0 Hr0)
    as [(o' & k' & li & si' & Hli & (M & rest & Hps & ->))|(l1 & l2 & smid & li & si' & H1 & H2 & H3 & H4 & H5)].
  - (* the main thread ends before the interrupt is delivered *)
    assert (HM : interrupt_at n o' k' M = M).
    { unfold main_ended in Hd0. rewrite Hps in Hd0. cbn [nth_error] in Hd0.
      destruct Hd0 as [Hd0|Hd0]; injection Hd0 as ->; reflexivity. }
    rewrite HM in Hli.
    exists li; eexists; exists (length recs). split; [exact Hli|]. split.
    + unfold main_ended in *. cbn [procs]. rewrite Hps in Hd0. exact Hd0.
    + rewrite firstn_all. exact Hlog0.
  - (* the interrupt is delivered: the main thread closes the log and raises *)
    assert (Hlen : length (chans msg si') = 6 * n + 2).
    { rewrite H4, (run_chans_len l1 _ smid H1). unfold init_state. cbn [chans]. apply repeat_length. }
    destruct (nth_error (chans msg si') (ch_log n)) as [q|] eqn:Eq.
    2:{ apply nth_error_None in Eq. rewrite Hlen in Eq. unfold ch_log in Eq. lia. }
    destruct si' as [ps chs ce ba]. cbn [procs chans] in *.
    set (fin := Kahn.mk msg (upd ps 0 Fail) (upd chs (ch_log n) (q ++ [MLog LClose])) ce ba).
    assert (Hst : Kahn.step msg PARTIES 0 (Kahn.mk msg ps chs ce ba) = Some fin).
    { unfold Kahn.step. cbn [procs chans cells barr]. rewrite H5, Eq. reflexivity. }
    assert (Hrun : srun (li ++ [0]) (init_state xi) = Some fin).
    { unfold srun in *. rewrite run_app, H3. cbn [Kahn.run]. rewrite Hst. reflexivity. }
    assert (Hfail : nth_error (procs msg fin) 0 = Some Fail).
    { unfold fin. cbn [procs]. destruct ps; [discriminate H5|reflexivity]. }
    assert (Hq : q = chan smid (ch_log n)).
    { unfold chan. rewrite <- H4. symmetry. apply nth_error_nth. exact Eq. }
    assert (Hlogfin : log_events n fin = log_events n smid ++ [LClose]).
    { apply (log_events_app n smid fin (MLog LClose)). unfold fin, chan. cbn [chans].
      rewrite (nth_upd_same' _ _ _ _ _ Eq). rewrite Hq. reflexivity. }
    destruct (log_complete_when_main_ends xi _ fin Hrun (or_intror Hfail)) as [Hnil|(recs' & Hrecs')].
    { change (nconn xi) with n in Hnil. rewrite Hlogfin in Hnil. destruct (log_events n smid); discriminate Hnil. }
    change (nconn xi) with n in Hrecs'.
    pose proof (LI_run _ _ _ _ (LI_init x) H1) as Imid. fold n in Imid.
    destruct (log_grows_run n l2 smid f0 Imid H2) as (Y & HY).
    assert (Hmid : log_events n smid = LOpen :: map LRec recs').
    { rewrite Hlogfin in Hrecs'. rewrite app_comm_cons in Hrecs'. apply app_inj_tail in Hrecs'. exact (proj1 Hrecs'). }
    rewrite Hlog0, Hmid in HY. cbn [app] in HY. injection HY as HY. symmetry in HY.
    destruct (recs_prefix recs' recs Y HY) as (cnt & Hcnt).
    exists (li ++ [0]), fin, cnt. split; [exact Hrun|]. split; [right; exact Hfail|]. rewrite <- Hcnt. exact Hrecs'.
Qed.

(* the conforming session of Model/Conform.v, interrupted *)
Definition conf_session_interrupted (boards : list board) (ns ew : string) (scripts : seat -> list cscript) (k : nat) : session :=
  mkSession boards
    [mkArr North ns 18; mkArr East ew 18; mkArr South ns 18; mkArr West ew 18]
    [scripts North; scripts East; scripts South; scripts West] (Some k).

Theorem interrupted_session_log : forall boards ns ew scripts k,
  boards <> [] -> no_quote ns -> no_quote ew -> conforming boards scripts = true ->
  exists l f recs cnt, srun l (init_state (conf_session_interrupted boards ns ew scripts k)) = Some f /\
    main_ended f /\ log_events 4 f = LOpen :: map LRec recs ++ [LClose] /\
    map Some recs = firstn cnt (recs_from (NM ns ew) scripts 0 boards).
Proof.
  intros boards ns ew scripts k Hne Hns Hew Hconf.
  destruct (conforming_session_recs boards ns ew scripts Hne Hns Hew Hconf) as (l0 & f0 & Hr0 & Hd0 & recs & Hlog0 & Hrecs).
  assert (ME : main_ended f0).
  { destruct (LI_run _ _ _ _ (LI_init (conf_session boards ns ew scripts)) Hr0) as (_ & Len & _).
    left. unfold Kahn.all_doneb in Hd0. destruct (procs msg f0) as [|M rest]; [cbn [length] in Len; lia|].
    cbn [forallb] in Hd0. apply andb_true_iff in Hd0. destruct Hd0 as [Hd0 _]. destruct M; try discriminate Hd0. reflexivity. }
  destruct (interrupt_generic (conf_session boards ns ew scripts) k l0 f0 recs eq_refl Hr0 ME Hlog0) as (l & f & cnt & Hrun & Hend & Hlog).
  exists l, f, (firstn cnt recs), cnt. split; [exact Hrun|]. split; [exact Hend|]. split; [exact Hlog|].
  rewrite <- firstn_map, Hrecs. reflexivity.
Qed.

Corollary interrupted_session_every_schedule : forall boards ns ew scripts k,
  boards <> [] -> no_quote ns -> no_quote ew -> conforming boards scripts = true ->
  exists recs cnt, map Some recs = firstn cnt (recs_from (NM ns ew) scripts 0 boards) /\
    forall l' s', srun l' (init_state (conf_session_interrupted boards ns ew scripts k)) = Some s' -> main_ended s' \/ sfinal s' ->
      main_ended s' /\ log_events 4 s' = LOpen :: map LRec recs ++ [LClose].
Proof.
  intros boards ns ew scripts k Hne Hns Hew Hconf.
  destruct (interrupted_session_log boards ns ew scripts k Hne Hns Hew Hconf) as (l & f & recs & cnt & Hrun & Hend & Hlog & Hrecs).
  exists recs, cnt. split; [exact Hrecs|]. intros l' s' Hrun' Hend'.
  destruct (ended_in_every_schedule _ l f Hrun Hend l' s' Hrun' Hend') as [E1 E2].
  split; [unfold main_ended in *; rewrite E1; exact Hend|].
  change (nconn (conf_session_interrupted boards ns ew scripts k)) with 4 in E2. rewrite E2. exact Hlog.
Qed.


(* ===================================================================== part H: every schedule; the file parses *)
(* from ONE schedule that makes the main thread raise with the records recs in the file, to EVERY schedule: in every reachable
   state in which the main thread has ended, and in every state in which no thread can move, the main thread has raised
   and the file holds exactly those records *)
Theorem abort_log_every_schedule : forall x l f recs,
  nconn x = 4 -> srun l (init_state x) = Some f -> aborted_with recs f ->
  forall l' s', srun l' (init_state x) = Some s' -> main_ended s' \/ sfinal s' -> aborted_with recs s'.
Proof.
  intros x l f recs Hn Hrun [Hfail Hlog] l' s' Hrun' Hend.
  destruct (raised_in_every_schedule x l f Hrun Hfail l' s' Hrun' Hend) as [H1 H2].
  rewrite Hn in H2. split; [exact H1|rewrite H2; exact Hlog].
Qed.

Lemma map_LRec_inj : forall r1 r2, map LRec r1 ++ [LClose] = map LRec r2 ++ [LClose] -> r1 = r2.
Proof.
  induction r1 as [|x r1 IH]; intros [|y r2] H; cbn [map app] in H; try reflexivity.
  - destruct r2; discriminate H.
  - destruct r1; discriminate H.
  - injection H as -> H. f_equal. apply IH. exact H.
Qed.

(* ... and the content of the file parses to exactly those records (Proofs/C13Cor.v) *)
Theorem aborted_file_parses : forall x l s recs,
  nconn x = 4 -> srun l (init_state x) = Some s -> aborted_with recs s ->
  exists ts, written_tokens json_framing tag_logs (map record_json recs) = Some ts /\
             parse_doc ts = Some (JObj [(tag_logs, JArr (map record_json recs))]).
Proof.
  intros x l s recs Hn Hrun [Hfail Hlog].
  destruct (aborted_log_parses x l s Hrun (or_intror Hfail)) as (recs' & ts & H1 & H2 & H3).
  { rewrite Hn, Hlog. discriminate. }
  rewrite Hn, Hlog in H1. injection H1 as H1. apply map_LRec_inj in H1. subst recs'.
  exists ts. split; assumption.
Qed.

(* the three together, for any of the faults: what a theorem of the form "some schedule ..." gives for every schedule *)
Theorem abort_every_schedule_parses : forall boards ns ew scripts pre,
  (exists l f recs, srun l (init_state (conf_session boards ns ew scripts)) = Some f /\
     aborted_with recs f /\ map Some recs = recs_from (NM ns ew) scripts 0 pre) ->
  exists recs, map Some recs = recs_from (NM ns ew) scripts 0 pre /\
    forall l' s', srun l' (init_state (conf_session boards ns ew scripts)) = Some s' -> main_ended s' \/ sfinal s' ->
      nth_error (procs msg s') 0 = Some Fail /\
      log_events 4 s' = LOpen :: map LRec recs ++ [LClose] /\
      exists ts, written_tokens json_framing tag_logs (map record_json recs) = Some ts /\
                 parse_doc ts = Some (JObj [(tag_logs, JArr (map record_json recs))]).
Proof.
  intros boards ns ew scripts pre (l & f & recs & Hrun & Hab & Hrecs).
  exists recs. split; [exact Hrecs|]. intros l' s' Hrun' Hend.
  pose proof (abort_log_every_schedule (conf_session boards ns ew scripts) l f recs eq_refl Hrun Hab l' s' Hrun' Hend) as Hab'.
  destruct (aborted_file_parses (conf_session boards ns ew scripts) l' s' recs eq_refl Hrun' Hab') as (ts & H1 & H2).
  destruct Hab' as [Hf Hl]. split; [exact Hf|]. split; [exact Hl|]. exists ts. split; assumption.
Qed.

Corollary abort_in_auction_unparseable_every_schedule : forall boards ns ew scripts a bd j,
  no_quote ns -> no_quote ew ->
  (forall p, length (scripts p) = length boards) ->
  nth_error boards a = Some bd ->
  forallb (fun '(i, b) => conform_board b (fun p => nth_script (scripts p) i)) (combine (seq 0 a) (firstn a boards)) = true ->
  auction_unparseable_at bd (fun p => nth_script (scripts p) a) j = true ->
  exists recs, map Some recs = recs_from (NM ns ew) scripts 0 (firstn a boards) /\
    forall l' s', srun l' (init_state (conf_session boards ns ew scripts)) = Some s' -> main_ended s' \/ sfinal s' ->
      nth_error (procs msg s') 0 = Some Fail /\
      log_events 4 s' = LOpen :: map LRec recs ++ [LClose] /\
      exists ts, written_tokens json_framing tag_logs (map record_json recs) = Some ts /\
                 parse_doc ts = Some (JObj [(tag_logs, JArr (map record_json recs))]).
Proof.
  intros boards ns ew scripts a bd j Hns Hew Hlen Hnth HC Hfault.
  apply abort_every_schedule_parses. exact (abort_in_auction_unparseable boards ns ew scripts a bd j Hns Hew Hlen Hnth HC Hfault).
Qed.

Corollary abort_in_auction_illegal_every_schedule : forall boards ns ew scripts a bd j,
  no_quote ns -> no_quote ew ->
  (forall p, length (scripts p) = length boards) ->
  nth_error boards a = Some bd ->
  forallb (fun '(i, b) => conform_board b (fun p => nth_script (scripts p) i)) (combine (seq 0 a) (firstn a boards)) = true ->
  auction_illegal_at bd (fun p => nth_script (scripts p) a) j = true ->
  exists recs, map Some recs = recs_from (NM ns ew) scripts 0 (firstn a boards) /\
    forall l' s', srun l' (init_state (conf_session boards ns ew scripts)) = Some s' -> main_ended s' \/ sfinal s' ->
      nth_error (procs msg s') 0 = Some Fail /\
      log_events 4 s' = LOpen :: map LRec recs ++ [LClose] /\
      exists ts, written_tokens json_framing tag_logs (map record_json recs) = Some ts /\
                 parse_doc ts = Some (JObj [(tag_logs, JArr (map record_json recs))]).
Proof.
  intros boards ns ew scripts a bd j Hns Hew Hlen Hnth HC Hfault.
  apply abort_every_schedule_parses. exact (abort_in_auction_illegal boards ns ew scripts a bd j Hns Hew Hlen Hnth HC Hfault).
Qed.

Corollary abort_in_play_unparseable_every_schedule : forall boards ns ew scripts a bd j,
  no_quote ns -> no_quote ew ->
  (forall p, length (scripts p) = length boards) ->
  nth_error boards a = Some bd ->
  forallb (fun '(i, b) => conform_board b (fun p => nth_script (scripts p) i)) (combine (seq 0 a) (firstn a boards)) = true ->
  play_unparseable_at bd (fun p => nth_script (scripts p) a) j = true ->
  exists recs, map Some recs = recs_from (NM ns ew) scripts 0 (firstn a boards) /\
    forall l' s', srun l' (init_state (conf_session boards ns ew scripts)) = Some s' -> main_ended s' \/ sfinal s' ->
      nth_error (procs msg s') 0 = Some Fail /\
      log_events 4 s' = LOpen :: map LRec recs ++ [LClose] /\
      exists ts, written_tokens json_framing tag_logs (map record_json recs) = Some ts /\
                 parse_doc ts = Some (JObj [(tag_logs, JArr (map record_json recs))]).
Proof.
  intros boards ns ew scripts a bd j Hns Hew Hlen Hnth HC Hfault.
  apply abort_every_schedule_parses. exact (abort_in_play_unparseable boards ns ew scripts a bd j Hns Hew Hlen Hnth HC Hfault).
Qed.

Corollary abort_in_play_refused_every_schedule : forall boards ns ew scripts a bd j,
  no_quote ns -> no_quote ew ->
  (forall p, length (scripts p) = length boards) ->
  nth_error boards a = Some bd ->
  forallb (fun '(i, b) => conform_board b (fun p => nth_script (scripts p) i)) (combine (seq 0 a) (firstn a boards)) = true ->
  play_refused_at bd (fun p => nth_script (scripts p) a) j = true ->
  exists recs, map Some recs = recs_from (NM ns ew) scripts 0 (firstn a boards) /\
    forall l' s', srun l' (init_state (conf_session boards ns ew scripts)) = Some s' -> main_ended s' \/ sfinal s' ->
      nth_error (procs msg s') 0 = Some Fail /\
      log_events 4 s' = LOpen :: map LRec recs ++ [LClose] /\
      exists ts, written_tokens json_framing tag_logs (map record_json recs) = Some ts /\
                 parse_doc ts = Some (JObj [(tag_logs, JArr (map record_json recs))]).
Proof.
  intros boards ns ew scripts a bd j Hns Hew Hlen Hnth HC Hfault.
  apply abort_every_schedule_parses. exact (abort_in_play_refused boards ns ew scripts a bd j Hns Hew Hlen Hnth HC Hfault).
Qed.

(* the interrupted session: whatever the main thread had logged when the interrupt came is what the file parses to *)
Corollary interrupted_session_file_parses : forall boards ns ew scripts k,
  boards <> [] -> no_quote ns -> no_quote ew -> conforming boards scripts = true ->
  exists recs cnt, map Some recs = firstn cnt (recs_from (NM ns ew) scripts 0 boards) /\
    forall l' s', srun l' (init_state (conf_session_interrupted boards ns ew scripts k)) = Some s' -> main_ended s' \/ sfinal s' ->
      main_ended s' /\ log_events 4 s' = LOpen :: map LRec recs ++ [LClose] /\
      exists ts, written_tokens json_framing tag_logs (map record_json recs) = Some ts /\
                 parse_doc ts = Some (JObj [(tag_logs, JArr (map record_json recs))]).
Proof.
  intros boards ns ew scripts k Hne Hns Hew Hconf.
  destruct (interrupted_session_every_schedule boards ns ew scripts k Hne Hns Hew Hconf) as (recs & cnt & Hrecs & Hall).
  exists recs, cnt. split; [exact Hrecs|]. intros l' s' Hrun' Hend'.
  destruct (Hall l' s' Hrun' Hend') as [ME Hlog]. split; [exact ME|]. split; [exact Hlog|].
  destruct (aborted_log_parses _ l' s' Hrun' ME) as (recs' & ts & H1 & H2 & H3).
  { change (nconn (conf_session_interrupted boards ns ew scripts k)) with 4. rewrite Hlog. discriminate. }
  change (nconn (conf_session_interrupted boards ns ew scripts k)) with 4 in H1.
  rewrite Hlog in H1. injection H1 as H1. apply map_LRec_inj in H1. subst recs'.
  exists ts. split; assumption.
Qed.

(* ===================================================================== non-vacuity *)
Module AbortExample.
  Definition dl : deal := fun p => map cn (seq (13 * seat_idx p) 13).
  Definition boards : list board := [mkBoard "1" North VNone dl None; mkBoard "2" East VNS dl None].
  Definition scripts (p : seat) : list cscript :=
    [mkScript [pcall p] [];
     mkScript [if seat_beq p East then ("East says hello", Pass) else pcall p] []].
  Definition scripts_ill (p : seat) : list cscript :=
    [mkScript [pcall p] [];
     mkScript [if seat_beq p East then ("East bids 1C", Bid L1 (Tr Cl)) else if seat_beq p South then ("South bids 1C", Bid L1 (Tr Cl)) else pcall p] []].

  Example hyp_names : no_quote "NS" /\ no_quote "EW".
  Proof. split; reflexivity. Qed.
  Example hyp_lengths : forall p, length (scripts p) = length boards.
  Proof. intros []; reflexivity. Qed.
  Example hyp_board : nth_error boards 1 = Some (mkBoard "2" East VNS dl None).
  Proof. reflexivity. Qed.
  Example hyp_conform :
    forallb (fun '(i, b) => conform_board b (fun p => nth_script (scripts p) i)) (combine (seq 0 1) (firstn 1 boards)) = true.
  Proof. vm_compute. reflexivity. Qed.
  Example hyp_fault : auction_unparseable_at (mkBoard "2" East VNS dl None) (fun p => nth_script (scripts p) 1) 0 = true.
  Proof. vm_compute. reflexivity. Qed.
  (* ... and of (2): South repeats East's 1C *)
  Example hyp_fault_illegal : auction_illegal_at (mkBoard "2" East VNS dl None) (fun p => nth_script (scripts_ill p) 1) 1 = true.
  Proof. vm_compute. reflexivity. Qed.

  Example aborts : exists l f recs, srun l (init_state (conf_session boards "NS" "EW" scripts)) = Some f /\
    aborted_with recs f /\ map Some recs = recs_from (NM "NS" "EW") scripts 0 (firstn 1 boards).
  Proof.
    exact (abort_in_auction_unparseable boards "NS" "EW" scripts 1 _ 0 (proj1 hyp_names) (proj2 hyp_names) hyp_lengths hyp_board hyp_conform hyp_fault).
  Qed.
  (* the one record in the file is the passed-out board 1 *)
  Example one_record : exists r, recs_from (NM "NS" "EW") scripts 0 (firstn 1 boards) = [Some r] /\ l_board_id r = "1" /\ l_play r = None.
  Proof. vm_compute. eexists. split; [reflexivity|split; reflexivity]. Qed.
  (* a board that is played: North opens 1C, three passes, East is on lead *)
  Definition pboard : board := mkBoard "p" North VNone dl None.
  Definition pscript (lead : string) (p : seat) : list cscript :=
    [mkScript [if seat_beq p North then ("North bids 1C", Bid L1 (Tr Cl)) else pcall p]
              (if seat_beq p East then [(lead, cn 13)] else [])].
  Example hyp_play_unparseable : play_unparseable_at pboard (fun p => nth_script (pscript "East leads low" p) 0) 0 = true.
  Proof. vm_compute. reflexivity. Qed.
  Example hyp_play_refused : play_refused_at pboard (fun p => nth_script (pscript "East plays 2C" p) 0) 0 = true.
  Proof. vm_compute. reflexivity. Qed.
  (* ... and the third card: East leads, declarer plays from dummy, West says something that is not a card *)
  Definition pscript2 (p : seat) : list cscript :=
    [mkScript [if seat_beq p North then ("North bids 1C", Bid L1 (Tr Cl)) else pcall p]
              (match p with
               | North => [(play_message South (cn 26) false, cn 26)]
               | East => [(play_message East (cn 13) true, cn 13)]
               | West => [("West plays nothing", cn 39)]
               | South => [] end)].
  Example hyp_play_third_card : play_unparseable_at pboard (fun p => nth_script (pscript2 p) 0) 2 = true.
  Proof. vm_compute. reflexivity. Qed.
End AbortExample.


(* ===================================================================== part I: summary for (i)-(iv) *)
(* no schedule can avoid the abort: from every reachable state the main thread can still be brought to raise, with that file *)
Theorem raise_stays_reachable : forall x l f,
  srun l (init_state x) = Some f -> nth_error (procs msg f) 0 = Some Fail ->
  forall l' s', srun l' (init_state x) = Some s' ->
    exists m' j, srun m' s' = Some j /\ nth_error (procs msg j) 0 = Some Fail /\ log_events (nconn x) j = log_events (nconn x) f.
Proof.
  intros x l f Hrun Hfail l' s' Hrun'.
  destruct (join_runs x l' l _ f s' (session_wf x) Hrun Hrun') as (m & m' & j & Hm & Hm').
  pose proof (LI_run _ _ _ _ (LI_init x) Hrun) as If.
  destruct (ended_run _ m f j If (or_intror Hfail) Hm) as [Ej1 Ej2].
  exists m', j. split; [exact Hm'|]. split; [rewrite Ej1; exact Hfail|exact Ej2].
Qed.

(* board a goes wrong in one of the four ways, at some call or card *)
Definition board_goes_wrong (bd : board) (sc : seat -> cscript) : Prop :=
  exists j, auction_unparseable_at bd sc j = true \/ auction_illegal_at bd sc j = true \/
            play_unparseable_at bd sc j = true \/ play_refused_at bd sc j = true.

Theorem abandoned_session_log : forall boards ns ew scripts a bd,
  no_quote ns -> no_quote ew ->
  (forall p, length (scripts p) = length boards) ->
  nth_error boards a = Some bd ->
  forallb (fun '(i, b) => conform_board b (fun p => nth_script (scripts p) i)) (combine (seq 0 a) (firstn a boards)) = true ->
  board_goes_wrong bd (fun p => nth_script (scripts p) a) ->
  exists recs, map Some recs = recs_from (NM ns ew) scripts 0 (firstn a boards) /\
    (* some schedule makes the main thread raise *)
    (exists l f, srun l (init_state (conf_session boards ns ew scripts)) = Some f /\ aborted_with recs f) /\
    (* no schedule can avoid it *)
    (forall l' s', srun l' (init_state (conf_session boards ns ew scripts)) = Some s' ->
       exists m' f, srun m' s' = Some f /\ aborted_with recs f) /\
    (* and whenever the main thread has ended, or nothing can move, it has raised and the file is complete and holds recs *)
    forall l' s', srun l' (init_state (conf_session boards ns ew scripts)) = Some s' -> main_ended s' \/ sfinal s' ->
      nth_error (procs msg s') 0 = Some Fail /\
      log_events 4 s' = LOpen :: map LRec recs ++ [LClose] /\
      exists ts, written_tokens json_framing tag_logs (map record_json recs) = Some ts /\
                 parse_doc ts = Some (JObj [(tag_logs, JArr (map record_json recs))]).
Proof.
  intros boards ns ew scripts a bd Hns Hew Hlen Hnth HC (j & Hw).
  assert (H : exists l f recs, srun l (init_state (conf_session boards ns ew scripts)) = Some f /\
                aborted_with recs f /\ map Some recs = recs_from (NM ns ew) scripts 0 (firstn a boards)).
  { destruct Hw as [Hw|[Hw|[Hw|Hw]]].
    - exact (abort_in_auction_unparseable boards ns ew scripts a bd j Hns Hew Hlen Hnth HC Hw).
    - exact (abort_in_auction_illegal boards ns ew scripts a bd j Hns Hew Hlen Hnth HC Hw).
    - exact (abort_in_play_unparseable boards ns ew scripts a bd j Hns Hew Hlen Hnth HC Hw).
    - exact (abort_in_play_refused boards ns ew scripts a bd j Hns Hew Hlen Hnth HC Hw). }
  destruct (abort_every_schedule_parses boards ns ew scripts _ H) as (recs & Hrecs & Hall).
  destruct H as (l & f & recs0 & Hrun & Hab & Hrecs0).
  assert (recs0 = recs).
  { rewrite <- Hrecs in Hrecs0. clear -Hrecs0. revert recs Hrecs0.
    induction recs0 as [|r0 recs0 IH]; intros [|r recs] H; cbn [map] in H; try discriminate; [reflexivity|].
    injection H as -> H. f_equal. apply IH. exact H. }
  subst recs0.
  exists recs. split; [exact Hrecs|]. split; [exists l, f; split; assumption|]. split; [|exact Hall].
  intros l' s' Hrun'. destruct Hab as [Hfail Hlog].
  destruct (raise_stays_reachable _ l f Hrun Hfail l' s' Hrun') as (m' & j' & Hm' & Hf' & Hl').
  exists m', j'. split; [exact Hm'|]. split; [exact Hf'|].
  change (nconn (conf_session boards ns ew scripts)) with 4 in Hl'. rewrite Hl'. exact Hlog.
Qed.


(* ===================================================================== part J: every schedule is finite *)
(* a step replaces the process of one thread by one of its children in the resumption tree; the tree is well founded, so no
   schedule of any session runs for ever, every run extends to a final state, and (Proofs/Session.v) all runs are bounded *)
Definition pchild (q p : proc) : Prop := exists ev, trans p ev q.
Lemma pchild_acc : forall p : proc, Acc pchild p.
Proof.
  induction p as [| |c k IH|c m p IH|p IH|a p IH|x v p IH|x k IH|p IH];
    constructor; intros q [ev T]; inversion T; subst; auto.
  constructor. intros q' [ev' T']. inversion T'; subst. exact IH.
Qed.

Inductive lstep : list proc -> list proc -> Prop :=
| lstep_intro l t p p' : nth_error l t = Some p -> pchild p' p -> lstep (upd l t p') l.
Lemma lstep_cons_acc : forall x, Acc pchild x -> forall l, Acc lstep l -> Acc lstep (x :: l).
Proof.
  induction 1 as [x Hx IHx]. induction 1 as [l Hl IHl].
  constructor. intros y H. inversion H as [l0 t p p' Hn Hc E1 E2]. subst l0.
  destruct t as [|t]; cbn [nth_error upd] in *.
  - injection Hn as <-. apply IHx; [exact Hc|]. constructor. exact Hl.
  - apply IHl. exact (lstep_intro l t p p' Hn Hc).
Qed.
Lemma lstep_acc : forall l, Acc lstep l.
Proof.
  induction l as [|x l IH].
  - constructor. intros y H. inversion H as [l0 t p p' Hn Hc E1 E2]. subst l0. destruct t; discriminate Hn.
  - apply lstep_cons_acc; [apply pchild_acc|exact IH].
Qed.

Definition snext (s' s : Kahn.st msg) : Prop := exists t, Kahn.step msg PARTIES t s = Some s'.
Theorem no_infinite_schedule : forall s, Acc snext s.
Proof.
  intros s. pose proof (lstep_acc (procs msg s)) as A. remember (procs msg s) as ps eqn:E. revert s E.
  induction A as [ps _ IH]. intros s E. constructor. intros s' [t H].
  destruct (step_cases _ _ _ H) as (p & p' & ev & Ep & Eprocs & T & _).
  apply (IH (procs msg s')); [|reflexivity]. rewrite Eprocs, E. constructor 1 with (p := p); [exact Ep|exists ev; exact T].
Qed.

Lemma finalb_sfinal s : Kahn.finalb msg PARTIES s = true -> sfinal s.
Proof.
  intros H t. unfold Kahn.finalb in H. rewrite forallb_forall in H.
  destruct (Nat.lt_ge_cases t (length (procs msg s))) as [L|G].
  - specialize (H t). rewrite in_seq in H. specialize (H ltac:(lia)).
    unfold Kahn.enabled in H. destruct (Kahn.step msg PARTIES t s); [discriminate|reflexivity].
  - apply nth_error_None in G. unfold Kahn.step. rewrite G. reflexivity.
Qed.

Theorem every_run_extends_to_a_final_state : forall s, exists m f, srun m s = Some f /\ sfinal f.
Proof.
  intros s. induction (no_infinite_schedule s) as [s _ IH].
  destruct (Kahn.finalb msg PARTIES s) eqn:E.
  - exists [], s. split; [reflexivity|apply finalb_sfinal; exact E].
  - unfold Kahn.finalb in E.
    assert (X : exists t, Kahn.enabled msg PARTIES s t = true).
    { revert E. generalize (seq 0 (length (procs msg s))). intros l. induction l as [|t l IHl]; cbn [forallb]; [discriminate|].
      destruct (Kahn.enabled msg PARTIES s t) eqn:Et; [intros _; exists t; exact Et|cbn [negb andb]; exact IHl]. }
    destruct X as (t & Et). unfold Kahn.enabled in Et.
    destruct (Kahn.step msg PARTIES t s) as [s1|] eqn:Est; [|discriminate Et].
    destruct (IH s1 (ex_intro _ t Est)) as (m & f & Hm & Hf).
    exists (t :: m), f. split; [rewrite srun_cons, Est; exact Hm|exact Hf].
Qed.

(* an abandoned session: there is ONE final state, every schedule is bounded and every maximal schedule ends in it *)
Theorem abort_bounded : forall x l f recs,
  nconn x = 4 -> srun l (init_state x) = Some f -> aborted_with recs f ->
  exists fin bound, sfinal fin /\ aborted_with recs fin /\
    forall l' s', srun l' (init_state x) = Some s' -> length l' <= bound /\ (sfinal s' -> s' = fin).
Proof.
  intros x l f recs Hn Hrun Hab.
  destruct (every_run_extends_to_a_final_state f) as (m & fin & Hm & Hfin).
  assert (Hrun' : srun (l ++ m) (init_state x) = Some fin).
  { unfold srun in *. rewrite run_app, Hrun. exact Hm. }
  exists fin, (length (l ++ m)). split; [exact Hfin|]. split.
  - exact (abort_log_every_schedule x l f recs Hn Hrun Hab (l ++ m) fin Hrun' (or_intror Hfin)).
  - intros l' s' Hr'. split.
    + exact (session_no_run_is_longer x (l ++ m) fin l' s' Hrun' Hfin Hr').
    + intros Hs'. exact (proj1 (session_maximal_runs_agree x (l ++ m) fin l' s' Hrun' Hfin Hr' Hs')).
Qed.

Corollary abandoned_session_bounded : forall boards ns ew scripts a bd,
  no_quote ns -> no_quote ew ->
  (forall p, length (scripts p) = length boards) ->
  nth_error boards a = Some bd ->
  forallb (fun '(i, b) => conform_board b (fun p => nth_script (scripts p) i)) (combine (seq 0 a) (firstn a boards)) = true ->
  board_goes_wrong bd (fun p => nth_script (scripts p) a) ->
  exists recs fin bound, map Some recs = recs_from (NM ns ew) scripts 0 (firstn a boards) /\
    sfinal fin /\ aborted_with recs fin /\
    forall l' s', srun l' (init_state (conf_session boards ns ew scripts)) = Some s' -> length l' <= bound /\ (sfinal s' -> s' = fin).
Proof.
  intros boards ns ew scripts a bd Hns Hew Hlen Hnth HC Hw.
  destruct (abandoned_session_log boards ns ew scripts a bd Hns Hew Hlen Hnth HC Hw) as (recs & Hrecs & (l & f & Hrun & Hab) & _).
  destruct (abort_bounded (conf_session boards ns ew scripts) l f recs eq_refl Hrun Hab) as (fin & bound & H1 & H2 & H3).
  exists recs, fin, bound. auto.
Qed.

(* the same for the interrupted session *)
Corollary interrupted_session_bounded : forall boards ns ew scripts k,
  boards <> [] -> no_quote ns -> no_quote ew -> conforming boards scripts = true ->
  exists recs cnt fin bound, map Some recs = firstn cnt (recs_from (NM ns ew) scripts 0 boards) /\
    sfinal fin /\ main_ended fin /\ log_events 4 fin = LOpen :: map LRec recs ++ [LClose] /\
    forall l' s', srun l' (init_state (conf_session_interrupted boards ns ew scripts k)) = Some s' ->
      length l' <= bound /\ (sfinal s' -> s' = fin).
Proof.
  intros boards ns ew scripts k Hne Hns Hew Hconf.
  destruct (interrupted_session_every_schedule boards ns ew scripts k Hne Hns Hew Hconf) as (recs & cnt & Hrecs & Hall).
  set (x := conf_session_interrupted boards ns ew scripts k) in *.
  destruct (every_run_extends_to_a_final_state (init_state x)) as (m & fin & Hm & Hfin).
  destruct (Hall m fin Hm (or_intror Hfin)) as [ME Hlog].
  exists recs, cnt, fin, (length m). split; [exact Hrecs|]. split; [exact Hfin|]. split; [exact ME|]. split; [exact Hlog|].
  intros l' s' Hr'. split.
  - exact (session_no_run_is_longer x m fin l' s' Hm Hfin Hr').
  - intros Hs'. exact (proj1 (session_maximal_runs_agree x m fin l' s' Hm Hfin Hr' Hs')).
Qed.

(* the general form: whenever SOME schedule makes the main thread end, there is one final state, the main thread has ended
   there in the same way with the same file, every schedule is bounded and every maximal schedule ends there *)
Theorem ended_bounded : forall x l f,
  srun l (init_state x) = Some f -> main_ended f ->
  exists fin bound, sfinal fin /\ nth_error (procs msg fin) 0 = nth_error (procs msg f) 0 /\
    log_events (nconn x) fin = log_events (nconn x) f /\
    forall l' s', srun l' (init_state x) = Some s' -> length l' <= bound /\ (sfinal s' -> s' = fin).
Proof.
  intros x l f Hrun Hend.
  destruct (every_run_extends_to_a_final_state f) as (m & fin & Hm & Hfin).
  assert (Hrun' : srun (l ++ m) (init_state x) = Some fin).
  { unfold srun in *. rewrite run_app, Hrun. exact Hm. }
  destruct (ended_in_every_schedule x l f Hrun Hend (l ++ m) fin Hrun' (or_intror Hfin)) as [E1 E2].
  exists fin, (length (l ++ m)). split; [exact Hfin|]. split; [exact E1|]. split; [exact E2|].
  intros l' s' Hr'. split.
  - exact (session_no_run_is_longer x (l ++ m) fin l' s' Hrun' Hfin Hr').
  - intros Hs'. exact (proj1 (session_maximal_runs_agree x (l ++ m) fin l' s' Hrun' Hfin Hr' Hs')).
Qed.

(* a session that goes wrong AND is interrupted: whichever comes first, the file holds a prefix of the records of the boards
   finished before the fault *)
Corollary abandoned_session_interrupted : forall boards ns ew scripts a bd k,
  no_quote ns -> no_quote ew ->
  (forall p, length (scripts p) = length boards) ->
  nth_error boards a = Some bd ->
  forallb (fun '(i, b) => conform_board b (fun p => nth_script (scripts p) i)) (combine (seq 0 a) (firstn a boards)) = true ->
  board_goes_wrong bd (fun p => nth_script (scripts p) a) ->
  exists recs cnt fin bound, map Some recs = recs_from (NM ns ew) scripts 0 (firstn a boards) /\
    sfinal fin /\ main_ended fin /\ log_events 4 fin = LOpen :: map LRec (firstn cnt recs) ++ [LClose] /\
    forall l' s', srun l' (init_state (with_interrupt (conf_session boards ns ew scripts) k)) = Some s' ->
      length l' <= bound /\ (sfinal s' -> s' = fin).
Proof.
  intros boards ns ew scripts a bd k Hns Hew Hlen Hnth HC Hw.
  destruct (abandoned_session_log boards ns ew scripts a bd Hns Hew Hlen Hnth HC Hw) as (recs & Hrecs & (l & f & Hrun & Hfail & Hlog) & _).
  destruct (interrupt_generic (conf_session boards ns ew scripts) k l f recs eq_refl Hrun (or_intror Hfail) Hlog)
    as (li & fi & cnt & Hruni & Hendi & Hlogi).
  destruct (ended_bounded _ li fi Hruni Hendi) as (fin & bound & H1 & H2 & H3 & H4).
  exists recs, cnt, fin, bound. split; [exact Hrecs|]. split; [exact H1|]. split.
  - unfold main_ended in *. rewrite H2. exact Hendi.
  - split; [|exact H4]. change (nconn (with_interrupt (conf_session boards ns ew scripts) k)) with 4 in H3.
    rewrite H3. exact Hlogi.
Qed.

(* ===================================================================== non-vacuity, continued *)
Module AbortExampleAll.
  Import AbortExample.
  Example wrong : board_goes_wrong (mkBoard "2" East VNS dl None) (fun p => nth_script (scripts p) 1).
  Proof. exists 0. left. exact hyp_fault. Qed.
  Example every_schedule :
    exists recs fin bound, map Some recs = recs_from (NM "NS" "EW") scripts 0 (firstn 1 boards) /\
      sfinal fin /\ aborted_with recs fin /\
      forall l' s', srun l' (init_state (conf_session boards "NS" "EW" scripts)) = Some s' -> length l' <= bound /\ (sfinal s' -> s' = fin).
  Proof.
    exact (abandoned_session_bounded boards "NS" "EW" scripts 1 _ (proj1 hyp_names) (proj2 hyp_names) hyp_lengths hyp_board hyp_conform wrong).
  Qed.
  (* an interrupted session: the two boards passed out, the operator interrupts at the main thread's 30th queue read *)
  Definition pass_scripts (p : seat) : list cscript := [mkScript [pcall p] []; mkScript [pcall p] []].
  Example hyp_conforming : conforming boards pass_scripts = true.
  Proof. vm_compute. reflexivity. Qed.
  Example interrupted :
    exists recs cnt fin bound, map Some recs = firstn cnt (recs_from (NM "NS" "EW") pass_scripts 0 boards) /\
      sfinal fin /\ main_ended fin /\ log_events 4 fin = LOpen :: map LRec recs ++ [LClose] /\
      forall l' s', srun l' (init_state (conf_session_interrupted boards "NS" "EW" pass_scripts 30)) = Some s' ->
        length l' <= bound /\ (sfinal s' -> s' = fin).
  Proof.
    exact (interrupted_session_bounded boards "NS" "EW" pass_scripts 30 ltac:(discriminate) (proj1 hyp_names) (proj2 hyp_names) hyp_conforming).
  Qed.
End AbortExampleAll.

Print Assumptions raised_in_every_schedule.
Print Assumptions abort_in_auction_unparseable.
Print Assumptions abort_in_auction_illegal.
Print Assumptions abort_in_play_unparseable.
Print Assumptions abort_in_play_refused.
Print Assumptions abort_log_every_schedule.
Print Assumptions aborted_file_parses.
Print Assumptions abort_every_schedule_parses.
Print Assumptions abort_in_auction_unparseable_every_schedule.
Print Assumptions abort_in_auction_illegal_every_schedule.
Print Assumptions abort_in_play_unparseable_every_schedule.
Print Assumptions abort_in_play_refused_every_schedule.
Print Assumptions ended_in_every_schedule.
Print Assumptions interrupt_generic.
Print Assumptions interrupted_session_log.
Print Assumptions interrupted_session_every_schedule.
Print Assumptions interrupted_session_file_parses.
Print Assumptions raise_stays_reachable.
Print Assumptions abandoned_session_log.
Print Assumptions no_infinite_schedule.
Print Assumptions every_run_extends_to_a_final_state.
Print Assumptions ended_bounded.
Print Assumptions abort_bounded.
Print Assumptions abandoned_session_interrupted.
Print Assumptions abandoned_session_bounded.
Print Assumptions interrupted_session_bounded.
Print Assumptions AbortExample.aborts.
Print Assumptions AbortExampleAll.every_schedule.
Print Assumptions AbortExampleAll.interrupted.
