(* C20 "Admission seats one conforming client per seat and turns the others away": the admission phase of a table-manager session
   (Server.run's accept loop, PlayerThread._connect, the first lines of Client.run), executed symbolically in the Kahn network of
   Model/Session.v for EVERY list of connection requests - any length, any seats, any team names, any protocol versions, any order -
   and for any boards, scripts and operator interrupt.
   Theorems.
   [table_seats_first_acceptable]  the table after the accept loop is [seat_requests reqs empty_table]; when it is full every seat
       went to exactly one request, the first acceptable one for that seat in arrival order, and the connection map points at it.
   [admission_phase_any]  no hypothesis: some schedule drives the initial state to the state where main has looked at the first
       [looked_at reqs empty_table] requests and every connection is in the state given by its outcome.
   [admission_phase]  (a)-(d) of the task: the table is full, main is [k t conn] for the final table and the connection map; a request
       turned away has transcript [error line; CLOSED], thread returned, client failed; a seated one has been sent [seated_line] and
       no more, and its thread waits at the seating barrier; the requests not looked at have their connection line un-read.
       ([wf_requests] is a hypothesis as the task demands, but nothing before the team line depends on it: the connection line is
       parsed back correctly whatever the team name and the version, see [connect_roundtrip_any].)
   [seating_phase]  the same continued through the seating barrier, the table snapshot and the team line, to the point where
       SessionPassOut.startup stops (threads at [t_boards], clients waiting for "Start of board", main at [boards_loop], log opened);
       here [wf_requests] is needed (the team line is parsed back only if the names have no double quote).
   Method.  SessionPassOut.v executes 9-process states given as explicit lists; here the number of connections is n = length reqs, so
   a state is looked at pointwise: [loc n s j] is the tuple of everything that belongs to connection j (thread, client, four
   channels, two transcripts, two barrier counters), [gshape n L b s] the rest except main's process.  Processing one request is a
   fixed number of steps of main, thread i and client i ([process_turned], [process_seated]); the result is given as the new main
   process, the new [loc .. i] and the frame [others_same] (every other connection's tuple is unchanged).  Two inductions on the
   request list follow ([connect_all]: every client sends its connection line; [admission_loop]: the accept loop, with the table,
   the connection map and the index of the first remaining request as parameters).  The pure side ([outcome_of], [conn_requests],
   [looked_at], [table_before]) links the outcome of request j to the table as it was when j was looked at.
   Standard library only; closed under the global context. *)
From BE Require Import Model.Session Proofs.Kahn Proofs.Session Proofs.Wire Proofs.SessionPassOut.
From Coq Require Import Lia.
Local Open Scope string_scope.
Local Open Scope nat_scope.
Local Open Scope list_scope.
Local Infix "+++" := String.append (right associativity, at level 60).

(* ===================================================================== the lines of the admission dialogue *)
(* ---------- the connection line, for every protocol version ---------- *)
Definition not_q (a : Ascii.ascii) : bool := negb (Ascii.eqb """"%char a).
Definition not_sp (a : Ascii.ascii) : bool := negb (Ascii.eqb " "%char a).
Lemma digit_facts a : is_digit a = true ->
  lower_ascii a = a /\ not_q a = true /\ not_sp a = true /\ Ascii.eqb "u"%char a = false.
Proof. destruct a as [[] [] [] [] [] [] [] []]; intros H; try discriminate H; repeat split. Qed.
Lemma digit_lower a : is_digit a = true -> lower_ascii a = a.
Proof. intros H. exact (proj1 (digit_facts a H)). Qed.
Lemma digit_not_q a : is_digit a = true -> not_q a = true.
Proof. intros H. exact (proj1 (proj2 (digit_facts a H))). Qed.
Lemma digit_not_sp a : is_digit a = true -> not_sp a = true.
Proof. intros H. exact (proj1 (proj2 (proj2 (digit_facts a H)))). Qed.
Lemma digit_not_u a : is_digit a = true -> Ascii.eqb "u"%char a = false.
Proof. intros H. exact (proj2 (proj2 (proj2 (digit_facts a H)))). Qed.
Lemma sforall_imp (f g : Ascii.ascii -> bool) s : (forall a, f a = true -> g a = true) -> sforall f s = true -> sforall g s = true.
Proof.
  intros Hfg. induction s as [|a s IH]; [reflexivity|]. cbn [sforall]. intros H.
  apply andb_true_iff in H. destruct H as [Ha Hs]. rewrite (Hfg a Ha), (IH Hs). reflexivity.
Qed.
Lemma digits_lower s : sforall is_digit s = true -> lower s = s.
Proof.
  induction s as [|a s IH]; [reflexivity|]. cbn [sforall]. intros H.
  apply andb_true_iff in H. destruct H as [Ha Hs]. rewrite lower_cons, (digit_lower a Ha), (IH Hs). reflexivity.
Qed.
Lemma take_while_all f s : sforall f s = true -> take_while f s = s.
Proof.
  induction s as [|a s IH]; [reflexivity|]. cbn [sforall take_while]. intros H.
  apply andb_true_iff in H. destruct H as [Ha Hs]. rewrite Ha, (IH Hs). reflexivity.
Qed.

Lemma conn_tail_q p ds : sforall is_digit ds = true ->
  find_last (String """"%char " as ") (" as " +++ lower (formal_name p) +++ " using protocol version " +++ ds) = None.
Proof.
  intros Hd. apply find_last_none_chars. fold not_q.
  rewrite !sforall_app. rewrite (sforall_imp _ _ ds digit_not_q Hd). destruct p; reflexivity.
Qed.
Lemma find_last_cons_none pat a s : find_last pat s = None -> strip_prefix pat (String a s) = None -> find_last pat (String a s) = None.
Proof. intros H1 H2. cbn [find_last]. rewrite H1, H2. reflexivity. Qed.
Lemma conn_tail_v ds : sforall is_digit ds = true ->
  find_last (String " "%char "using protocol version ") ("using protocol version " +++ ds) = None.
Proof.
  intros Hd.
  assert (H0 : find_last (String " "%char "using protocol version ") ds = None).
  { apply find_last_none_chars. fold not_sp. exact (sforall_imp _ _ ds digit_not_sp Hd). }
  assert (H1 : strip_prefix (String " "%char "using protocol version ") (String " "%char ds) = None).
  { destruct ds as [|d r]; [reflexivity|]. cbn [sforall] in Hd. apply andb_true_iff in Hd. destruct Hd as [Hd _].
    cbn [strip_prefix]. change (Ascii.eqb " "%char " "%char) with true. cbv iota. rewrite (digit_not_u d Hd). reflexivity. }
  cbn [String.append].
  repeat (apply find_last_cons_none; [| first [exact H1 | reflexivity]]). exact H0.
Qed.

Lemma connect_digits team p ds : ds <> "" -> sforall is_digit ds = true ->
  parse_connection_info ("Connecting """ +++ team +++ """ as " +++ formal_name p +++ " using protocol version " +++ ds) =
  Some (team, p, nat_of_digits ds).
Proof.
  intros Hn Hd. unfold parse_connection_info. cbv zeta.
  rewrite lower_app. change (lower "Connecting """) with "connecting """. rewrite strip_prefix_app.
  rewrite !substring_drop_all; [| reflexivity | slen].
  rewrite !lower_app. change (lower """ as ") with (String """"%char " as ").
  change (lower " using protocol version ") with " using protocol version ".
  rewrite (digits_lower ds Hd).
  rewrite (find_last_marker (lower team) """"%char " as " _ (conn_tail_q p ds Hd)).
  rewrite slen_lower, substring_take.
  rewrite <- (sapp_assoc team).
  rewrite !substring_drop_all; [| slen | slen].
  rewrite !lower_app. change (lower " using protocol version ") with (String " "%char "using protocol version ").
  rewrite (digits_lower ds Hd).
  rewrite (find_last_marker (lower (formal_name p)) " "%char "using protocol version " _ (conn_tail_v ds Hd)).
  rewrite (take_while_all _ _ Hd). rewrite match_nonempty by exact Hn.
  rewrite slen_lower, substring_take.
  generalize (nat_of_digits ds). intros k. destruct p; reflexivity.
Qed.
Lemma connect_roundtrip_any : forall team p v, parse_connection_info (connect_line team p v) = Some (team, p, v).
Proof.
  intros team p v. destruct (string_of_nat_roundtrip v) as (H1 & H2 & H3). unfold connect_line.
  rewrite connect_digits by assumption. rewrite H1. reflexivity.
Qed.

(* ---------- what the two ends do with the lines of the admission dialogue ---------- *)
Lemma error_form tbl team p ver e : admission_error tbl team p ver = Some e -> exists r, e = "ERROR: " +++ r.
Proof.
  unfold admission_error. destruct (negb (ver =? 18)); [intros H; injection H as <-; eexists; reflexivity|].
  destruct (tbl p); [intros H; injection H as <-; eexists; reflexivity|].
  destruct (tbl (partner p)) as [t'|]; [|discriminate].
  destruct (negb (String.eqb t' team)); [intros H; injection H as <-; eexists; reflexivity|discriminate].
Qed.
Lemma error_not_closed r : String.eqb ("ERROR: " +++ r) CLOSED = false.
Proof. reflexivity. Qed.
Lemma error_not_seated r me team :
  String.eqb ("ERROR: " +++ r) (formal_name me +++ " " +++ team +++ " seated") ||
  String.eqb ("ERROR: " +++ r) (formal_name me +++ " (""" +++ team +++ """) seated") = false.
Proof. destruct me; reflexivity. Qed.
Lemma seated_not_closed p team : String.eqb (seated_line p team) CLOSED = false.
Proof. destruct p; reflexivity. Qed.
Lemma ready_teams_ok p : check_message (formal_name p +++ " ready for teams") (formal_name p +++ " ready for teams") = true.
Proof. destruct p; vm_compute; reflexivity. Qed.

(* ===================================================================== the statements of the task *)
Definition wf_requests (reqs : list arrival) : Prop := Forall (fun a => no_quote (a_team a)) reqs.
(* the requests that main looks at: a prefix of the list, up to and including the one that fills the table *)
Fixpoint looked_at (reqs : list arrival) (tbl : table) : nat :=
  match reqs with
  | [] => 0
  | a :: r => if all_seated tbl then 0
              else S (looked_at r (match admission_error tbl (a_team a) (a_seat a) (a_version a) with
                                   | Some _ => tbl | None => tset tbl (a_seat a) (a_team a) end)) end.

(* ===================================================================== the pure side: tables, outcomes, the connection map *)
Definition empty_table : table := fun _ => None.
Definition step_table (tbl : table) (a : arrival) : table :=
  match admission_error tbl (a_team a) (a_seat a) (a_version a) with Some _ => tbl | None => tset tbl (a_seat a) (a_team a) end.
Definition step_conn (tbl : table) (a : arrival) (i : nat) (conn : seat -> nat) : seat -> nat :=
  match admission_error tbl (a_team a) (a_seat a) (a_version a) with
  | Some _ => conn | None => fun q => if seat_beq q (a_seat a) then i else conn q end.
(* the table as it was when request j was looked at *)
Definition table_before (reqs : list arrival) (j : nat) : table := seat_requests (firstn j reqs) empty_table.
(* main's seat -> connection map after the requests, the first of which has index i *)
Fixpoint conn_requests (reqs : list arrival) (i : nat) (tbl : table) (conn : seat -> nat) : seat -> nat :=
  match reqs with
  | [] => conn
  | a :: r => if all_seated tbl then conn else conn_requests r (S i) (step_table tbl a) (step_conn tbl a i conn) end.
Inductive outcome := Waiting | Turned (e : string) | Seated.
Fixpoint outcome_of (reqs : list arrival) (tbl : table) (j : nat) : outcome :=
  match reqs with
  | [] => Waiting
  | a :: r => if all_seated tbl then Waiting
              else match j with
                   | 0 => match admission_error tbl (a_team a) (a_seat a) (a_version a) with Some e => Turned e | None => Seated end
                   | S j' => outcome_of r (step_table tbl a) j' end end.

Lemma seat_requests_step a r tbl :
  seat_requests (a :: r) tbl = if all_seated tbl then tbl else seat_requests r (step_table tbl a).
Proof. cbn [seat_requests]. unfold step_table. destruct (all_seated tbl); [reflexivity|]. destruct (admission_error _ _ _ _); reflexivity. Qed.
Lemma looked_at_step a r tbl :
  looked_at (a :: r) tbl = if all_seated tbl then 0 else S (looked_at r (step_table tbl a)).
Proof. reflexivity. Qed.

Lemma outcome_spec : forall reqs tbl j a, nth_error reqs j = Some a ->
  outcome_of reqs tbl j =
  if j <? looked_at reqs tbl
  then match admission_error (seat_requests (firstn j reqs) tbl) (a_team a) (a_seat a) (a_version a) with Some e => Turned e | None => Seated end
  else Waiting.
Proof.
  induction reqs as [|b r IH]; intros tbl j a Hj; [destruct j; discriminate Hj|].
  cbn [outcome_of]. rewrite looked_at_step. destruct (all_seated tbl) eqn:AS; [reflexivity|].
  destruct j as [|j]; cbn [nth_error] in Hj.
  - injection Hj as ->. reflexivity.
  - cbn [firstn]. rewrite seat_requests_step, AS. rewrite (IH _ _ _ Hj). reflexivity.
Qed.

Lemma looked_at_le : forall reqs tbl, looked_at reqs tbl <= length reqs.
Proof.
  induction reqs as [|b r IH]; intros tbl; [apply le_n|]. rewrite looked_at_step. cbn [length].
  destruct (all_seated tbl); [lia|]. specialize (IH (step_table tbl b)). lia.
Qed.

Lemma step_table_keeps tbl a p : tbl p <> None -> step_table tbl a p <> None.
Proof.
  intros H. unfold step_table. destruct (admission_error _ _ _ _); [exact H|]. unfold tset.
  destruct (seat_beq p (a_seat a)); [discriminate|exact H].
Qed.

(* a seat that is taken stays with its connection, and every later request for it is turned away *)
Lemma taken_seat : forall reqs tbl i conn p, tbl p <> None ->
  conn_requests reqs i tbl conn p = conn p /\
  (forall j a, nth_error reqs j = Some a -> a_seat a = p -> outcome_of reqs tbl j <> Seated).
Proof.
  induction reqs as [|b r IH]; intros tbl i conn p Hp.
  - split; [reflexivity|]. intros j a Hj. destruct j; discriminate Hj.
  - cbn [conn_requests outcome_of]. destruct (all_seated tbl) eqn:AS; [split; [reflexivity|discriminate]|].
    destruct (IH (step_table tbl b) (S i) (step_conn tbl b i conn) p (step_table_keeps tbl b p Hp)) as [IH1 IH2].
    split.
    + rewrite IH1. unfold step_conn. destruct (admission_error tbl (a_team b) (a_seat b) (a_version b)) eqn:E; [reflexivity|].
      apply accepted_facts in E. destruct E as (_ & E & _).
      destruct (seat_beq p (a_seat b)) eqn:B; [|reflexivity]. apply seat_beq_eq in B. congruence.
    + intros j a Hj Hs. destruct j as [|j]; cbn [nth_error] in Hj.
      * injection Hj as ->. destruct (admission_error tbl (a_team a) (a_seat a) (a_version a)) eqn:E; [discriminate|].
        apply accepted_facts in E. destruct E as (_ & E & _). congruence.
      * exact (IH2 j a Hj Hs).
Qed.

(* a seat that ends up taken was given to exactly one request: the one the connection map points at *)
Lemma seat_given_once : forall reqs tbl i conn p team, tbl p = None -> seat_requests reqs tbl p = Some team ->
  exists j a, nth_error reqs j = Some a /\ a_seat a = p /\ a_team a = team /\ outcome_of reqs tbl j = Seated /\
              conn_requests reqs i tbl conn p = i + j /\
              (forall j' a', nth_error reqs j' = Some a' -> a_seat a' = p -> j' <> j -> outcome_of reqs tbl j' <> Seated).
Proof.
  induction reqs as [|b r IH]; intros tbl i conn p team Hp Hs; [cbn in Hs; congruence|].
  rewrite seat_requests_step in Hs. cbn [conn_requests outcome_of].
  destruct (all_seated tbl) eqn:AS; [congruence|].
  destruct (admission_error tbl (a_team b) (a_seat b) (a_version b)) as [e|] eqn:E.
  - (* b is turned away *)
    assert (ST : step_table tbl b = tbl) by (unfold step_table; rewrite E; reflexivity).
    rewrite ST in *.
    destruct (IH tbl (S i) (step_conn tbl b i conn) p team Hp Hs) as (j & a & Hj & Ha & Ht & Ho & Hc & Hu).
    exists (S j), a. cbn [nth_error]. repeat split; try assumption.
    + rewrite Hc. lia.
    + intros j' a' Hj' Ha' Hne. destruct j' as [|j']; [discriminate|]. cbn [nth_error] in Hj'.
      apply (Hu j' a' Hj' Ha'). congruence.
  - (* b is seated *)
    destruct (seat_beq p (a_seat b)) eqn:B.
    + apply seat_beq_eq in B. subst p.
      assert (T : step_table tbl b (a_seat b) = Some (a_team b)).
      { unfold step_table. rewrite E. unfold tset. rewrite seat_beq_same. reflexivity. }
      rewrite (seated_keeps_seats r _ _ _ T) in Hs. injection Hs as <-.
      assert (T' : step_table tbl b (a_seat b) <> None) by congruence.
      destruct (taken_seat r (step_table tbl b) (S i) (step_conn tbl b i conn) (a_seat b) T') as [C1 C2].
      exists 0, b. cbn [nth_error]. repeat split.
      * rewrite C1. unfold step_conn. rewrite E, seat_beq_same. lia.
      * intros j' a' Hj' Ha' Hne. destruct j' as [|j']; [congruence|]. cbn [nth_error] in Hj'. exact (C2 j' a' Hj' Ha').
    + assert (T : step_table tbl b p = None).
      { unfold step_table. rewrite E. unfold tset. rewrite B. exact Hp. }
      destruct (IH (step_table tbl b) (S i) (step_conn tbl b i conn) p team T Hs) as (j & a & Hj & Ha & Ht & Ho & Hc & Hu).
      exists (S j), a. cbn [nth_error]. repeat split; try assumption.
      * rewrite Hc. lia.
      * intros j' a' Hj' Ha' Hne. destruct j' as [|j'].
        -- cbn [nth_error] in Hj'. injection Hj' as <-. rewrite <- Ha', seat_beq_same in B. discriminate.
        -- cbn [nth_error] in Hj'. apply (Hu j' a' Hj' Ha'). congruence.
Qed.

(* the table and main's seat -> connection map at the end of the accept loop *)
Definition final_table (reqs : list arrival) : table := seat_requests reqs empty_table.
Definition conn_map (reqs : list arrival) : seat -> nat := conn_requests reqs 0 empty_table (fun _ => 0).

(* C20, the table: it is [seat_requests reqs empty_table]; when it is full, every seat went to exactly one request, the first
   acceptable one for that seat in arrival order; the connection map points at it; its team name is the one in the table *)
Theorem table_seats_first_acceptable : forall reqs, all_seated (seat_requests reqs empty_table) = true ->
  forall p, exists j a,
    nth_error reqs j = Some a /\ a_seat a = p /\ j < looked_at reqs empty_table /\
    admission_error (table_before reqs j) (a_team a) (a_seat a) (a_version a) = None /\
    seat_requests reqs empty_table p = Some (a_team a) /\
    conn_map reqs p = j /\
    (forall j' a', nth_error reqs j' = Some a' -> a_seat a' = p -> j' < looked_at reqs empty_table -> j' <> j ->
       admission_error (table_before reqs j') (a_team a') (a_seat a') (a_version a') <> None).
Proof.
  intros reqs AS p.
  destruct (seat_requests reqs empty_table p) as [team|] eqn:Hs; [|exfalso; exact (all_seated_some _ AS p Hs)].
  destruct (seat_given_once reqs empty_table 0 (fun _ => 0) p team eq_refl Hs) as (j & a & Hj & Ha & Ht & Ho & Hc & Hu).
  exists j, a. unfold conn_map. rewrite (outcome_spec _ _ _ _ Hj) in Ho. unfold table_before.
  destruct (j <? looked_at reqs empty_table) eqn:L; [|discriminate Ho]. apply Nat.ltb_lt in L.
  destruct (admission_error (seat_requests (firstn j reqs) empty_table) (a_team a) (a_seat a) (a_version a)) eqn:E; [discriminate Ho|].
  repeat split; try assumption.
  - rewrite Ht. reflexivity.
  - intros j' a' Hj' Ha' L' Hne. specialize (Hu j' a' Hj' Ha' Hne). rewrite (outcome_spec _ _ _ _ Hj') in Hu.
    apply Nat.ltb_lt in L'. rewrite L' in Hu.
    destruct (admission_error (seat_requests (firstn j' reqs) empty_table) (a_team a') (a_seat a') (a_version a')); congruence.
Qed.

(* ===================================================================== states seen pointwise *)
Definition pr (s : Kahn.st msg) (t : nat) : option proc := nth_error (Kahn.procs msg s) t.
Definition chn (s : Kahn.st msg) (c : nat) : option (list msg) := nth_error (Kahn.chans msg s) c.
Definition bar (s : Kahn.st msg) (t : nat) : option nat := nth_error (Kahn.barr msg s) t.

(* everything that belongs to connection j: its thread, its client, its four channels, its two transcripts, the two barrier counters *)
Record cview := mkView {
  v_thread : option proc; v_client : option proc;
  v_up : option (list msg); v_down : option (list msg); v_q : option (list msg); v_r : option (list msg);
  v_trdown : option (list msg); v_trup : option (list msg);
  v_bt : option nat; v_bc : option nat }.
Definition loc (n : nat) (s : Kahn.st msg) (j : nat) : cview :=
  mkView (pr s (S j)) (pr s (S (n + j)))
         (chn s (ch_up j)) (chn s (ch_down j)) (chn s (ch_q j)) (chn s (ch_r j))
         (chn s (tr_down n j)) (chn s (tr_up n j))
         (bar s (S j)) (bar s (S (n + j))).
(* the rest, main's process excepted: sizes, no cells, the log, nothing on the never-written channel, main's barrier counter *)
Definition gshape (n : nat) (L : list msg) (b : nat) (s : Kahn.st msg) : Prop :=
  length (Kahn.procs msg s) = 1 + 2 * n /\ length (Kahn.chans msg s) = 6 * n + 2 /\ length (Kahn.barr msg s) = 1 + 2 * n /\
  Kahn.cells msg s = [] /\ chn s (ch_log n) = Some L /\ chn s (ch_never n) = Some [] /\ bar s 0 = Some b.
(* during admission: nothing logged, main not at the barrier *)
Definition shape (n : nat) (s : Kahn.st msg) : Prop := gshape n [] 0 s.

(* ---------- the blocking points of a client and of a connection thread during admission ---------- *)
Definition client_ready (n i : nat) (me : seat) (team : string) (scripts : list cscript) : proc :=
  crecv i (fun tl =>
     match parse_team_names tl with
     | None => Fail
     | Some (ns, ew) =>
         if String.eqb (match side_of me with NS => ns | EW => ew end) team then
           csend n i (formal_name me +++ " ready to start") (crecv i (fun m => c_boards n i me (S (List.length scripts)) m scripts))
         else Fail end).
Definition client_wait (n i : nat) (me : seat) (team : string) (scripts : list cscript) : proc :=
  crecv i (fun reply =>
     if String.eqb reply (formal_name me +++ " " +++ team +++ " seated") || String.eqb reply (formal_name me +++ " (""" +++ team +++ """) seated")
     then csend n i (formal_name me +++ " ready for teams") (client_ready n i me team scripts)
     else Fail).
Lemma client_proc_eq n i me team v sc :
  client_proc n i me team v sc = csend n i (connect_line team me v) (client_wait n i me team sc).
Proof. reflexivity. Qed.
Definition thread_seated (n i nb : nat) (p : seat) : proc :=
  Get (ch_q i) (fun mt =>
     match mt with
     | MTable t =>
         let nm := fun s => match t s with Some x => x | None => "None" end in
         send n i (teams_line (nm North) (nm East)) (expect n i (formal_name p +++ " ready to start") (t_boards n i (S nb) p) Ret)
     | _ => Fail end).
Lemma seated_eq n i nb p team :
  seated n i nb p team =
  send n i (seated_line p team)
    (expect n i (formal_name p +++ " ready for teams")
       (Put (ch_r i) (MVerdict (Some (p, team))) (Bar (thread_seated n i nb p)))
       (Put (ch_r i) (MVerdict (Some (p, team))) Ret)).
Proof. reflexivity. Qed.

Definition cline (a : arrival) : msg := MS (connect_line (a_team a) (a_seat a) (a_version a)).
Definition init_view (n nb i : nat) (a : arrival) (sc : list cscript) : cview :=
  mkView (Some (conn_proc n i nb)) (Some (client_proc n i (a_seat a) (a_team a) (a_version a) sc))
         (Some []) (Some []) (Some []) (Some []) (Some []) (Some []) (Some 0) (Some 0).
Definition waiting_view (n nb i : nat) (a : arrival) (sc : list cscript) : cview :=
  mkView (Some (conn_proc n i nb)) (Some (client_wait n i (a_seat a) (a_team a) sc))
         (Some [cline a]) (Some []) (Some []) (Some []) (Some []) (Some [cline a]) (Some 0) (Some 0).
Definition turned_view (a : arrival) (e : string) : cview :=
  mkView (Some Ret) (Some Fail)
         (Some []) (Some [MS CLOSED]) (Some []) (Some []) (Some [MS e; MS CLOSED]) (Some [cline a]) (Some 0) (Some 0).
Definition seated_view (n nb i : nat) (a : arrival) (sc : list cscript) : cview :=
  mkView (Some (BarWait 1 (thread_seated n i nb (a_seat a)))) (Some (client_ready n i (a_seat a) (a_team a) sc))
         (Some []) (Some []) (Some []) (Some [])
         (Some [MS (seated_line (a_seat a) (a_team a))])
         (Some [cline a; MS (formal_name (a_seat a) +++ " ready for teams")]) (Some 1) (Some 0).

(* ---------- reach ---------- *)
Lemma reach_trans s (P Q : Kahn.st msg -> Prop) : reach s P -> (forall s', P s' -> reach s' Q) -> reach s Q.
Proof.
  intros (l & f & Hl & Hf) H. destruct (H f Hf) as (l' & f' & Hl' & Hf').
  exists (l ++ l'), f'. split; [|exact Hf']. unfold srun in *. rewrite run_app, Hl. exact Hl'.
Qed.

Lemma nth_upd_eq {A} (l : list A) i x : i < length l -> nth_error (upd l i x) i = Some x.
Proof.
  intros H. destruct (nth_error l i) as [y|] eqn:E; [exact (nth_upd_same l i x y E)|].
  apply nth_error_None in E. lia.
Qed.

(* side conditions of the look-ups: the indices are distinct / in range; only the arithmetic hypotheses are kept for lia *)
Ltac keep_arith :=
  repeat match goal with
         | H : ?T |- _ =>
             lazymatch T with
             | (_ < _) => fail
             | (_ <= _) => fail
             | (@eq nat _ _) => fail
             | (not (@eq nat _ _)) => fail
             | _ => clear H end end.
Ltac chlia := unfold ch_up, ch_down, ch_q, ch_r, ch_log, ch_never, tr_down, tr_up; keep_arith; lia.
(* one look-up through one [upd]; which lemma applies is decided syntactically (unifying two different channel numbers is slow) *)
Ltac lk1 :=
  lazymatch goal with
  | |- context [nth_error (upd ?l ?i ?x) ?j] =>
      first [ constr_eq i j; rewrite (nth_upd_eq l i x) by (rewrite ?upd_length; chlia)
            | rewrite (nth_upd_other l i j x) by chlia ] end.
Ltac lk := repeat lk1.
(* after the look-up the goal is [Some _ = Some _] or a look-up in the original list, recorded in a hypothesis with the very same
   left-hand side (chosen syntactically: comparing two different process terms by conversion can be very expensive) *)
Ltac lkdone :=
  lk; lazymatch goal with
      | |- Some _ = Some _ => reflexivity
      | |- nth_error ?l ?i = nth_error ?l ?i => reflexivity
      | |- nth_error ?l ?i = _ => match goal with H : nth_error l i = _ |- _ => exact H end
      | |- _ => reflexivity end.
Ltac s_put t := eapply (reach_step t); [ eapply step_put; [ lkdone | lkdone ] | ]; cbn [app]; rewrite ?upd_upd.
Ltac s_get t := eapply (reach_step t); [ eapply step_get; [ lkdone | lkdone ] | ]; cbv beta iota; rewrite ?upd_upd.
Ltac s_tau t := eapply (reach_step t); [ eapply step_tau; lkdone | ]; rewrite ?upd_upd.
Ltac s_bar t := eapply (reach_step t); [ eapply step_bar; [ lkdone | lkdone ] | ]; rewrite ?upd_upd.

Ltac unf_acc := unfold shape, gshape, loc, pr, chn, bar in *; cbn [Kahn.procs Kahn.chans Kahn.cells Kahn.barr] in *.
Ltac open_state s Hsh Hloc :=
  destruct s as [ps chs ce ba];
  pose proof (f_equal v_thread Hloc) as Vt; pose proof (f_equal v_client Hloc) as Vc;
  pose proof (f_equal v_up Hloc) as Vup; pose proof (f_equal v_down Hloc) as Vdown;
  pose proof (f_equal v_q Hloc) as Vq; pose proof (f_equal v_r Hloc) as Vr;
  pose proof (f_equal v_trdown Hloc) as Vtd; pose proof (f_equal v_trup Hloc) as Vtu;
  pose proof (f_equal v_bt Hloc) as Vbt; pose proof (f_equal v_bc Hloc) as Vbc; clear Hloc;
  unf_acc; cbn [v_thread v_client v_up v_down v_q v_r v_trdown v_trup v_bt v_bc] in *;
  destruct Hsh as (Lp & Lc & Lb & Hce & Hlog & Hnev & Hb0).

(* the frame: what does not belong to connection i *)
Definition others_same (n i : nat) (s s' : Kahn.st msg) : Prop := forall j, j < n -> j <> i -> loc n s' j = loc n s j.

Ltac close_shape := unf_acc; repeat split; rewrite ?upd_length; try assumption; lkdone.
Ltac close_frame := let j := fresh "j" in let Hj := fresh "Hj" in let Hne := fresh "Hne" in
  unfold others_same; intros j Hj Hne; unf_acc; f_equal; lk; reflexivity.
Ltac close_view := unf_acc; f_equal; lkdone.

(* client i sends its connection line *)
Lemma client_connects n nb i a sc s :
  i < n -> shape n s -> loc n s i = init_view n nb i a sc ->
  reach s (fun s' => shape n s' /\ pr s' 0 = pr s 0 /\ loc n s' i = waiting_view n nb i a sc /\ others_same n i s s').
Proof.
  intros Hi Hsh Hloc. unfold init_view in Hloc. rewrite client_proc_eq in Hloc. unfold csend in Hloc.
  open_state s Hsh Hloc.
  s_put (S (n + i)). s_put (S (n + i)).
  apply reach_done. unfold waiting_view, cline.
  split; [close_shape|]. split; [unf_acc; lkdone|]. split; [close_view|close_frame].
Qed.

(* main looks at request i and the connection thread turns it away *)
Lemma process_turned n nb i a sc tbl e (G : msg -> proc) s :
  i < n -> shape n s ->
  pr s 0 = Some (Put (ch_q i) (MTable tbl) (Get (ch_r i) (fun v => Tau (G v)))) ->
  loc n s i = waiting_view n nb i a sc ->
  admission_error tbl (a_team a) (a_seat a) (a_version a) = Some e ->
  reach s (fun s' => shape n s' /\ pr s' 0 = Some (G (MVerdict None)) /\ loc n s' i = turned_view a e /\ others_same n i s s').
Proof.
  intros Hi Hsh Hm Hloc Hae. destruct (error_form _ _ _ _ _ Hae) as (r & ->).
  unfold waiting_view, cline, conn_proc, client_wait, crecv, sget in Hloc.
  open_state s Hsh Hloc.
  s_put 0.
  s_get (S i). s_get (S i).
  rewrite connect_roundtrip_any; cbv beta iota. rewrite Hae; cbv beta iota.
  unfold handle_error, send.
  do 5 s_put (S i).
  s_get (S (n + i)). rewrite error_not_closed, error_not_seated; cbv beta iota.
  s_get 0. s_tau 0.
  apply reach_done. unfold turned_view, cline.
  split; [close_shape|]. split; [unf_acc; lkdone|]. split; [close_view|close_frame].
Qed.

(* main looks at request i and the connection thread seats it *)
Lemma process_seated n nb i a sc tbl (G : msg -> proc) s :
  i < n -> shape n s ->
  pr s 0 = Some (Put (ch_q i) (MTable tbl) (Get (ch_r i) (fun v => Tau (G v)))) ->
  loc n s i = waiting_view n nb i a sc ->
  admission_error tbl (a_team a) (a_seat a) (a_version a) = None ->
  reach s (fun s' => shape n s' /\ pr s' 0 = Some (G (MVerdict (Some (a_seat a, a_team a)))) /\
                     loc n s' i = seated_view n nb i a sc /\ others_same n i s s').
Proof.
  intros Hi Hsh Hm Hloc Hae.
  unfold waiting_view, cline, conn_proc, client_wait, crecv, sget in Hloc.
  open_state s Hsh Hloc.
  s_put 0.
  s_get (S i). s_get (S i).
  rewrite connect_roundtrip_any; cbv beta iota. rewrite Hae; cbv beta iota.
  rewrite seated_eq. unfold send, expect, sget.
  s_put (S i). s_put (S i).
  s_get (S (n + i)). rewrite seated_not_closed, seated_ok; cbv beta iota. unfold csend.
  s_put (S (n + i)). s_put (S (n + i)).
  s_get (S i). rewrite ready_teams_ok; cbv beta iota.
  s_put (S i). s_bar (S i).
  s_get 0. s_tau 0.
  apply reach_done. unfold seated_view, cline.
  split; [close_shape|]. split; [unf_acc; lkdone|]. split; [close_view|close_frame].
Qed.

(* ===================================================================== main's process; the initial state pointwise *)
(* an operator interrupt armed for main's k-th queue read after the log is opened leaves the admission loop as it is *)
Definition wrap (o : option nat) (n : nat) (p : proc) : proc :=
  match o with None => p | Some k => interrupt_at n false k p end.
Definition after_admission (n : nat) (boards : list board) : table -> (seat -> nat) -> proc :=
  fun t conn =>
    let names := fun p => match t p with Some s => s | None => "None" end in
    fold_right (fun p acc => Put (ch_q (conn p)) (MTable t) acc)
      (Bar (Put (ch_log n) (MLog LOpen) (boards_loop n conn names boards 1))) all_seats.
Lemma main_proc_admission n boards :
  main_proc n boards = admission n (seq 0 n) empty_table (fun _ => 0) (after_admission n boards).
Proof. reflexivity. Qed.

Lemma wrap_admission_step o n i rest t conn k : all_seated t = false ->
  wrap o n (admission n (i :: rest) t conn k) =
  Put (ch_q i) (MTable t)
    (Get (ch_r i) (fun v =>
       Tau (wrap o n (match v with
                      | MVerdict (Some (p, team)) => admission n rest (tset t p team) (fun q => if seat_beq q p then i else conn q) k
                      | MVerdict None => admission n rest t conn k
                      | _ => Fail end)))).
Proof. intros H. rewrite admission_eq, H. destruct o; reflexivity. Qed.
Lemma admission_full n arr t conn k : all_seated t = true -> admission n arr t conn k = k t conn.
Proof. intros H. rewrite admission_eq, H. reflexivity. Qed.

Definition script_of (x : session) (j : nat) : list cscript := nth j (s_scripts x ++ repeat [] (nconn x)) [].

Lemma nth_error_repeat_lt {A} (a : A) k c : c < k -> nth_error (repeat a k) c = Some a.
Proof. revert c. induction k as [|k IH]; intros c H; [lia|]. destruct c as [|c]; [reflexivity|]. cbn [repeat nth_error]. apply IH. lia. Qed.
Lemma nth_error_combine_some {A B} (l1 : list A) (l2 : list B) j a b :
  nth_error l1 j = Some a -> nth_error l2 j = Some b -> nth_error (combine l1 l2) j = Some (a, b).
Proof.
  revert l2 j. induction l1 as [|x l1 IH]; intros l2 j H1 H2; [destruct j; discriminate H1|].
  destruct l2 as [|y l2]; [destruct j; discriminate H2|].
  destruct j as [|j]; cbn [combine nth_error] in *; [congruence|apply IH; assumption].
Qed.

Lemma init_shape x : shape (nconn x) (init_state x).
Proof.
  unfold shape, gshape, init_state, chn, bar. cbv zeta. cbn [Kahn.procs Kahn.chans Kahn.cells Kahn.barr]. set (n := nconn x).
  repeat split.
  - cbn [length]. rewrite app_length, !map_length, !combine_length, seq_length, app_length, repeat_length.
    fold (nconn x). fold n. lia.
  - apply repeat_length.
  - apply repeat_length.
  - apply nth_error_repeat_lt. unfold ch_log. lia.
  - apply nth_error_repeat_lt. unfold ch_never. lia.
Qed.
Lemma init_main x : pr (init_state x) 0 = Some (wrap (s_interrupt x) (nconn x) (main_proc (nconn x) (s_boards x))).
Proof. unfold pr, init_state, wrap. cbv zeta. cbn [Kahn.procs nth_error]. destruct (s_interrupt x); reflexivity. Qed.
Lemma init_loc x j a : nth_error (s_arrivals x) j = Some a ->
  loc (nconn x) (init_state x) j = init_view (nconn x) (length (s_boards x)) j a (script_of x j).
Proof.
  intros Hj. assert (L : j < nconn x).
  { unfold nconn. apply nth_error_Some. congruence. }
  unfold loc, init_view, pr, chn, bar, init_state, script_of. cbv zeta. cbn [Kahn.procs Kahn.chans Kahn.cells Kahn.barr].
  set (n := nconn x) in *. cbn [nth_error].
  f_equal.
  - rewrite nth_error_app1 by (rewrite map_length, seq_length; exact L).
    rewrite nth_error_map, nth_error_seq by exact L. reflexivity.
  - rewrite nth_error_app2 by (rewrite map_length, seq_length; lia).
    rewrite map_length, seq_length. replace (n + j - n) with j by lia.
    rewrite nth_error_map.
    rewrite (nth_error_combine_some (seq 0 n) _ j j (a, nth j (s_scripts x ++ repeat [] n) [])).
    + reflexivity.
    + apply nth_error_seq. exact L.
    + apply nth_error_combine_some; [exact Hj|]. apply nth_error_nth'. rewrite app_length, repeat_length. lia.
  - apply nth_error_repeat_lt. unfold ch_up. lia.
  - apply nth_error_repeat_lt. unfold ch_down. lia.
  - apply nth_error_repeat_lt. unfold ch_q. lia.
  - apply nth_error_repeat_lt. unfold ch_r. lia.
  - apply nth_error_repeat_lt. unfold tr_down. lia.
  - apply nth_error_repeat_lt. unfold tr_up. lia.
  - apply (nth_error_repeat_lt 0 (2 * n) j). lia.
  - apply (nth_error_repeat_lt 0 (2 * n) (n + j)). lia.
Qed.

(* ===================================================================== the two loops *)
Definition final_view (n nb i : nat) (a : arrival) (sc : list cscript) (o : outcome) : cview :=
  match o with
  | Waiting => waiting_view n nb i a sc
  | Turned e => turned_view a e
  | Seated => seated_view n nb i a sc end.

Section Loops.
  Variables (n nb : nat) (scf : nat -> list cscript).

  (* every client sends its connection line *)
  Lemma connect_all : forall rest i s, i + length rest = n -> shape n s ->
    (forall j a, nth_error rest j = Some a -> loc n s (i + j) = init_view n nb (i + j) a (scf (i + j))) ->
    reach s (fun s' => shape n s' /\ pr s' 0 = pr s 0 /\
                       (forall j a, nth_error rest j = Some a -> loc n s' (i + j) = waiting_view n nb (i + j) a (scf (i + j))) /\
                       (forall j, j < i -> loc n s' j = loc n s j)).
  Proof.
    induction rest as [|a r IH]; intros i s Hlen Hsh Hinit.
    - apply reach_done. split; [exact Hsh|]. split; [reflexivity|]. split; [|reflexivity].
      intros j a Hj. destruct j; discriminate Hj.
    - cbn [length] in Hlen. assert (Hi : i < n) by lia.
      eapply reach_trans.
      { apply (client_connects n nb i a (scf i) s Hi Hsh). specialize (Hinit 0 a eq_refl). rewrite Nat.add_0_r in Hinit. exact Hinit. }
      intros s1 (Hsh1 & Hm1 & Hl1 & Ho1). unfold others_same in Ho1.
      eapply reach_trans.
      { apply (IH (S i) s1); [lia | exact Hsh1 |]. intros j b Hj.
        assert (Lj : j < length r) by (apply nth_error_Some; congruence). rewrite Ho1 by lia.
        replace (S i + j) with (i + S j) by lia. apply Hinit. exact Hj. }
      intros s2 (Hsh2 & Hm2 & Hl2 & Ho2). apply reach_done.
      split; [exact Hsh2|]. split; [congruence|]. split.
      + intros j b Hj. destruct j as [|j]; cbn [nth_error] in Hj.
        * injection Hj as <-. rewrite Nat.add_0_r. rewrite Ho2 by lia. exact Hl1.
        * replace (i + S j) with (S i + j) by lia. apply Hl2. exact Hj.
      + intros j Hj. rewrite Ho2 by lia. apply Ho1; lia.
  Qed.

  Variables (o : option nat) (K : table -> (seat -> nat) -> proc).

  (* the accept loop, from request i on *)
  Lemma admission_loop : forall rest i tbl conn s, i + length rest = n -> shape n s ->
    pr s 0 = Some (wrap o n (admission n (seq i (length rest)) tbl conn K)) ->
    (forall j a, nth_error rest j = Some a -> loc n s (i + j) = waiting_view n nb (i + j) a (scf (i + j))) ->
    reach s (fun s' =>
      shape n s' /\
      pr s' 0 = Some (wrap o n (admission n (seq (i + looked_at rest tbl) (length rest - looked_at rest tbl))
                                  (seat_requests rest tbl) (conn_requests rest i tbl conn) K)) /\
      (forall j a, nth_error rest j = Some a -> loc n s' (i + j) = final_view n nb (i + j) a (scf (i + j)) (outcome_of rest tbl j)) /\
      (forall j, j < i -> loc n s' j = loc n s j)).
  Proof.
    induction rest as [|a r IH]; intros i tbl conn s Hlen Hsh Hm Hw.
    - apply reach_done. cbn [looked_at seat_requests conn_requests length]. rewrite Nat.add_0_r.
      split; [exact Hsh|]. split; [exact Hm|]. split; [|reflexivity]. intros j a Hj. destruct j; discriminate Hj.
    - rewrite seat_requests_step, looked_at_step. cbn [conn_requests outcome_of].
      destruct (all_seated tbl) eqn:AS.
      + apply reach_done. rewrite Nat.add_0_r, Nat.sub_0_r.
        split; [exact Hsh|]. split; [exact Hm|]. split; [|reflexivity]. intros j b Hj. cbn [final_view]. apply Hw. exact Hj.
      + cbn [length] in Hlen. assert (Hi : i < n) by lia.
        cbn [length seq] in Hm. rewrite (wrap_admission_step _ _ _ _ _ _ _ AS) in Hm.
        assert (Hw0 : loc n s i = waiting_view n nb i a (scf i)).
        { specialize (Hw 0 a eq_refl). rewrite Nat.add_0_r in Hw. exact Hw. }
        assert (Step : reach s (fun s1 => shape n s1 /\
                   pr s1 0 = Some (wrap o n (admission n (seq (S i) (length r)) (step_table tbl a) (step_conn tbl a i conn) K)) /\
                   loc n s1 i = final_view n nb i a (scf i)
                                  (match admission_error tbl (a_team a) (a_seat a) (a_version a) with Some e => Turned e | None => Seated end) /\
                   others_same n i s s1)).
        { unfold step_table, step_conn.
          destruct (admission_error tbl (a_team a) (a_seat a) (a_version a)) as [e|] eqn:E.
          - exact (process_turned n nb i a (scf i) tbl e _ s Hi Hsh Hm Hw0 E).
          - exact (process_seated n nb i a (scf i) tbl _ s Hi Hsh Hm Hw0 E). }
        eapply reach_trans; [exact Step|]. clear Step.
        intros s1 (Hsh1 & Hm1 & Hl1 & Ho1). unfold others_same in Ho1.
        eapply reach_trans.
        { apply (IH (S i) (step_table tbl a) (step_conn tbl a i conn) s1); [lia | exact Hsh1 | exact Hm1 |].
          intros j b Hj. assert (Lj : j < length r) by (apply nth_error_Some; congruence). rewrite Ho1 by lia. replace (S i + j) with (i + S j) by lia. apply Hw. exact Hj. }
        intros s2 (Hsh2 & Hm2 & Hl2 & Ho2). apply reach_done.
        split; [exact Hsh2|]. split; [|split].
        * rewrite Hm2. cbn [length]. rewrite Nat.sub_succ. replace (i + S (looked_at r (step_table tbl a))) with (S i + looked_at r (step_table tbl a)) by lia.
          reflexivity.
        * intros j b Hj. destruct j as [|j]; cbn [nth_error] in Hj.
          -- injection Hj as <-. rewrite Nat.add_0_r. rewrite Ho2 by lia. exact Hl1.
          -- replace (i + S j) with (S i + j) by lia. apply Hl2. exact Hj.
        * intros j Hj. rewrite Ho2 by lia. apply Ho1; lia.
  Qed.
End Loops.

(* ===================================================================== the theorems *)

(* without any hypothesis on the requests: main leaves the accept loop if the table is full and blocks in accept() for ever otherwise
   ([admission n [] t conn k] with t not full is [Get (ch_never n) ...]) *)
Theorem admission_phase_any : forall x : session,
  let reqs := s_arrivals x in
  let n := nconn x in
  reach (init_state x) (fun f =>
    shape n f /\
    pr f 0 = Some (wrap (s_interrupt x) n
                     (admission n (seq (looked_at reqs empty_table) (n - looked_at reqs empty_table))
                        (final_table reqs) (conn_map reqs) (after_admission n (s_boards x)))) /\
    forall j a, nth_error reqs j = Some a ->
      loc n f j = final_view n (length (s_boards x)) j a (script_of x j) (outcome_of reqs empty_table j)).
Proof.
  intros x reqs n.
  eapply reach_trans.
  { apply (connect_all n (length (s_boards x)) (script_of x) reqs 0 (init_state x)).
    - reflexivity.
    - apply init_shape.
    - intros j a Hj. cbn [plus]. apply init_loc. exact Hj. }
  intros s1 (Hsh1 & Hm1 & Hl1 & _).
  eapply reach_trans.
  { apply (admission_loop n (length (s_boards x)) (script_of x) (s_interrupt x) (after_admission n (s_boards x))
             reqs 0 empty_table (fun _ => 0) s1).
    - reflexivity.
    - exact Hsh1.
    - rewrite Hm1, init_main, main_proc_admission. reflexivity.
    - exact Hl1. }
  intros s2 (Hsh2 & Hm2 & Hl2 & _). apply reach_done.
  split; [exact Hsh2|]. split; [exact Hm2|]. exact Hl2.
Qed.

(* C20.  (a) main has left the accept loop with the final table and the connection map; for request j with arrival a:
   (b) looked at and turned away with error line e (computed from the table as it was then): [turned_view a e], i.e. thread returned,
       client failed, transcript down = [e; CLOSED] (the marker CLOSED is still on the socket: the client stopped at the error line),
       transcript up = [its connection line], every queue of the connection empty, neither at the barrier;
   (c) looked at and seated: [seated_view], i.e. transcript down = [seated_line] and no more, transcript up = [connection line;
       "<seat> ready for teams"], the verdict has been consumed by main, the thread has arrived at the seating barrier (counter 1) and
       waits there ([BarWait 1]) before reading the table snapshot, the client waits for the teams line, sockets and queues empty;
   (d) not looked at: [waiting_view], i.e. the connection line is on the up socket, un-read, the thread has not been started (it still
       waits for its start snapshot), nothing has been sent down, the client waits for a reply;
   and nothing has been logged, nothing is on the never-written channel, main has not arrived at the barrier, no cell exists. *)
Theorem admission_phase : forall x : session,
  let reqs := s_arrivals x in
  let n := nconn x in
  let nb := length (s_boards x) in
  wf_requests reqs ->
  all_seated (seat_requests reqs empty_table) = true ->
  reach (init_state x) (fun f =>
    pr f 0 = Some (wrap (s_interrupt x) n (after_admission n (s_boards x) (seat_requests reqs empty_table) (conn_map reqs))) /\
    (forall j a, nth_error reqs j = Some a ->
       (forall e, j < looked_at reqs empty_table ->
                  admission_error (table_before reqs j) (a_team a) (a_seat a) (a_version a) = Some e ->
                  loc n f j = turned_view a e) /\
       (j < looked_at reqs empty_table ->
        admission_error (table_before reqs j) (a_team a) (a_seat a) (a_version a) = None ->
        loc n f j = seated_view n nb j a (script_of x j)) /\
       (looked_at reqs empty_table <= j -> loc n f j = waiting_view n nb j a (script_of x j))) /\
    shape n f).
Proof.
  intros x reqs n nb _ AS.
  eapply reach_trans; [exact (admission_phase_any x)|].
  intros f (Hsh & Hm & Hl). apply reach_done.
  split; [|split; [|exact Hsh]].
  - fold reqs n in Hm. unfold final_table in Hm. rewrite (admission_full _ _ _ _ _ AS) in Hm. exact Hm.
  - intros j a Hj. fold reqs n in Hl. specialize (Hl j a Hj). fold nb in Hl.
    rewrite (outcome_spec reqs empty_table j a Hj) in Hl. unfold table_before.
    repeat split.
    + intros e L E. apply Nat.ltb_lt in L. rewrite L, E in Hl. exact Hl.
    + intros L E. apply Nat.ltb_lt in L. rewrite L, E in Hl. exact Hl.
    + intros L. apply Nat.ltb_ge in L. rewrite L in Hl. exact Hl.
Qed.

(* ===================================================================== after the accept loop: the seating barrier and the team line *)
Definition wrap_open (o : option nat) (n : nat) (p : proc) : proc :=
  match o with None => p | Some k => interrupt_at n true k p end.
Definition names_of (t : table) : seat -> string := fun p => match t p with Some s => s | None => "None" end.
Lemma wrap_after o n boards T C :
  wrap o n (after_admission n boards T C) =
  Put (ch_q (C North)) (MTable T) (Put (ch_q (C East)) (MTable T) (Put (ch_q (C South)) (MTable T) (Put (ch_q (C West)) (MTable T)
    (Bar (Put (ch_log n) (MLog LOpen) (wrap_open o n (boards_loop n C (names_of T) boards 1))))))).
Proof. destruct o; reflexivity. Qed.

(* a seated connection that has passed the barrier and been handed the table; then the same once the team line has been acknowledged *)
Definition barrier_view (n nb i : nat) (a : arrival) (sc : list cscript) (T : table) : cview :=
  mkView (Some (thread_seated n i nb (a_seat a))) (Some (client_ready n i (a_seat a) (a_team a) sc))
         (Some []) (Some []) (Some [MTable T]) (Some [])
         (Some [MS (seated_line (a_seat a) (a_team a))])
         (Some [cline a; MS (formal_name (a_seat a) +++ " ready for teams")]) (Some 1) (Some 0).
Definition started_view (n nb i : nat) (a : arrival) (sc : list cscript) (ns ew : string) : cview :=
  mkView (Some (t_boards n i (S nb) (a_seat a)))
         (Some (crecv i (fun m => c_boards n i (a_seat a) (S (List.length sc)) m sc)))
         (Some []) (Some []) (Some []) (Some [])
         (Some [MS (seated_line (a_seat a) (a_team a)); MS (teams_line ns ew)])
         (Some [cline a; MS (formal_name (a_seat a) +++ " ready for teams"); MS (formal_name (a_seat a) +++ " ready to start")])
         (Some 1) (Some 0).

(* ---------- the barrier opens once main and four threads have arrived ---------- *)
Lemma cnt_upd {A} (f : A -> bool) : forall l i x y, nth_error l i = Some y -> f y = true -> f x = false ->
  length (filter f l) = S (length (filter f (upd l i x))).
Proof.
  induction l as [|h t IH]; intros i x y Hn Hy Hx; [destruct i; discriminate Hn|].
  destruct i as [|i]; cbn [nth_error upd filter] in *.
  - injection Hn as ->. rewrite Hy, Hx. reflexivity.
  - destruct (f h); cbn [length]; rewrite (IH i x y Hn Hy Hx); reflexivity.
Qed.
Lemma released_five ba j0 j1 j2 j3 :
  j0 <> j1 -> j0 <> j2 -> j0 <> j3 -> j1 <> j2 -> j1 <> j3 -> j2 <> j3 ->
  nth_error ba 0 = Some 1 -> nth_error ba (S j0) = Some 1 -> nth_error ba (S j1) = Some 1 ->
  nth_error ba (S j2) = Some 1 -> nth_error ba (S j3) = Some 1 ->
  Kahn.released PARTIES 1 ba = true.
Proof.
  intros D01 D02 D03 D12 D13 D23 H H0 H1 H2 H3. unfold Kahn.released, PARTIES. apply Nat.leb_le.
  rewrite (cnt_upd _ ba 0 0 1 H eq_refl eq_refl).
  rewrite (cnt_upd _ _ (S j0) 0 1); [| rewrite !nth_upd_other by lia; exact H0 | reflexivity | reflexivity].
  rewrite (cnt_upd _ _ (S j1) 0 1); [| rewrite !nth_upd_other by lia; exact H1 | reflexivity | reflexivity].
  rewrite (cnt_upd _ _ (S j2) 0 1); [| rewrite !nth_upd_other by lia; exact H2 | reflexivity | reflexivity].
  rewrite (cnt_upd _ _ (S j3) 0 1); [| rewrite !nth_upd_other by lia; exact H3 | reflexivity | reflexivity].
  lia.
Qed.

Ltac view_eqs H Vt Vc Vup Vdown Vq Vr Vtd Vtu Vbt Vbc :=
  pose proof (f_equal v_thread H) as Vt; pose proof (f_equal v_client H) as Vc;
  pose proof (f_equal v_up H) as Vup; pose proof (f_equal v_down H) as Vdown;
  pose proof (f_equal v_q H) as Vq; pose proof (f_equal v_r H) as Vr;
  pose proof (f_equal v_trdown H) as Vtd; pose proof (f_equal v_trup H) as Vtu;
  pose proof (f_equal v_bt H) as Vbt; pose proof (f_equal v_bc H) as Vbc; clear H.
Ltac s_bw t Hrel := eapply (reach_step t); [ eapply step_barwait; [ lkdone | exact Hrel ] | ].

(* main hands the table to the four seated threads and arrives at the barrier; the five pass; main opens the log *)
Lemma barrier_pass n nb T (M : proc) j0 j1 j2 j3 a0 a1 a2 a3 sc0 sc1 sc2 sc3 s :
  j0 < n -> j1 < n -> j2 < n -> j3 < n ->
  j0 <> j1 -> j0 <> j2 -> j0 <> j3 -> j1 <> j2 -> j1 <> j3 -> j2 <> j3 ->
  shape n s ->
  pr s 0 = Some (Put (ch_q j0) (MTable T) (Put (ch_q j1) (MTable T) (Put (ch_q j2) (MTable T) (Put (ch_q j3) (MTable T)
                   (Bar (Put (ch_log n) (MLog LOpen) M)))))) ->
  loc n s j0 = seated_view n nb j0 a0 sc0 -> loc n s j1 = seated_view n nb j1 a1 sc1 ->
  loc n s j2 = seated_view n nb j2 a2 sc2 -> loc n s j3 = seated_view n nb j3 a3 sc3 ->
  reach s (fun s' =>
    gshape n [MLog LOpen] 1 s' /\ pr s' 0 = Some M /\
    loc n s' j0 = barrier_view n nb j0 a0 sc0 T /\ loc n s' j1 = barrier_view n nb j1 a1 sc1 T /\
    loc n s' j2 = barrier_view n nb j2 a2 sc2 T /\ loc n s' j3 = barrier_view n nb j3 a3 sc3 T /\
    (forall j, j < n -> j <> j0 -> j <> j1 -> j <> j2 -> j <> j3 -> loc n s' j = loc n s j)).
Proof.
  intros L0 L1 L2 L3 D01 D02 D03 D12 D13 D23 Hsh Hm V0 V1 V2 V3.
  unfold seated_view, cline in V0, V1, V2, V3.
  destruct s as [ps chs ce ba].
  view_eqs V0 Vt0 Vc0 Vup0 Vdown0 Vq0 Vr0 Vtd0 Vtu0 Vbt0 Vbc0.
  view_eqs V1 Vt1 Vc1 Vup1 Vdown1 Vq1 Vr1 Vtd1 Vtu1 Vbt1 Vbc1.
  view_eqs V2 Vt2 Vc2 Vup2 Vdown2 Vq2 Vr2 Vtd2 Vtu2 Vbt2 Vbc2.
  view_eqs V3 Vt3 Vc3 Vup3 Vdown3 Vq3 Vr3 Vtd3 Vtu3 Vbt3 Vbc3.
  unf_acc; cbn [v_thread v_client v_up v_down v_q v_r v_trdown v_trup v_bt v_bc] in *.
  destruct Hsh as (Lp & Lc & Lb & Hce & Hlog & Hnev & Hb0).
  s_put 0. s_put 0. s_put 0. s_put 0. s_bar 0.
  assert (Hrel : Kahn.released PARTIES 1 (upd ba 0 1) = true).
  { apply (released_five _ j0 j1 j2 j3); try assumption; lkdone. }
  s_bw 0 Hrel. s_bw (S j0) Hrel. s_bw (S j1) Hrel. s_bw (S j2) Hrel. s_bw (S j3) Hrel.
  s_put 0.
  apply reach_done. unfold barrier_view, cline.
  split; [close_shape|]. split; [unf_acc; lkdone|].
  split; [close_view|]. split; [close_view|]. split; [close_view|]. split; [close_view|].
  intros j Hj N0 N1 N2 N3. unf_acc. f_equal; lk; reflexivity.
Qed.

Lemma teams_not_closed ns ew : String.eqb (teams_line ns ew) CLOSED = false.
Proof. reflexivity. Qed.
Lemma ready_start_ok p : check_message (formal_name p +++ " ready to start") (formal_name p +++ " ready to start") = true.
Proof. destruct p; vm_compute; reflexivity. Qed.

(* thread i reads the table, sends the team line; the client checks its own side's name and answers; the thread accepts the answer *)
Lemma teams_one n nb i a sc T L b s :
  i < n -> gshape n L b s -> loc n s i = barrier_view n nb i a sc T ->
  no_quote (names_of T North) -> no_quote (names_of T East) ->
  match side_of (a_seat a) with NS => names_of T North | EW => names_of T East end = a_team a ->
  reach s (fun s' => gshape n L b s' /\ pr s' 0 = pr s 0 /\
                     loc n s' i = started_view n nb i a sc (names_of T North) (names_of T East) /\ others_same n i s s').
Proof.
  intros Hi Hsh Hloc HqN HqE Hside.
  unfold barrier_view, cline, thread_seated, client_ready, crecv, sget in Hloc. unfold names_of in *.
  open_state s Hsh Hloc.
  s_get (S i). cbv zeta. unfold send, expect, sget.
  s_put (S i). s_put (S i).
  s_get (S (n + i)). rewrite teams_not_closed; cbv beta iota.
  rewrite (teams_roundtrip _ _ HqN HqE); cbv beta iota. rewrite Hside, String.eqb_refl; cbv beta iota. unfold csend.
  s_put (S (n + i)). s_put (S (n + i)).
  s_get (S i). rewrite ready_start_ok; cbv beta iota.
  apply reach_done. unfold started_view, cline, crecv, sget.
  split; [close_shape|]. split; [unf_acc; lkdone|]. split; [close_view|close_frame].
Qed.

(* ---------- the names in a full table ---------- *)
Lemma empty_partners : forall p t t', empty_table p = Some t -> empty_table (partner p) = Some t' -> t = t'.
Proof. intros p t t' H. discriminate H. Qed.
Lemma seated_team_in : forall reqs tbl p t, seat_requests reqs tbl p = Some t ->
  tbl p = Some t \/ exists a, In a reqs /\ a_team a = t.
Proof.
  induction reqs as [|b r IH]; intros tbl p t H; [left; exact H|].
  rewrite seat_requests_step in H. destruct (all_seated tbl); [left; exact H|].
  destruct (IH _ _ _ H) as [H1|(a & Ha & Ht)].
  - unfold step_table in H1. destruct (admission_error tbl (a_team b) (a_seat b) (a_version b)); [left; exact H1|].
    unfold tset in H1. destruct (seat_beq p (a_seat b)); [|left; exact H1].
    right. exists b. split; [left; reflexivity|congruence].
  - right. exists a. split; [right; exact Ha|exact Ht].
Qed.
Lemma names_no_quote reqs p : wf_requests reqs -> all_seated (seat_requests reqs empty_table) = true ->
  no_quote (names_of (seat_requests reqs empty_table) p).
Proof.
  intros Hwf AS. unfold names_of.
  destruct (seat_requests reqs empty_table p) as [t|] eqn:E; [|exfalso; exact (all_seated_some _ AS p E)].
  destruct (seated_team_in _ _ _ _ E) as [H|(a & Ha & <-)]; [discriminate H|].
  unfold wf_requests in Hwf. rewrite Forall_forall in Hwf. exact (Hwf a Ha).
Qed.
Lemma side_name reqs p t : seat_requests reqs empty_table p = Some t -> all_seated (seat_requests reqs empty_table) = true ->
  match side_of p with NS => names_of (seat_requests reqs empty_table) North | EW => names_of (seat_requests reqs empty_table) East end = t.
Proof.
  intros E AS. unfold names_of.
  pose proof (partners_share reqs empty_table empty_partners) as PS.
  destruct (seat_requests reqs empty_table North) as [tn|] eqn:EN; [|exfalso; exact (all_seated_some _ AS North EN)].
  destruct (seat_requests reqs empty_table East) as [te|] eqn:EE; [|exfalso; exact (all_seated_some _ AS East EE)].
  destruct p; cbn [side_of].
  - congruence.
  - congruence.
  - symmetry. apply (PS South t tn E). exact EN.
  - symmetry. apply (PS West t te E). exact EE.
Qed.

(* C20 continued to the point where SessionPassOut.startup stops: for request j with arrival a,
   turned away and not looked at: as in [admission_phase];
   seated: [started_view], i.e. the thread has passed the seating barrier (counter 1), read the table, sent the team line built
   from the final table, accepted "<seat> ready to start" and is about to send "Start of board" ([t_boards]); transcript down =
   [seated_line; teams_line], transcript up = [connection line; "<seat> ready for teams"; "<seat> ready to start"]; the client
   waits for "Start of board"; sockets and queues empty;
   main has passed the barrier (counter 1), logged LOpen and is at the board loop with the connection map and the names of the
   final table. *)
Theorem seating_phase : forall x : session,
  let reqs := s_arrivals x in
  let n := nconn x in
  let nb := length (s_boards x) in
  let T := seat_requests reqs empty_table in
  wf_requests reqs ->
  all_seated T = true ->
  reach (init_state x) (fun f =>
    pr f 0 = Some (wrap_open (s_interrupt x) n (boards_loop n (conn_map reqs) (names_of T) (s_boards x) 1)) /\
    (forall j a, nth_error reqs j = Some a ->
       (forall e, j < looked_at reqs empty_table ->
                  admission_error (table_before reqs j) (a_team a) (a_seat a) (a_version a) = Some e ->
                  loc n f j = turned_view a e) /\
       (j < looked_at reqs empty_table ->
        admission_error (table_before reqs j) (a_team a) (a_seat a) (a_version a) = None ->
        loc n f j = started_view n nb j a (script_of x j) (names_of T North) (names_of T East)) /\
       (looked_at reqs empty_table <= j -> loc n f j = waiting_view n nb j a (script_of x j))) /\
    gshape n [MLog LOpen] 1 f).
Proof.
  intros x reqs n nb T Hwf AS.
  destruct (table_seats_first_acceptable reqs AS North) as (jN & aN & HjN & HsN & LN & EN & TN & CN_ & UN).
  destruct (table_seats_first_acceptable reqs AS East) as (jE & aE & HjE & HsE & LE & EE & TE & CE_ & UE).
  destruct (table_seats_first_acceptable reqs AS South) as (jS & aS & HjS & HsS & LS & ES & TS & CS_ & US).
  destruct (table_seats_first_acceptable reqs AS West) as (jW & aW & HjW & HsW & LW & EW_ & TW & CW_ & UW).
  assert (BN : jN < n) by (apply nth_error_Some; fold reqs; congruence).
  assert (BE_ : jE < n) by (apply nth_error_Some; fold reqs; congruence).
  assert (BS : jS < n) by (apply nth_error_Some; fold reqs; congruence).
  assert (BW : jW < n) by (apply nth_error_Some; fold reqs; congruence).
  assert (DNE : jN <> jE) by (intros ->; congruence).
  assert (DNS : jN <> jS) by (intros ->; congruence).
  assert (DNW : jN <> jW) by (intros ->; congruence).
  assert (DES : jE <> jS) by (intros ->; congruence).
  assert (DEW : jE <> jW) by (intros ->; congruence).
  assert (DSW : jS <> jW) by (intros ->; congruence).
  pose proof (names_no_quote reqs North Hwf AS) as QN. pose proof (names_no_quote reqs East Hwf AS) as QE.
  fold T in TN, TE, TS, TW, QN, QE.
  assert (SN : match side_of (a_seat aN) with NS => names_of T North | EW => names_of T East end = a_team aN)
    by (rewrite HsN; exact (side_name reqs North _ TN AS)).
  assert (SE : match side_of (a_seat aE) with NS => names_of T North | EW => names_of T East end = a_team aE)
    by (rewrite HsE; exact (side_name reqs East _ TE AS)).
  assert (SS : match side_of (a_seat aS) with NS => names_of T North | EW => names_of T East end = a_team aS)
    by (rewrite HsS; exact (side_name reqs South _ TS AS)).
  assert (SW : match side_of (a_seat aW) with NS => names_of T North | EW => names_of T East end = a_team aW)
    by (rewrite HsW; exact (side_name reqs West _ TW AS)).
  eapply reach_trans; [exact (admission_phase x Hwf AS)|].
  intros f (Hm & Hl & Hsh). fold reqs n nb T in Hm, Hl, Hsh.
  rewrite wrap_after, CN_, CE_, CS_, CW_ in Hm.
  pose proof (proj1 (proj2 (Hl jN aN HjN)) LN EN) as VN.
  pose proof (proj1 (proj2 (Hl jE aE HjE)) LE EE) as VE.
  pose proof (proj1 (proj2 (Hl jS aS HjS)) LS ES) as VS.
  pose proof (proj1 (proj2 (Hl jW aW HjW)) LW EW_) as VW.
  eapply reach_trans.
  { exact (barrier_pass n nb T _ jN jE jS jW aN aE aS aW _ _ _ _ f BN BE_ BS BW DNE DNS DNW DES DEW DSW Hsh Hm VN VE VS VW). }
  intros f1 (Hsh1 & Hm1 & V1N & V1E & V1S & V1W & Ho1).
  eapply reach_trans; [exact (teams_one n nb jN aN _ T _ _ f1 BN Hsh1 V1N QN QE SN)|].
  intros f2 (Hsh2 & Hm2 & V2N & Ho2). unfold others_same in Ho2.
  rewrite <- (Ho2 jE BE_ (not_eq_sym DNE)) in V1E.
  eapply reach_trans; [exact (teams_one n nb jE aE _ T _ _ f2 BE_ Hsh2 V1E QN QE SE)|].
  intros f3 (Hsh3 & Hm3 & V3E & Ho3). unfold others_same in Ho3.
  rewrite <- (Ho2 jS BS (not_eq_sym DNS)), <- (Ho3 jS BS (not_eq_sym DES)) in V1S.
  eapply reach_trans; [exact (teams_one n nb jS aS _ T _ _ f3 BS Hsh3 V1S QN QE SS)|].
  intros f4 (Hsh4 & Hm4 & V4S & Ho4). unfold others_same in Ho4.
  rewrite <- (Ho2 jW BW (not_eq_sym DNW)), <- (Ho3 jW BW (not_eq_sym DEW)), <- (Ho4 jW BW (not_eq_sym DSW)) in V1W.
  eapply reach_trans; [exact (teams_one n nb jW aW _ T _ _ f4 BW Hsh4 V1W QN QE SW)|].
  intros f5 (Hsh5 & Hm5 & V5W & Ho5). unfold others_same in Ho5.
  apply reach_done.
  assert (FN : loc n f5 jN = started_view n nb jN aN (script_of x jN) (names_of T North) (names_of T East)).
  { rewrite (Ho5 jN BN DNW), (Ho4 jN BN DNS), (Ho3 jN BN DNE). exact V2N. }
  assert (FE : loc n f5 jE = started_view n nb jE aE (script_of x jE) (names_of T North) (names_of T East)).
  { rewrite (Ho5 jE BE_ DEW), (Ho4 jE BE_ DES). exact V3E. }
  assert (FS : loc n f5 jS = started_view n nb jS aS (script_of x jS) (names_of T North) (names_of T East)).
  { rewrite (Ho5 jS BS DSW). exact V4S. }
  assert (Rest : forall j, j < n -> j <> jN -> j <> jE -> j <> jS -> j <> jW -> loc n f5 j = loc n f j).
  { intros j Hj N1 N2 N3 N4. rewrite (Ho5 j Hj N4), (Ho4 j Hj N3), (Ho3 j Hj N2), (Ho2 j Hj N1). exact (Ho1 j Hj N1 N2 N3 N4). }
  split; [congruence|]. split; [|exact Hsh5].
  intros j a Hj. assert (Bj : j < n) by (apply nth_error_Some; fold reqs; congruence).
  destruct (Hl j a Hj) as (Hb & Hc & Hd).
  repeat split.
  - intros e L E. rewrite Rest; [exact (Hb e L E) | exact Bj | | | |]; intros ->; congruence.
  - intros L E.
    destruct (Nat.eq_dec j jN) as [->|N1]; [replace a with aN by congruence; exact FN|].
    destruct (Nat.eq_dec j jE) as [->|N2]; [replace a with aE by congruence; exact FE|].
    destruct (Nat.eq_dec j jS) as [->|N3]; [replace a with aS by congruence; exact FS|].
    destruct (Nat.eq_dec j jW) as [->|N4]; [replace a with aW by congruence; exact V5W|].
    exfalso.
    assert (Cases : a_seat a = North \/ a_seat a = East \/ a_seat a = South \/ a_seat a = West) by (destruct (a_seat a); auto).
    destruct Cases as [Sa|[Sa|[Sa|Sa]]].
    + exact (UN j a Hj Sa L N1 E).
    + exact (UE j a Hj Sa L N2 E).
    + exact (US j a Hj Sa L N3 E).
    + exact (UW j a Hj Sa L N4 E).
  - intros L. rewrite Rest; [exact (Hd L) | exact Bj | | | |]; lia.
Qed.

(* ---------- an instance: eight requests; wrong version, duplicate seat, team-name mismatch, four acceptable, one too late ---------- *)
Definition reqs8 : list arrival :=
  [ mkArr North "Lions" 17; mkArr North "Lions" 18; mkArr North "Tigers" 18; mkArr South "Tigers" 18;
    mkArr East "Bears" 18; mkArr South "Lions" 18; mkArr West "Bears" 18; mkArr East "Owls" 18 ].
Example premises_satisfiable :
  wf_requests reqs8 /\ all_seated (seat_requests reqs8 empty_table) = true /\ looked_at reqs8 empty_table = 7 /\
  map (outcome_of reqs8 empty_table) (seq 0 8) =
    [ Turned "ERROR: Protocol version is not 18 but 17."; Seated; Turned "ERROR: Player North is already seated.";
      Turned "ERROR: Team name ""Tigers"" is not same as partner's team name ""Lions""."; Seated; Seated; Seated; Waiting ] /\
  map (conn_map reqs8) all_seats = [1; 4; 5; 6] /\
  map (seat_requests reqs8 empty_table) all_seats = [Some "Lions"; Some "Bears"; Some "Lions"; Some "Bears"].
Proof. split; [repeat constructor|]. vm_compute. repeat split. Qed.
(* the theorem applied to it, for any boards, scripts and interrupt *)
Example admission_instance : forall boards scripts intr,
  let x := mkSession boards reqs8 scripts intr in
  reach (init_state x) (fun f =>
    pr f 0 = Some (wrap intr 8 (after_admission 8 boards (seat_requests reqs8 empty_table) (conn_map reqs8))) /\
    loc 8 f 0 = turned_view (mkArr North "Lions" 17) "ERROR: Protocol version is not 18 but 17." /\
    loc 8 f 1 = seated_view 8 (length boards) 1 (mkArr North "Lions" 18) (script_of x 1) /\
    loc 8 f 2 = turned_view (mkArr North "Tigers" 18) "ERROR: Player North is already seated." /\
    loc 8 f 3 = turned_view (mkArr South "Tigers" 18) "ERROR: Team name ""Tigers"" is not same as partner's team name ""Lions""." /\
    loc 8 f 6 = seated_view 8 (length boards) 6 (mkArr West "Bears" 18) (script_of x 6) /\
    loc 8 f 7 = waiting_view 8 (length boards) 7 (mkArr East "Owls" 18) (script_of x 7)).
Proof.
  intros boards scripts intr x.
  destruct premises_satisfiable as (Hwf & Hfull & Hla & _).
  eapply reach_trans; [exact (admission_phase x Hwf Hfull)|].
  intros f (Hm & Hl & _). apply reach_done. cbn [s_arrivals s_boards s_interrupt x] in Hm, Hl.
  change (nconn x) with 8 in Hm, Hl. rewrite Hla in Hl.
  split; [exact Hm|].
  split; [apply (proj1 (Hl 0 _ eq_refl)); [lia|reflexivity]|].
  split; [apply (proj1 (proj2 (Hl 1 _ eq_refl))); [lia|reflexivity]|].
  split; [apply (proj1 (Hl 2 _ eq_refl)); [lia|reflexivity]|].
  split; [apply (proj1 (Hl 3 _ eq_refl)); [lia|reflexivity]|].
  split; [apply (proj1 (proj2 (Hl 6 _ eq_refl))); [lia|reflexivity]|].
  apply (proj2 (proj2 (Hl 7 _ eq_refl))). lia.
Qed.

Example seating_instance : forall boards scripts intr,
  let x := mkSession boards reqs8 scripts intr in
  reach (init_state x) (fun f =>
    pr f 0 = Some (wrap_open intr 8 (boards_loop 8 (conn_map reqs8) (names_of (seat_requests reqs8 empty_table)) boards 1)) /\
    loc 8 f 0 = turned_view (mkArr North "Lions" 17) "ERROR: Protocol version is not 18 but 17." /\
    loc 8 f 5 = started_view 8 (length boards) 5 (mkArr South "Lions" 18) (script_of x 5) "Lions" "Bears" /\
    loc 8 f 7 = waiting_view 8 (length boards) 7 (mkArr East "Owls" 18) (script_of x 7) /\
    chn f (ch_log 8) = Some [MLog LOpen]).
Proof.
  intros boards scripts intr x.
  destruct premises_satisfiable as (Hwf & Hfull & Hla & _).
  eapply reach_trans; [exact (seating_phase x Hwf Hfull)|].
  intros f (Hm & Hl & Hsh). apply reach_done. cbn [s_arrivals s_boards s_interrupt x] in Hm, Hl.
  change (nconn x) with 8 in Hm, Hl, Hsh. rewrite Hla in Hl.
  split; [exact Hm|].
  split; [apply (proj1 (Hl 0 _ eq_refl)); [lia|reflexivity]|].
  split; [apply (proj1 (proj2 (Hl 5 _ eq_refl))); [lia|reflexivity]|].
  split; [apply (proj2 (proj2 (Hl 7 _ eq_refl))); lia|].
  destruct Hsh as (_ & _ & _ & _ & Hlog & _). exact Hlog.
Qed.

Print Assumptions admission_phase_any.
Print Assumptions admission_phase.
Print Assumptions table_seats_first_acceptable.
Print Assumptions seating_phase.
