(* Pins: the regular-expression literals the hand-written matchers were written against.
   Gen/Regexes.v is regenerated from the source on every run; if a pattern is edited the pin no longer
   holds by reflexivity and the differential run decides whether behaviour changed. *)
From Coq Require Import List String.
Import ListNotations.
From BE Require Import Gen.Regexes.
Local Open Scope string_scope.
Definition from_file (f : string) (l : list (string * string)) := filter (fun p => String.prefix f (fst p)) l.
Definition pinned_hands : list (string * string) :=
 [("hands.py:<module>.HAND_PATTERN"%string, "([2-9TJQKA]*).([2-9TJQKA]*).([2-9TJQKA]*).([2-9TJQKA]*)"%string);
  ("hands.py:<module>.HAND"%string, "[2-9TJQKA\.]{16}|-"%string);
  ("hands.py:<module>.DEAL_PATTERN"%string, "([NESW]):({}) ({}) ({}) ({})"%string)].
Definition pinned_wire : list (string * string) :=
 [("socket_interface.py:parse_bid.bid_pattern"%string, "{} bids (\d)(C|D|H|S|NT)"%string);
  ("socket_interface.py:parse_bid.pattern"%string, "{} (.*)"%string);
  ("socket_interface.py:parse_card.pattern"%string, "{} plays (.*)"%string);
  ("server.py:_check_message.pattern"%string, "expr:expected_message.replace(' ', '\\s+')"%string);
  ("server.py:parse_connection_info.pattern"%string, "Connecting ""(.*)"" as (.*) using protocol version (\d+)"%string);
  ("server.py:remove_alert_word.re.sub"%string, "\s+Alert\.\s*"%string);
  ("client.py:parse_team_names.pattern"%string, "Teams : N/S : ""(.*)"".? E/W : ""(.*)"""%string);
  ("client.py:parse_board.pattern"%string, "Board number (\d+)\. Dealer (.*)\. (.*) vulnerable\."%string);
  ("client.py:parse_cards.pattern"%string, "{}\'s cards : (.*)"%string);
  ("client.py:parse_hand.pattern"%string, "S (.*)\. H (.*)\. D (.*)\. C (.*)\.\s?"%string);
  ("client.py:parse_leader_message.pattern"%string, "(.*) to lead"%string);
  ("client.py:parse_timing.pattern"%string, "Timing - N/S : this board (*.), total (*.). E/W : this board (*.), total (.*)"%string)].
Definition pinned_pbn : list (string * string) :=
 [("parser.py:PbnParser.TAG_PATTERN"%string, "\[[ \t\r\n]*([A-Z][a-zA-Z]+)[ \t\r\n]+""([^""]*)""[ \t\r\n]*\]"%string);
  ("parser.py:PbnParser.REPLACE_PATTERN"%string, "[ \t\r\n]+"%string);
  ("parser.py:parse_stream.re.match"%string, "% PBN (\d+)\.(\d+)"%string);
  ("parser.py:parse_stream.re.match"%string, "% EXPORT"%string)].
Lemma pins_hands : from_file "hands.py" regexes = pinned_hands.
Proof. reflexivity. Qed.
Lemma pins_wire : (from_file "socket_interface.py" regexes ++ from_file "server.py" regexes ++ from_file "client.py" regexes)%list = pinned_wire.
Proof. reflexivity. Qed.
Lemma pins_pbn : from_file "parser.py" regexes = pinned_pbn.
Proof. reflexivity. Qed.
