(* The functions GENERATED from the text of the protocol message builders of bridge_env/network_bridge/server.py and
   client.py by harness/gen_text.py (Gen/TextFns.v) equal the builders of the hand-written model Model/Wire.v - for ALL
   arguments (C19: a protocol message means the same to both ends; C10: the transcripts).
   What each argument is:
     - g_hand_to_str h: h is the Set[Card] handed to Server.hand_to_str, a list of cards read as a set (only membership
       counts, duplicates and order do not; Model/Hands.v).  `sorted(list(hand), reverse=True)` is py_sorted_cards_desc
       (descending card index), and the four comprehensions over it are the model's suit_ranks (suit_list_eq).
     - g_convert_vul v: Some text, or None where Server.convert_vul raises; it never raises (g_convert_vul_eq), i.e. the
       trailing `raise ValueError` is dead for the four members of Vul.
     - g_board_header_run n d v: the first put(..) of Server.deal for board_number n (a natural number), dealer d,
       vulnerability v; None = building the text raises - never (g_board_header_run_eq); g_board_header is the text.
     - g_cards_line cards p: the second put(..) of Server.deal, cards : seat -> hand is the Hands object (pinned
       __getitem__), p the loop variable; the model's cards_line takes the formatted name and the hand.
     - g_seated_line p team: p = self.player, team = the local team_name of PlayerThread._connect.
     - g_teams_line names: names = self.team_names, the table Player -> Optional[str]; an entry None is written as
       "None" (py_fmt_opt), so the model's teams_line is applied to the formatted entries of North and East; when both
       are names (as they are once four players are seated) it is teams_line of these names (g_teams_line_seated).
     - g_connect_line team p: self.team_name and self.player of the client; the version is the class constant
       Client.PROTOCOL_VERSION = k_client_protocol_version = 18.
     - g_bid_message c name: Client.create_bid_message(bid, player_name); name is the already formatted player name.
     - g_card_str c: Client.card_str, rank then suit.
     - g_play_message_own p c / g_play_message_dummy p c: the two `.. plays ..` messages of Client.playing_phase, p =
       self.player, resp. the local dummy; both are the model's play_message p c false (rank-then-suit notation).
   The modelling assumptions, the shapes by which the message constructions are located and the pinned library text are
   listed in the header of harness/gen_text.py.  A change of the code of these builders changes Gen/TextFns.v and breaks
   one of these proofs (or the translator refuses the source). *)
From BE Require Import Model.Wire Gen.TextFns.
From BE Require Model.Hands.                 (* only for py_sorted_is_sorted_hand: the set-of-cards reading is the same *)
Local Open Scope string_scope.
Local Open Scope list_scope.
Local Open Scope nat_scope.
Local Infix "+++" := String.append (right associativity, at level 60).

(* Both sides are by now the same term, syntactically (up to bound names): no open-ended conversion, so that a proof
   that no longer holds fails at once. *)
Ltac same := lazymatch goal with |- ?a = ?b => constr_eq a b end; reflexivity.

(* ------------------------------------------------------------------ strings and lists *)
Lemma sapp_assoc : forall a b c : string, (a +++ b) +++ c = a +++ b +++ c.
Proof. induction a as [|x a IH]; intros b c; cbn [String.append]; [reflexivity | rewrite IH; reflexivity]. Qed.

Lemma filter_rev' {A} (f : A -> bool) : forall l, filter f (rev l) = rev (filter f l).
Proof.
  induction l as [|x l IH]; [reflexivity|]. cbn [rev filter]. rewrite filter_app, IH. cbn [filter].
  destruct (f x); [reflexivity | apply app_nil_r].
Qed.
Lemma filter_comm {A} (f g : A -> bool) : forall l, filter f (filter g l) = filter g (filter f l).
Proof.
  induction l as [|x l IH]; [reflexivity|]. cbn [filter].
  destruct (g x) eqn:Hg, (f x) eqn:Hf; cbn [filter]; rewrite ?Hg, ?Hf, IH; reflexivity.
Qed.
Lemma filter_of_map {A B} (g : A -> B) (f : B -> bool) : forall l, filter f (map g l) = map g (filter (fun x => f (g x)) l).
Proof. induction l as [|x l IH]; [reflexivity|]. cbn [map filter]. destruct (f (g x)); cbn [map]; rewrite IH; reflexivity. Qed.

(* ------------------------------------------------------------------ Server.hand_to_str *)
(* the cards of one suit among all cards, in index order: that suit with every rank, low to high *)
Lemma suit_cards : forall su, filter (fun c => suit_beq (csuit c) su) all_cards = map (fun r => mkcard r su) all_ranks.
Proof. intros []; reflexivity. Qed.

(* `[Card.rank_int_to_str(c.rank) for c in card_list if c.suit is Suit.X]` over the descending list is suit_ranks *)
Lemma suit_list_eq : forall h su,
  map (fun c => rank_str (crank c)) (filter (fun c => suit_beq (csuit c) su) (py_sorted_cards_desc h)) = suit_ranks h su.
Proof.
  intros h su. unfold py_sorted_cards_desc, py_sorted_cards, suit_ranks, ranks_desc.
  rewrite !filter_rev', filter_comm, suit_cards, filter_of_map, <- !map_rev, map_map. cbn [crank]. reflexivity.     (* eta: fun x => rank_str x *)
Qed.

(* `' '.join(l) if len(l) != 0 else '-'` *)
Lemma part_eq : forall h su,
  (if negb (List.length (suit_ranks h su) =? 0) then sjoin " " (suit_ranks h su) else "-") = suit_part h su.
Proof. intros h su. unfold suit_part. destruct (suit_ranks h su); reflexivity. Qed.

Theorem g_hand_to_str_eq : forall h, g_hand_to_str h = hand_to_str h.
Proof.
  intros h. unfold g_hand_to_str, hand_to_str. cbv zeta.
  rewrite !suit_list_eq, !part_eq, !sapp_assoc. same.
Qed.

(* the set-of-cards reading is the one of Model/Hands.v (JSON deal): the same function *)
Lemma py_sorted_is_sorted_hand : forall h, py_sorted_cards h = Hands.sorted_hand h.
Proof. reflexivity. Qed.
(* the sorted list holds exactly the cards of the set: `sorted` loses nothing and invents nothing *)
Lemma card_beq_true : forall a b, card_beq a b = true -> a = b.
Proof. intros a b H. apply internal_card_dec_bl. exact H. Qed.
Lemma card_beq_refl : forall a, card_beq a a = true.
Proof. intros a. apply internal_card_dec_lb. reflexivity. Qed.
Lemma all_cards_complete : forall c, In c all_cards.
Proof.
  intros [r s]. unfold all_cards. apply in_flat_map. exists s. split; [destruct s; cbn; tauto|].
  apply (in_map (fun r => mkcard r s)). destruct r; cbn; tauto.
Qed.
Theorem py_sorted_cards_desc_in : forall h c, In c (py_sorted_cards_desc h) <-> In c h.
Proof.
  intros h c. unfold py_sorted_cards_desc, py_sorted_cards. rewrite <- in_rev, filter_In, existsb_exists. split.
  - intros [_ [x [Hx Hc]]]. apply card_beq_true in Hc. subst x. exact Hx.
  - intros H. split; [apply all_cards_complete | exists c; split; [exact H | apply card_beq_refl]].
Qed.

(* ------------------------------------------------------------------ Server.convert_vul *)
Theorem g_convert_vul_eq : forall v, g_convert_vul v = Some (convert_vul v).
Proof. intros []; reflexivity. Qed.
Corollary g_convert_vul_never_raises : forall v, g_convert_vul v <> None.
Proof. intros v. rewrite g_convert_vul_eq. discriminate. Qed.

(* ------------------------------------------------------------------ Server.deal: the two messages of the loop *)
Theorem g_board_header_run_eq : forall n d v, g_board_header_run n d v = Some (board_header n d v).
Proof. intros n d v. unfold g_board_header_run, board_header. rewrite g_convert_vul_eq. same. Qed.
Theorem g_board_header_eq : forall n d v, g_board_header n d v = board_header n d v.
Proof. intros n d v. unfold g_board_header. rewrite g_board_header_run_eq. same. Qed.

Theorem g_cards_line_eq : forall (cards : seat -> list card) p, g_cards_line cards p = cards_line (formal_name p) (cards p).
Proof. intros cards p. unfold g_cards_line, cards_line. rewrite g_hand_to_str_eq. same. Qed.

(* ------------------------------------------------------------------ PlayerThread._connect *)
Theorem g_seated_line_eq : forall p team, g_seated_line p team = seated_line p team.
Proof. intros p team. unfold g_seated_line, seated_line. same. Qed.

Theorem g_teams_line_eq : forall names : seat -> option string,
  g_teams_line names = teams_line (py_fmt_opt (names North)) (py_fmt_opt (names East)).
Proof. intros names. unfold g_teams_line, teams_line. same. Qed.
Corollary g_teams_line_seated : forall (names : seat -> option string) ns ew,
  names North = Some ns -> names East = Some ew -> g_teams_line names = teams_line ns ew.
Proof. intros names ns ew Hn He. rewrite g_teams_line_eq, Hn, He. cbn [py_fmt_opt]. same. Qed.

(* ------------------------------------------------------------------ Client._connect *)
Theorem g_connect_line_eq : forall team p, g_connect_line team p = connect_line team p k_client_protocol_version.
Proof. intros team p. unfold g_connect_line, connect_line. same. Qed.
Theorem client_protocol_version_18 : k_client_protocol_version = 18.
Proof. reflexivity. Qed.

(* ------------------------------------------------------------------ Client.create_bid_message, card_str, the play messages *)
Theorem g_bid_message_eq : forall c name, g_bid_message c name = bid_message c name.
Proof. intros c name. unfold g_bid_message, bid_message. cbv zeta. destruct c; cbn [call_beq]; same. Qed.

Theorem g_card_str_eq : forall c, g_card_str c = card_rs c.
Proof. intros c. unfold g_card_str, card_rs. same. Qed.

Theorem g_play_message_own_eq : forall p c, g_play_message_own p c = play_message p c false.
Proof. intros p c. unfold g_play_message_own, play_message. rewrite g_card_str_eq. same. Qed.
Theorem g_play_message_dummy_eq : forall p c, g_play_message_dummy p c = play_message p c false.
Proof. intros p c. unfold g_play_message_dummy, play_message. rewrite g_card_str_eq. same. Qed.

(* ------------------------------------------------------------------ the pinned member names of Suit *)
Theorem suit_str_is_name : forall s : suit, In (s, suit_str s) py_names_Suit.
Proof. intros []; simpl; tauto. Qed.
Theorem names_Suit_complete : map fst py_names_Suit = all_suits.
Proof. reflexivity. Qed.

(* ------------------------------------------------------------------ examples, by computation on the generated code *)
Definition ex_hand : list card :=
  [mkcard R2 Cl; mkcard RA Sp; mkcard RT He; mkcard RK Sp; mkcard R9 He; mkcard RA Sp; mkcard RQ Cl].
Example ex_hand_to_str : g_hand_to_str ex_hand = "S A K. H T 9. D -. C Q 2.".
Proof. vm_compute. reflexivity. Qed.
Example ex_deal_messages :
  (g_board_header 12 West VNS, g_cards_line (fun p => match p with East => ex_hand | _ => [] end) East,
   g_cards_line (fun _ => []) South)
  = ("Board number 12. Dealer West. N/S vulnerable.", "East's cards : S A K. H T 9. D -. C Q 2.",
     "South's cards : S -. H -. D -. C -.").
Proof. vm_compute. reflexivity. Qed.
Example ex_connection :
  (g_connect_line "team A" South, g_seated_line South "team A",
   g_teams_line (fun p => match p with North | South => Some "team A" | East => Some "B" | West => None end))
  = ("Connecting ""team A"" as South using protocol version 18", "South team A seated",
     "Teams : N/S : ""team A"" E/W : ""B""").
Proof. vm_compute. reflexivity. Qed.
Example ex_client_messages :
  (g_bid_message (Bid L3 NT) "North", g_bid_message Pass "East", g_bid_message Dbl "South", g_bid_message Rdbl "West",
   g_play_message_own West (mkcard RT Di), g_play_message_dummy North (mkcard R7 Sp))
  = ("North bids 3NT", "East passes", "South doubles", "West redoubles", "West plays TD", "North plays 7S").
Proof. vm_compute. reflexivity. Qed.

Print Assumptions g_hand_to_str_eq.
Print Assumptions py_sorted_cards_desc_in.
Print Assumptions g_convert_vul_eq.
Print Assumptions g_convert_vul_never_raises.
Print Assumptions g_board_header_run_eq.
Print Assumptions g_board_header_eq.
Print Assumptions g_cards_line_eq.
Print Assumptions g_seated_line_eq.
Print Assumptions g_teams_line_eq.
Print Assumptions g_teams_line_seated.
Print Assumptions g_connect_line_eq.
Print Assumptions client_protocol_version_18.
Print Assumptions g_bid_message_eq.
Print Assumptions g_card_str_eq.
Print Assumptions g_play_message_own_eq.
Print Assumptions g_play_message_dummy_eq.
Print Assumptions suit_str_is_name.
Print Assumptions names_Suit_complete.
