(* The functions GENERATED from the text of bridge_env/data_handler/json_handler/writer.py and parser.py (Gen/JsonFns.v,
   harness/gen_jsonw.py) against the hand-written model of Model/Json.v.
   First part, writer.py: g_record_json / g_setting_json / g_deal_json - the value that JsonLogWriter.write /
   JsonBoardSettingWriter.write / convert_deal hand to json.dumps, read off the source (the keys, their order, the
   expression under each key, every attribute and member name and every None test come from the Python text) - EQUAL
   the model's record_json / setting_json / deal_json for ALL records, settings and deals, with no hypothesis.
   Also there: the enums whose __str__ is `return self.name` (pinned by the translator) - the model's seat_str and
   strain_str are exactly the member names listed in Gen/JsonFns.v; and what scoring.name would have written.
   Second part, parser.py: see the comment at its head (hypotheses for convert_board_log, and why).
   A change of the code changes Gen/JsonFns.v and breaks one of these proofs (or the translator refuses the source). *)
From BE Require Import Model.Json Gen.JsonFns.
Local Open Scope string_scope.
Local Open Scope list_scope.

(* Both sides are by now the same term, syntactically (up to bound names): no open-ended conversion, so that a
   proof that no longer holds fails at once. *)
Ltac same := lazymatch goal with |- ?a = ?b => constr_eq a b end; reflexivity.

(* ------------------------------------------------------------------ convert_deal *)
(* `[str(card) for card in sorted(deal[Player.X])]` is deal_to_json of that hand *)
Lemma g_hand_strs : forall h : hand, map (fun c => card_str c) (sorted_hand h) = deal_to_json h.
Proof. intros h. unfold deal_to_json. reflexivity. Qed.     (* eta *)

Theorem g_deal_json_eq : forall d : deal, g_deal_json d = deal_json d.
Proof. intros d. unfold g_deal_json, deal_json, jstrs. cbv zeta. rewrite !g_hand_strs. same. Qed.

(* ------------------------------------------------------------------ the dda block (the same text in both writers) *)
Lemma g_dda_eq : forall t : dda_table,
  JObj (map (fun '(p, row) => (seat_str p, JObj (map (fun '(s, n) => (strain_str s, JNum n)) row))) t) = dda_json t.
Proof. intros t. unfold dda_json. same. Qed.

(* ------------------------------------------------------------------ JsonBoardSettingWriter.write *)
Theorem g_setting_json_eq : forall s : setting, g_setting_json s = setting_json s.
Proof. intros s. unfold g_setting_json, setting_json. cbv zeta. rewrite g_deal_json_eq. unfold dda_json. same. Qed.

(* ------------------------------------------------------------------ JsonLogWriter.write *)
(* str(contract.declarer): the name of the seat, "None" for None *)
Lemma g_declarer_eq : forall k : contract,
  (if is_passed_out k then JNull else JStr (py_str_opt seat_str (cdeclarer k))) =
  (if is_passed_out k then JNull else match cdeclarer k with Some d => JStr (seat_str d) | None => JStr "None" end).
Proof. intros k. destruct (is_passed_out k); [same|]. unfold py_str_opt. destruct (cdeclarer k); same. Qed.

(* the play history: trick_history.leader / .cards are the two components of the pair *)
Lemma g_play_eq : forall o : option (list (seat * list card)),
  match o with
  | None => JNull
  | Some ts => JArr (map (fun th : seat * list card =>
                            JObj [("leader", JStr (seat_str (fst th)));
                                  ("cards", JArr (map JStr (map (fun c => card_str c) (snd th))))]) ts)
  end =
  match o with
  | None => JNull
  | Some ts => JArr (map (fun '(ld, cs) => JObj [("leader", JStr (seat_str ld)); ("cards", jstrs (map card_str cs))]) ts)
  end.
Proof. intros [ts|]; [|same]. f_equal. apply map_ext. intros [ld cs]. unfold jstrs. cbn [fst snd]. reflexivity. Qed.     (* eta *)

(* `[str(bid) for bid in bid_history]` *)
Lemma g_bids_eq : forall l : list call, map (fun b => call_str b) l = map call_str l.
Proof. reflexivity. Qed.     (* eta *)

Theorem g_record_json_eq : forall r : logrec, g_record_json r = record_json r.
Proof.
  intros r. unfold g_record_json, record_json, py_scoring_value. cbv zeta. cbv beta iota.
  rewrite g_deal_json_eq, g_declarer_eq, g_play_eq, g_bids_eq. unfold dda_json, jstrs. same.
Qed.

(* ------------------------------------------------------------------ the pinned `return self.name` *)
(* Player.__str__ and Suit.__str__ return the member name: seat_str / strain_str are those names, on every member *)
Theorem seat_str_is_name : forall p : seat, In (p, seat_str p) py_names_Player.
Proof. intros []; simpl; tauto. Qed.
Theorem strain_str_is_name : forall s : strain, In (s, strain_str s) py_names_Suit.
Proof. intros [[]|]; simpl; tauto. Qed.
Theorem names_Player_complete : map fst py_names_Player = all_seats.
Proof. reflexivity. Qed.
Theorem names_Suit_complete : map fst py_names_Suit = all_strains.
Proof. reflexivity. Qed.

(* ------------------------------------------------------------------ scoring.value against scoring.name *)
(* the record stores the value of the Scoring member; .value writes it as it is ... *)
Theorem scoring_value_stored : forall v, py_scoring_value v = v.
Proof. reflexivity. Qed.
(* ... while .name would write something else for MatchPoints, Cavendish, Chicago, Rubber, Instant: had the source
   `scoring.name`, g_record_json would contain py_scoring_name and g_record_json_eq would be false *)
Example scoring_name_differs :
  map py_scoring_name (map snd py_scoring_members) = map fst py_scoring_members /\
  py_scoring_name "MatchPoints" <> py_scoring_value "MatchPoints".
Proof. split; [reflexivity | discriminate]. Qed.

(* ------------------------------------------------------------------ non-vacuity: concrete values, computed *)
Definition ex_deal : deal := fun p =>
  match p with
  | North => [mkcard RA Sp; mkcard R2 Cl; mkcard RT He]
  | East => [mkcard RK Di]
  | South => []
  | West => [mkcard R3 Cl; mkcard R2 Cl]
  end.
Definition ex_contract : contract := mkcontract (Some (L3, NT)) true false VNS (Some South).
Definition ex_log : logrec :=
  mkLog (fun p => match p with North => "n" | East => "e" | South => "s" | West => "w" end) "b1" East ex_deal
        [Bid L1 (Tr Cl); Pass; Bid L3 NT; Dbl; Pass; Pass; Pass] ex_contract
        (Some [(West, [mkcard R2 Cl; mkcard RA Sp]); (North, [mkcard RK Di])]) (Some 9%Z) "MatchPoints" 750%Z (-750)%Z
        (Some [(North, [(Tr Cl, 7%Z); (NT, 9%Z)]); (West, [])]).

Example ex_deal_json :
  g_deal_json ex_deal =
  JObj [("N", JArr [JStr "C2"; JStr "HT"; JStr "SA"]); ("E", JArr [JStr "DK"]); ("S", JArr []);
        ("W", JArr [JStr "C2"; JStr "C3"])].
Proof. vm_compute. reflexivity. Qed.

Example ex_record_json :
  g_record_json ex_log =
  JObj [("players", JObj [("N", JStr "n"); ("E", JStr "e"); ("S", JStr "s"); ("W", JStr "w")]);
        ("board_id", JStr "b1"); ("dealer", JStr "E");
        ("deal", JObj [("N", JArr [JStr "C2"; JStr "HT"; JStr "SA"]); ("E", JArr [JStr "DK"]); ("S", JArr []);
                       ("W", JArr [JStr "C2"; JStr "C3"])]);
        ("vulnerability", JStr "NS");
        ("bid_history", JArr [JStr "1C"; JStr "Pass"; JStr "3NT"; JStr "X"; JStr "Pass"; JStr "Pass"; JStr "Pass"]);
        ("contract", JStr "3NTX"); ("declarer", JStr "S");
        ("play_history", JArr [JObj [("leader", JStr "W"); ("cards", JArr [JStr "C2"; JStr "SA"])];
                               JObj [("leader", JStr "N"); ("cards", JArr [JStr "DK"])]]);
        ("taken_trick", JNum 9); ("score_type", JStr "MatchPoints");
        ("scores", JObj [("NS", JNum 750); ("EW", JNum (-750))]);
        ("dda", JObj [("N", JObj [("C", JNum 7); ("NT", JNum 9)]); ("W", JObj [])])].
Proof. vm_compute. reflexivity. Qed.

(* a passed-out board without play, trick count or dda: the three None branches *)
Example ex_record_passed_out :
  g_record_json (mkLog (fun _ => "x") "b2" North (fun _ => []) [Pass; Pass; Pass; Pass]
                       (mkcontract None false false VNone None) None None "IMP" 0%Z 0%Z None) =
  JObj [("players", JObj [("N", JStr "x"); ("E", JStr "x"); ("S", JStr "x"); ("W", JStr "x")]);
        ("board_id", JStr "b2"); ("dealer", JStr "N");
        ("deal", JObj [("N", JArr []); ("E", JArr []); ("S", JArr []); ("W", JArr [])]);
        ("vulnerability", JStr "None"); ("bid_history", JArr [JStr "Pass"; JStr "Pass"; JStr "Pass"; JStr "Pass"]);
        ("contract", JStr "Passed_out"); ("declarer", JNull); ("play_history", JNull); ("taken_trick", JNull);
        ("score_type", JStr "IMP"); ("scores", JObj [("NS", JNum 0); ("EW", JNum 0)])].
Proof. vm_compute. reflexivity. Qed.

Example ex_setting_json :
  g_setting_json (mkSetting "b3" West ex_deal VBoth (Some [(South, [(Tr He, 4%Z)])])) =
  JObj [("board_id", JStr "b3"); ("dealer", JStr "W");
        ("deal", JObj [("N", JArr [JStr "C2"; JStr "HT"; JStr "SA"]); ("E", JArr [JStr "DK"]); ("S", JArr []);
                       ("W", JArr [JStr "C2"; JStr "C3"])]);
        ("vulnerability", JStr "Both"); ("dda", JObj [("S", JObj [("H", JNum 4)])])].
Proof. vm_compute. reflexivity. Qed.

(* ====================================================================================================== parser.py
   The functions generated from bridge_env/data_handler/json_handler/parser.py against Model/Json.v.
   The generated functions keep a value the code only passes on (board_id, taken_trick, score_type, the names of the
   players, the scores, the numbers of the dda table) as the json it is, in the records py_setting / py_log; the model
   types them (a string, an integer, ..).  shape_setting / shape_log below are that typed view, and the theorems are
     py_bind (g_deal_of_json j) Some = deal_of_json j   (as g_deal_of_json j = deal_of_json j),
     py_bind (g_setting_of_json j) shape_setting = setting_of_json j                       for ALL j,
     py_bind (g_log_of_json j) shape_log = log_of_json j    for the j in which the key play_history is present and the
       keys of the objects under players / scores are names of Player / Pair members (log_written j):
       the model describes a log in the shape JsonLogWriter writes it, the code accepts a log without play_history
       (None) and raises on a player key that is no member, where the model looks at N, E, S, W only;
       every record_json r satisfies log_written (written_log_ok),
     and the two parse_* loops, element-wise. *)
(* E[name]: the model's *_of_str are the look-up by member name in the pinned member lists *)
Lemma eqb_eq' a b : String.eqb a b = true -> a = b. Proof. apply String.eqb_eq. Qed.
Theorem member_Player : forall s, py_member py_names_Player s = seat_of_str s.
Proof. intros s. unfold py_member, py_names_Player, seat_of_str. cbn [find snd fst option_map].
  repeat (destruct (String.eqb s _); [reflexivity|]). reflexivity. Qed.
Theorem member_Pair : forall s, py_member py_names_Pair s = side_of_str s.
Proof. intros s. unfold py_member, py_names_Pair, side_of_str. cbn [find snd fst option_map].
  repeat (destruct (String.eqb s _); [reflexivity|]). reflexivity. Qed.
Theorem member_Suit : forall s, py_member py_names_Suit s = strain_of_str s.
Proof. intros s. unfold py_member, py_names_Suit, strain_of_str, suit_of_str. cbn [find snd fst option_map].
  destruct (String.eqb s "NT") eqn:E; [apply eqb_eq' in E; subst s; reflexivity|].
  destruct (String.eqb s "C"); [reflexivity|]. destruct (String.eqb s "D"); [reflexivity|].
  destruct (String.eqb s "H"); [reflexivity|]. destruct (String.eqb s "S"); reflexivity. Qed.

(* {Card.str_to_card(card) for card in L} *)
Lemma g_cards_eq : forall ss, map_opt (fun c => card_of_str c) ss = json_to_hand ss.
Proof. induction ss as [|s r IH]; [reflexivity|]. cbn [map_opt json_to_hand]. rewrite IH. reflexivity. Qed.

Theorem g_deal_of_json_eq : forall j, g_deal_of_json j = deal_of_json j.
Proof.
  intros j. unfold g_deal_of_json, deal_of_json.
  Local Ltac hand_step j k :=
    destruct (field k j) as [[| | | |?l|]|]; cbn [hand_of_json py_list_str]; try reflexivity;
    match goal with |- context [strs_of ?l] => destruct (strs_of l) as [?ss|]; [|reflexivity] end;
    rewrite g_cards_eq;
    match goal with |- context [json_to_hand ?ss] => destruct (json_to_hand ss); [|reflexivity] end.
  hand_step j "N". hand_step j "E". hand_step j "S". hand_step j "W". reflexivity.
Qed.

(* ------------------------------------------------------------------ the typed view of what the parser only passes on *)
Definition py_bind {A B : Type} (o : option A) (f : A -> option B) : option B :=
  match o with Some x => f x | None => None end.
Definition shape_row (row : list (strain * json)) : option (list (strain * Z)) :=
  map_opt (fun '(s, n) => match n with JNum z => Some (s, z) | _ => None end) row.
Definition shape_dda (t : list (seat * list (strain * json))) : option dda_table :=
  map_opt (fun '(p, row) => option_map (pair p) (shape_row row)) t.
Definition shape_odda (o : option (list (seat * list (strain * json)))) : option (option dda_table) :=
  match o with None => Some None | Some t => option_map Some (shape_dda t) end.
Definition shape_setting (ps : py_setting) : option setting :=
  match ps_board_id ps, shape_odda (ps_dda ps) with
  | JStr b, Some d => Some (mkSetting b (ps_dealer ps) (ps_hands ps) (ps_vul ps) d)
  | _, _ => None end.

Lemma g_row_eq : forall r,
  py_bind (map_opt (fun '(s, n) => match py_member py_names_Suit s with None => None | Some y => Some (y, n) end) r) shape_row
  = dda_row r.
Proof.
  induction r as [|[k v] r IH]; [reflexivity|].
  cbn [map_opt]. rewrite member_Suit.
  assert (Hd : dda_row ((k, v) :: r) = match v with JNum n => match strain_of_str k, dda_row r with
            | Some s, Some rr => Some ((s, n) :: rr) | _, _ => None end | _ => None end) by (destruct v; reflexivity).
  rewrite Hd. clear Hd.
  destruct (map_opt _ r) as [ys|]; cbn [py_bind] in IH.
  - destruct (strain_of_str k) as [s|]; [|destruct v; reflexivity].
    cbn [py_bind]. unfold shape_row in *. cbn [map_opt]. rewrite IH. destruct v; reflexivity.
  - rewrite <- IH. destruct (strain_of_str k); destruct v; reflexivity.
Qed.

Lemma g_dda_of_eq : forall t,
  py_bind (map_opt (fun '(p, d) =>
             match py_member py_names_Player p with
             | None => None
             | Some x => match py_items d with
                         | None => None
                         | Some r => match map_opt (fun '(s, n) => match py_member py_names_Suit s with
                                                                   | None => None | Some y => Some (y, n) end) r with
                                     | None => None
                                     | Some z => Some (x, z) end end end) t) shape_dda
  = dda_of t.
Proof.
  induction t as [|[k v] t IH]; [reflexivity|].
  cbn [map_opt]. rewrite member_Player.
  assert (Hd : dda_of ((k, v) :: t) = match v with JObj row => match seat_of_str k, dda_row row, dda_of t with
            | Some p, Some rw, Some rr => Some ((p, rw) :: rr) | _, _, _ => None end | _ => None end) by (destruct v; reflexivity).
  rewrite Hd. clear Hd.
  destruct (map_opt _ t) as [ys|]; cbn [py_bind] in IH.
  - destruct (seat_of_str k) as [p|]; [|destruct v; reflexivity].
    destruct v as [| | | | |row]; try reflexivity. cbn [py_items].
    pose proof (g_row_eq row) as Hr. destruct (map_opt _ row) as [z|]; cbn [py_bind] in Hr.
    + cbn [py_bind]. unfold shape_dda in *. cbn [map_opt]. rewrite Hr, IH.
      destruct (dda_row row); reflexivity.
    + rewrite <- Hr. reflexivity.
  - rewrite <- IH. transitivity (@None dda_table).
    + destruct (seat_of_str k); [|reflexivity].
      match goal with |- py_bind (match ?X with _ => _ end) _ = _ => destruct X end; reflexivity.
    + destruct v; try reflexivity. destruct (seat_of_str k); [destruct (dda_row _)|]; reflexivity.
Qed.

(* the scrutinee on which the evaluation of t is stuck; fails when t is not stuck on a match *)
Ltac scrut t :=
  lazymatch t with
  | match ?X with _ => _ end => scrut_in X
  | py_bind ?o _ => scrut_in o
  | option_map _ ?o => scrut_in o
  end
with scrut_in X :=
  lazymatch X with
  | match _ with _ => _ end => scrut X
  | py_bind _ _ => scrut X
  | option_map _ _ => scrut X
  | Some _ => fail
  | None => fail
  | _ => X
  end.
Ltac norm := cbn [py_bind py_has py_lookup py_items py_list py_list_str py_is_none as_str negb option_map
                  shape_setting shape_odda ps_board_id ps_dda ps_hands ps_dealer ps_vul].
Ltac tidy :=
  repeat match goal with
  | H : as_str _ = _ |- _ => progress cbn [as_str] in H
  | H : py_items _ = _ |- _ => progress cbn [py_items] in H
  | H : py_list _ = _ |- _ => progress cbn [py_list] in H
  | H : py_list_str _ = _ |- _ => progress cbn [py_list_str] in H
  | H : None = Some _ |- _ => discriminate H
  | H : Some _ = None |- _ => discriminate H
  | H : Some ?a = Some ?b |- _ => injection H as H; try subst a; try subst b
  end.
Ltac step :=
  norm; tidy;
  try match goal with H : map_opt _ ?t = _ |- context [dda_of ?t] => rewrite <- (g_dda_of_eq t), H; norm end;
  first [ reflexivity | congruence
        | lazymatch goal with |- ?A = ?B =>
            first [let x := scrut A in destruct x eqn:? | let x := scrut B in destruct x eqn:?] end ].

Theorem g_setting_of_json_eq : forall j, py_bind (g_setting_of_json j) shape_setting = setting_of_json j.
Proof.
  intros j. unfold g_setting_of_json, setting_of_json, py_has, py_lookup. cbv zeta.
  repeat (rewrite ?member_Player, ?g_deal_of_json_eq; step).
Qed.

(* ------------------------------------------------------------------ the loops *)
Lemma map_opt_bind : forall {A B C : Type} (f : A -> option B) (g : B -> option C) l,
  py_bind (map_opt f l) (map_opt g) = map_opt (fun x => py_bind (f x) g) l.
Proof.
  induction l as [|x r IH]; [reflexivity|]. cbn [map_opt]. rewrite <- IH.
  destruct (f x) as [y|]; [|reflexivity]. cbn [py_bind].
  destruct (map_opt f r) as [ys|]; cbn [py_bind map_opt]; [reflexivity|]. destruct (g y); reflexivity.
Qed.
Lemma map_opt_ext : forall {A B : Type} (f g : A -> option B) l, (forall x, f x = g x) -> map_opt f l = map_opt g l.
Proof. intros A B f g l H. induction l as [|x r IH]; [reflexivity|]. cbn [map_opt]. rewrite H, IH. reflexivity. Qed.
Lemma bind_some : forall {A : Type} (o : option A), match o with None => None | Some x => Some x end = o.
Proof. intros A [x|]; reflexivity. Qed.

Theorem g_parse_board_settings_eq : forall doc,
  py_bind (g_parse_board_settings doc) (map_opt shape_setting) = parse_board_settings doc.
Proof.
  intros doc. unfold g_parse_board_settings, parse_board_settings, py_has. cbv zeta.
  assert (L : forall l, py_bind (match map_opt (fun v_d => g_setting_of_json v_d) l with None => None | Some x => Some x end)
                                (map_opt shape_setting) = map_opt setting_of_json l).
  { intros l. rewrite bind_some, map_opt_bind. apply map_opt_ext. intros x. apply g_setting_of_json_eq. }
  destruct (field "logs" doc) as [[| | | |l|]|]; cbn [py_list py_bind]; try reflexivity; [apply L|].
  destruct (field "board_settings" doc) as [[| | | |l|]|]; cbn [py_list py_bind]; try reflexivity. apply L.
Qed.

(* ------------------------------------------------------------------ convert_board_log *)
(* [Bid.str_to_bid(bid) for bid in L] *)
Lemma g_bids_of_eq : forall l,
  map_opt (fun v_bid => match as_str v_bid with None => None | Some s => call_of_str s end) l =
  match strs_of l with Some ss => calls_of ss | None => None end.
Proof.
  induction l as [|x r IH]; [reflexivity|]. cbn [map_opt strs_of]. rewrite IH.
  destruct x; cbn [as_str]; try reflexivity.
  destruct (strs_of r) as [ss|]; cbn [option_map calls_of]; [reflexivity|]. destruct (call_of_str s); reflexivity.
Qed.
(* [Card.str_to_card(x) for x in L] *)
Lemma g_cards_of_eq : forall l,
  map_opt (fun v_x => match as_str v_x with None => None | Some s => card_of_str s end) l =
  match strs_of l with Some ss => cards_of ss | None => None end.
Proof.
  induction l as [|x r IH]; [reflexivity|]. cbn [map_opt strs_of]. rewrite IH.
  destruct x; cbn [as_str]; try reflexivity.
  destruct (strs_of r) as [ss|]; cbn [option_map cards_of]; [reflexivity|]. destruct (card_of_str s); reflexivity.
Qed.
(* [TrickHistory(leader=Player[b['leader']], cards=tuple([..])) for b in L] *)
Lemma g_tricks_of_eq : forall l,
  map_opt (fun v_b =>
     match field "leader" v_b with
     | None => None
     | Some x1 =>
         match py_lookup py_names_Player x1 with
         | None => None
         | Some x2 =>
             match field "cards" v_b with
             | None => None
             | Some x3 =>
                 match py_list x3 with
                 | None => None
                 | Some x4 =>
                     match map_opt (fun v_x => match as_str v_x with None => None | Some s => card_of_str s end) x4 with
                     | None => None
                     | Some x5 => Some (x2, x5) end end end end end) l = tricks_of l.
Proof.
  induction l as [|t r IH]; [reflexivity|]. cbn [map_opt tricks_of]. rewrite IH. clear IH.
  destruct (field "leader" t) as [[| | |ld| |]|]; cbn [py_lookup]; try reflexivity.
  rewrite member_Player.
  destruct (field "cards" t) as [[| | | |cs|]|]; cbn [py_list]; try (destruct (seat_of_str ld); reflexivity).
  rewrite g_cards_of_eq.
  destruct (seat_of_str ld); [|reflexivity]. destruct (strs_of cs) as [ss|]; [|reflexivity]. destruct (cards_of ss); reflexivity.
Qed.

(* a dict built by a comprehension, as the list of its (key, value) pairs in order: the last binding of a key wins *)
Fixpoint assoc {K V : Type} (eqb : K -> K -> bool) (k : K) (l : list (K * V)) : option V :=
  match l with
  | [] => None
  | (k', v) :: r => match assoc eqb k r with Some v' => Some v' | None => if eqb k k' then Some v else None end
  end.
Lemma eqb_sym' a b : String.eqb a b = String.eqb b a. Proof. apply String.eqb_sym. Qed.
Lemma seat_key : forall q p x, seat_of_str p = Some x -> seat_beq q x = String.eqb (seat_str q) p.
Proof.
  intros q p x. unfold seat_of_str.
  repeat lazymatch goal with |- (if String.eqb p ?c then _ else _) = _ -> _ =>
    let E := fresh "E" in destruct (String.eqb p c) eqn:E;
    [apply eqb_eq' in E; subst p; let Hx := fresh "Hx" in intros Hx; injection Hx as <-; destruct q; reflexivity|] end.
  discriminate.
Qed.
Lemma side_key : forall q p x, side_of_str p = Some x -> side_beq q x = String.eqb (side_str q) p.
Proof.
  intros q p x. unfold side_of_str.
  repeat lazymatch goal with |- (if String.eqb p ?c then _ else _) = _ -> _ =>
    let E := fresh "E" in destruct (String.eqb p c) eqn:E;
    [apply eqb_eq' in E; subst p; let Hx := fresh "Hx" in intros Hx; injection Hx as <-; destruct q; reflexivity|] end.
  discriminate.
Qed.

Definition keys_in {A : Type} (f : string -> option A) (o : option json) : Prop :=
  match o with Some (JObj l) => forall k v, In (k, v) l -> f k <> None | _ => True end.

Lemma g_players_total : forall l, (forall k v, In (k, v) l -> seat_of_str k <> None) ->
  exists al, map_opt (fun '(v_p, v_name) => match py_member py_names_Player v_p with
                                           | None => None | Some x => Some (x, v_name) end) l = Some al
             /\ forall q, assoc seat_beq q al = lookup (seat_str q) l.
Proof.
  induction l as [|[k v] r IH]; intros Hk; [exists []; split; reflexivity|].
  destruct IH as [al [E Hal]]; [intros k' v' Hin; apply (Hk k' v'); right; exact Hin|].
  cbn [map_opt]. rewrite member_Player, E.
  destruct (seat_of_str k) as [x|] eqn:Ex; [|exfalso; apply (Hk k v); [left; reflexivity | exact Ex]].
  exists ((x, v) :: al). split; [reflexivity|]. intros q. cbn [assoc lookup]. rewrite Hal, (seat_key q k x Ex). reflexivity.
Qed.
Lemma g_scores_total : forall l, (forall k v, In (k, v) l -> side_of_str k <> None) ->
  exists al, map_opt (fun '(v_p, v_s) => match py_member py_names_Pair v_p with
                                        | None => None | Some x => Some (x, v_s) end) l = Some al
             /\ forall q, assoc side_beq q al = lookup (side_str q) l.
Proof.
  induction l as [|[k v] r IH]; intros Hk; [exists []; split; reflexivity|].
  destruct IH as [al [E Hal]]; [intros k' v' Hin; apply (Hk k' v'); right; exact Hin|].
  cbn [map_opt]. rewrite member_Pair, E.
  destruct (side_of_str k) as [x|] eqn:Ex; [|exfalso; apply (Hk k v); [left; reflexivity | exact Ex]].
  exists ((x, v) :: al). split; [reflexivity|]. intros q. cbn [assoc lookup]. rewrite Hal, (side_key q k x Ex). reflexivity.
Qed.

(* the typed view of a BoardLog: the record as it was written *)
Definition shape_taken (j : json) : option (option Z) :=
  match j with JNull => Some None | JNum n => Some (Some n) | _ => None end.
Definition shape_players (al : list (seat * json)) : option (seat -> string) :=
  match assoc seat_beq North al, assoc seat_beq East al, assoc seat_beq South al, assoc seat_beq West al with
  | Some (JStr n), Some (JStr e), Some (JStr s), Some (JStr w) =>
      Some (fun p => match p with North => n | East => e | South => s | West => w end)
  | _, _, _, _ => None end.
Definition shape_scores (al : list (side * json)) : option (Z * Z) :=
  match assoc side_beq NS al, assoc side_beq EW al with Some (JNum a), Some (JNum b) => Some (a, b) | _, _ => None end.
(* a BoardLog carries vul and declarer twice, on its own and inside its contract: the typed view wants them equal *)
Definition oseat_beq (a b : option seat) : bool :=
  match a, b with Some x, Some y => seat_beq x y | None, None => true | _, _ => false end.
Definition shape_log (bl : py_log) : option logrec :=
  if vul_beq (pl_vul bl) (cvul (pl_contract bl)) && oseat_beq (pl_declarer bl) (cdeclarer (pl_contract bl)) then
    match pl_board_id bl, shape_odda (pl_dda bl), shape_taken (pl_taken_trick bl), pl_players bl, pl_bid_history bl,
          pl_score_type bl, pl_scores bl with
    | JStr b, Some dda, Some tk, Some pal, Some bids, Some (JStr sc), Some sal =>
        match shape_players pal, shape_scores sal with
        | Some pl, Some (a, b') =>
            Some (mkLog pl b (pl_dealer bl) (pl_hands bl) bids (pl_contract bl) (pl_play_history bl) tk sc a b' dda)
        | _, _ => None end
    | _, _, _, _, _, _, _ => None end
  else None.
Lemma vul_beq_refl : forall v, vul_beq v v = true. Proof. intros []; reflexivity. Qed.
Lemma oseat_beq_refl : forall o, oseat_beq o o = true. Proof. intros [[]|]; reflexivity. Qed.
(* Contract.str_to_contract stores the vul and the declarer it is given *)
Lemma contract_fields : forall s v d k, contract_of_str s v d = Some k -> cvul k = v /\ cdeclarer k = d.
Proof.
  intros s v d k H. unfold contract_of_str in H.
  repeat match type of H with
         | context [if ?x then _ else _] => destruct x
         | context [match ?x with _ => _ end] => destruct x; try discriminate H
         end.
  all: try discriminate H. all: injection H as <-; split; reflexivity.
Qed.

Lemma as_str_inv : forall x s, as_str x = Some s -> x = JStr s.
Proof. intros x s0 H; destruct x; try discriminate H. injection H as ->. reflexivity. Qed.
Lemma py_items_inv : forall x l, py_items x = Some l -> x = JObj l.
Proof. intros x l0 H; destruct x; try discriminate H. injection H as ->. reflexivity. Qed.
Lemma py_list_inv : forall x l, py_list x = Some l -> x = JArr l.
Proof. intros x l0 H; destruct x; try discriminate H. injection H as ->. reflexivity. Qed.
Lemma py_is_none_inv : forall x, py_is_none x = true -> x = JNull.
Proof. intros x H; destruct x; try discriminate H. reflexivity. Qed.
(* the dict {Player[p]: name for p, name in D.items()} and the document: the same look-up *)
Lemma g_players_assoc : forall l al,
  map_opt (fun '(v_p, v_name) => match py_member py_names_Player v_p with
                                 | None => None | Some x => Some (x, v_name) end) l = Some al ->
  forall q, assoc seat_beq q al = lookup (seat_str q) l.
Proof.
  induction l as [|[k v] r IH]; intros al H q; cbn [map_opt] in H; [injection H as <-; reflexivity|].
  rewrite member_Player in H. destruct (seat_of_str k) as [x|] eqn:Ex; [|discriminate H].
  destruct (map_opt _ r) as [al'|]; [|discriminate H]. injection H as <-.
  cbn [assoc lookup]. rewrite (IH al' eq_refl q), (seat_key q k x Ex). reflexivity.
Qed.
Lemma g_scores_assoc : forall l al,
  map_opt (fun '(v_p, v_s) => match py_member py_names_Pair v_p with
                              | None => None | Some x => Some (x, v_s) end) l = Some al ->
  forall q, assoc side_beq q al = lookup (side_str q) l.
Proof.
  induction l as [|[k v] r IH]; intros al H q; cbn [map_opt] in H; [injection H as <-; reflexivity|].
  rewrite member_Pair in H. destruct (side_of_str k) as [x|] eqn:Ex; [|discriminate H].
  destruct (map_opt _ r) as [al'|]; [|discriminate H]. injection H as <-.
  cbn [assoc lookup]. rewrite (IH al' eq_refl q), (side_key q k x Ex). reflexivity.
Qed.

Lemma option_eq_by_cases : forall {A : Type} (a b : option A),
  (forall r, a = Some r -> b = Some r) -> (forall r, b = Some r -> a = Some r) -> a = b.
Proof.
  intros A [x|] [y|] H1 H2; try reflexivity.
  - symmetry. apply H1. reflexivity.
  - specialize (H1 x eq_refl). discriminate H1.
  - specialize (H2 y eq_refl). discriminate H2.
Qed.

Ltac norm2 :=
  cbv delta [shape_log shape_setting shape_odda shape_taken shape_players shape_scores]; cbv beta;
  cbn [py_bind py_lookup py_items py_list py_list_str py_is_none as_str negb option_map field
       ps_board_id ps_dda ps_hands ps_dealer ps_vul
       pl_board_id pl_hands pl_dealer pl_vul pl_declarer pl_contract pl_taken_trick pl_players pl_bid_history
       pl_play_history pl_dda pl_score_type pl_scores s_board_id s_dealer s_deal s_vul s_dda seat_str side_str].
Ltac use_dicts :=
  repeat match goal with
  | Hk : (forall k v, In (k, v) ?l -> seat_of_str k <> None) |- context [map_opt _ ?l] =>
      let al := fresh "al" in let E := fresh "E" in let Hal := fresh "Hal" in
      destruct (g_players_total l Hk) as [al [E Hal]]; rewrite E; clear Hk
  | Hk : (forall k v, In (k, v) ?l -> side_of_str k <> None) |- context [map_opt _ ?l] =>
      let al := fresh "al" in let E := fresh "E" in let Hal := fresh "Hal" in
      destruct (g_scores_total l Hk) as [al [E Hal]]; rewrite E; clear Hk
  | H : forall q, assoc _ q ?al = _ |- context [assoc _ _ ?al] => rewrite !H
  end.
Ltac lemmas := rewrite ?member_Player, ?g_bids_of_eq, ?g_tricks_of_eq, ?vul_beq_refl, ?oseat_beq_refl; cbn [andb]; use_dicts.
Ltac tidy2 :=
  repeat match goal with
  | H : as_str ?x = Some _ |- _ => apply as_str_inv in H; try subst x
  | H : py_items ?x = Some _ |- _ => apply py_items_inv in H; try subst x
  | H : py_list ?x = Some _ |- _ => apply py_list_inv in H; try subst x
  | H : py_is_none ?x = true |- _ => apply py_is_none_inv in H; try subst x
  | H : negb (py_is_none ?x) = false |- _ => apply negb_false_iff, py_is_none_inv in H; try subst x
  | H : negb _ = _ |- _ => progress cbn [negb py_is_none] in H
  | H : true = false |- _ => discriminate H
  | H : field _ (JObj _) = _ |- _ => progress cbn [field] in H
  | H1 : py_items ?x = None, H2 : field _ ?x = Some _ |- _ => destruct x; discriminate H1 || discriminate H2
  | H1 : lookup ?k ?l = _, H2 : lookup ?k ?l = _ |- _ => rewrite H1 in H2; injection H2 as H2; try discriminate H2; subst
  | H : false = true |- _ => discriminate H
  | H : map_opt _ ?l = Some ?al |- _ => pose proof (g_players_assoc l al H); clear H
  | H : map_opt _ ?l = Some ?al |- _ => pose proof (g_scores_assoc l al H); clear H
  | H : forall q, assoc _ q ?al = _, H2 : context [assoc _ _ ?al] |- _ => rewrite !H in H2; cbn [seat_str side_str] in H2
  | H : contract_of_str _ ?v ?d = Some ?c |- _ =>
      lazymatch goal with H' : cvul c = v |- _ => fail | _ => idtac end;
      destruct (contract_fields _ _ _ _ H) as [? ?]
  | H1 : cvul ?c = _, Hb : context [cvul ?c] |- _ => rewrite H1 in Hb
  | H1 : cdeclarer ?c = _, Hb : context [cdeclarer ?c] |- _ => rewrite H1 in Hb
  | Hb : vul_beq ?v ?v && oseat_beq ?d ?d = false |- _ => rewrite vul_beq_refl, oseat_beq_refl in Hb; discriminate Hb
  end.
(* goal `A = Some r -> G`: case analysis on what A is stuck on; the cases where A is None are closed at once *)
Ltac invert_step :=
  norm2; tidy; tidy2; lemmas; norm2;
  lazymatch goal with |- ?A = Some _ -> _ => let x := scrut A in destruct x eqn:? end;
  try (norm2; let Hd := fresh in intros Hd; discriminate Hd).
(* goal `B = Some r` with the equations of the case analysis in the context *)
Ltac compute_step :=
  norm2; tidy; tidy2; lemmas; norm2;
  repeat match goal with H : ?t = _ |- context [?t] => rewrite H end; norm2;
  first [ reflexivity | congruence
        | lazymatch goal with |- ?B = _ => let x := scrut B in destruct x eqn:? end ].

Theorem g_log_of_json_eq : forall j,
  field "play_history" j <> None ->
  keys_in seat_of_str (field "players" j) -> keys_in side_of_str (field "scores" j) ->
  py_bind (g_log_of_json j) shape_log = log_of_json j.
Proof.
  intros j Hplay Hpl Hsc. unfold g_log_of_json, log_of_json. rewrite <- g_setting_of_json_eq.
  destruct (g_setting_of_json j) as [[hands dealer vul bid dda]|]; [|reflexivity]. cbv zeta. cbn [py_bind].
  unfold py_has, py_lookup, keys_in, shape_players, shape_scores in *.
  apply option_eq_by_cases; intros r.
  (* each direction: the side that is known to be Some is analysed with the other side put away (rhs), then the other
     side is computed from the equations found *)
  - match goal with |- _ = _ -> ?B = _ => remember B as rhs eqn:Erhs end.
    repeat invert_step.
    all: (let H := fresh in intros H; injection H as <-; subst rhs; do 12 (try compute_step)).
  - match goal with |- _ = _ -> ?B = _ => remember B as rhs eqn:Erhs end.
    repeat invert_step.
    all: (let H := fresh in intros H; injection H as <-; subst rhs; do 12 (try compute_step)).
Qed.

(* the shape in which JsonLogWriter writes a log: the key play_history is there, the keys of players / scores are members *)
Definition log_written (j : json) : Prop :=
  field "play_history" j <> None /\ keys_in seat_of_str (field "players" j) /\ keys_in side_of_str (field "scores" j).

Lemma map_opt_ext_in : forall {A B : Type} (f g : A -> option B) l,
  (forall x, In x l -> f x = g x) -> map_opt f l = map_opt g l.
Proof.
  intros A B f g l H. induction l as [|x r IH]; [reflexivity|]. cbn [map_opt].
  rewrite (H x (or_introl eq_refl)), IH; [reflexivity|]. intros y Hy. apply H. right. exact Hy.
Qed.

Theorem g_parse_board_logs_eq : forall doc,
  (forall l, field "logs" doc = Some (JArr l) -> forall j, In j l -> log_written j) ->
  py_bind (g_parse_board_logs doc) (map_opt shape_log) = parse_board_logs doc.
Proof.
  intros doc Hw. unfold g_parse_board_logs, parse_board_logs. cbv zeta.
  destruct (field "logs" doc) as [[| | | |l|]|]; cbn [py_list py_bind]; try reflexivity.
  rewrite bind_some, map_opt_bind. apply map_opt_ext_in. intros j Hj.
  destruct (Hw l eq_refl j Hj) as [H1 [H2 H3]]. apply g_log_of_json_eq; assumption.
Qed.


(* ------------------------------------------------------------------ what the writer writes satisfies the hypotheses *)
Theorem written_log_ok : forall r : logrec, log_written (record_json r).
Proof.
  intros r. unfold log_written, record_json, keys_in.
  destruct (l_dda r) as [t|]; cbn [app field lookup String.eqb Ascii.eqb Bool.eqb].
  all: split; [destruct (l_play r); discriminate|].
  all: split; intros k v Hin; cbn [In] in Hin;
       repeat (destruct Hin as [Hin|Hin]; [injection Hin as <- _; discriminate|]); destruct Hin.
Qed.

(* hence: reading back what JsonLogWriter.write writes, the translated parser and the model agree, with no hypothesis *)
Corollary g_log_of_written : forall r : logrec,
  py_bind (g_log_of_json (g_record_json r)) shape_log = log_of_json (record_json r).
Proof. intros r. rewrite g_record_json_eq. apply g_log_of_json_eq; apply written_log_ok. Qed.

(* ------------------------------------------------------------------ non-vacuity: the translated parser computes *)
Definition log_view (r : logrec) :=
  (map (l_players r) all_seats, l_board_id r, l_dealer r, map (l_deal r) all_seats, l_bids r, l_contract r, l_play r,
   (l_taken r, l_scoring r, l_score_ns r, l_score_ew r, l_dda r)).
Example ex_parse_written :
  option_map log_view (py_bind (g_log_of_json (g_record_json ex_log)) shape_log) =
  Some (["n"; "e"; "s"; "w"], "b1", East,
        [[mkcard R2 Cl; mkcard RT He; mkcard RA Sp]; [mkcard RK Di]; []; [mkcard R2 Cl; mkcard R3 Cl]],
        [Bid L1 (Tr Cl); Pass; Bid L3 NT; Dbl; Pass; Pass; Pass], ex_contract,
        Some [(West, [mkcard R2 Cl; mkcard RA Sp]); (North, [mkcard RK Di])],
        (Some 9%Z, "MatchPoints", 750%Z, (-750)%Z, Some [(North, [(Tr Cl, 7%Z); (NT, 9%Z)]); (West, [])])).
Proof. vm_compute. reflexivity. Qed.

(* a document: two settings under "board_settings"; an unknown dealer makes the whole parse raise *)
Example ex_parse_settings :
  option_map (map (fun ps => (ps_board_id ps, ps_dealer ps, ps_vul ps, ps_dda ps)))
    (g_parse_board_settings
       (JObj [("board_settings", JArr [g_setting_json (mkSetting "b3" West ex_deal VBoth None);
                                       g_setting_json (mkSetting "b4" North ex_deal VNone (Some [(South, [(Tr He, 4%Z)])]))])])) =
  Some [(JStr "b3", West, VBoth, None); (JStr "b4", North, VNone, Some [(South, [(Tr He, JNum 4)])])]
  /\ g_setting_of_json (JObj [("board_id", JStr "b"); ("dealer", JStr "Q"); ("deal", g_deal_json ex_deal);
                              ("vulnerability", JStr "None")]) = None.
Proof. split; vm_compute; reflexivity. Qed.

Print Assumptions g_deal_json_eq.
Print Assumptions g_setting_json_eq.
Print Assumptions g_record_json_eq.
Print Assumptions seat_str_is_name.
Print Assumptions strain_str_is_name.
Print Assumptions names_Player_complete.
Print Assumptions names_Suit_complete.
Print Assumptions scoring_value_stored.
Print Assumptions scoring_name_differs.
Print Assumptions ex_deal_json.
Print Assumptions ex_record_json.
Print Assumptions ex_record_passed_out.
Print Assumptions ex_setting_json.
Print Assumptions member_Player.
Print Assumptions member_Pair.
Print Assumptions member_Suit.
Print Assumptions g_deal_of_json_eq.
Print Assumptions g_setting_of_json_eq.
Print Assumptions g_parse_board_settings_eq.
Print Assumptions g_log_of_json_eq.
Print Assumptions g_parse_board_logs_eq.
Print Assumptions written_log_ok.
Print Assumptions g_log_of_written.
Print Assumptions ex_parse_written.
Print Assumptions ex_parse_settings.
