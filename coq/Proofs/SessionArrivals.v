(* The conforming-session theorems (Proofs/SessionConform.v: four clients arriving North, East, South, West) lifted to EVERY list
   of connection requests that fills the table: any number n of requests, any seats, teams, versions, in any order.
   [conforming_session_any_arrivals]: if the boards are not empty, no operator interrupt is armed, the team names have no double
   quote, the requests fill the table ([all_seated (seat_requests reqs empty_table)]) and the scripts of the four SEATED
   connections (connection [conn_map reqs p] sits at p) are conforming for the boards (Model/Conform.v), then some schedule drives
   the initial state to a state f that is FINAL (no party can move) and in which
     - main has returned; the log is LOpen, one record per board, LClose, the records being Model/Conform.v's [model_record] of
       the boards with the seated scripts and the names of the final table;
     - for each seat p the thread and the client of connection [conn_map reqs p] have returned and the transcript of what that
       connection was sent is SessionConform's [down_view] for seat p: the seated line, the teams line, the board lines of seat p,
       "End of session" - literally the same term as in the fixed-order theorem;
     - every request that was looked at and refused is in SessionAdmission's [turned_view]: thread returned, client stopped at the
       error line (Fail), transcript [error line; CLOSED];
     - every request that arrived after the table was full is in [waiting_view]: its thread was never started and waits for ever
       for its start message, its client waits for ever for a reply to its connection line, which is still on the socket;
     - a looked-at request that was not refused is the connection of its seat (so the three cases are exhaustive).
   [conforming_session_any_arrivals_every_schedule]: by confluence (Proofs/Session.v) EVERY maximal schedule ends in that very
   state, after the same number of steps, and no schedule is longer.  ([Kahn.all_doneb] does not hold when a late connection
   waits for ever: the statement is about [sfinal], as the confluence theorems require.)
   [conforming_session_any_order]: the instance n = 4, the requests a permutation of the four acceptable ones: nobody is turned
   away, nobody is late, all nine processes return.
   [outcome_turned], [outcome_late]: the outcome spelled out; [any_arrivals_instance]: the premises are satisfiable with requests
   that are turned away and one that comes too late (SessionAdmission's eight requests, one passed-out board).
   Method.  Admission and seating are SessionAdmission's [seating_phase], in the n-connection network.  From there on the
   4-connection network at "start of board 1" (the state where SessionConform's [startup_general] stops) is EMBEDDED in the
   n-connection network (Proofs/KahnEmbed.v): party 1+i goes to the thread of the connection seated at seat i, 5+i to its client,
   the channels and transcripts of connection i to those of that connection, the log to the log ([sgm], [rhm]); the processes
   correspond by Proofs/SessionRename.v; so the run that SessionConform's [loop_general] builds in the 4-connection network lifts
   step by step to the n-connection network ([embed_run]), the final states correspond, and everything that belongs to the
   other connections is left exactly as [seating_phase] left it ([loc_frame]).
   Standard library only; closed under the global context. *)
From BE Require Import Model.Session Model.Conform Proofs.Kahn Proofs.Session Proofs.Wire Proofs.SessionPassOut Proofs.SessionConform
  Proofs.SessionAdmission Proofs.KahnEmbed Proofs.SessionRename.
From Coq Require Import Lia Permutation.
Local Open Scope string_scope.
Local Open Scope nat_scope.
Local Open Scope list_scope.

(* ===================================================================== the renamings: the 4-connection network inside the n-connection network *)
(* parties: 0 main; 1..4 the threads of the connections seated North, East, South, West; 5..8 their clients *)
Definition sgm (n : nat) (pi : seat -> nat) (t : nat) : nat :=
  match t with
  | 0 => 0
  | 1 => S (pi North) | 2 => S (pi East) | 3 => S (pi South) | 4 => S (pi West)
  | 5 => S (n + pi North) | 6 => S (n + pi East) | 7 => S (n + pi South) | 8 => S (n + pi West)
  | _ => t + 2 * n end.
(* channels: the four channels of connection CN p go to those of connection pi p; log, never-written channel; the transcripts *)
Definition rhm (n : nat) (pi : seat -> nat) (c : nat) : nat :=
  match c with
  | 0 => ch_up (pi North) | 1 => ch_down (pi North) | 2 => ch_q (pi North) | 3 => ch_r (pi North)
  | 4 => ch_up (pi East) | 5 => ch_down (pi East) | 6 => ch_q (pi East) | 7 => ch_r (pi East)
  | 8 => ch_up (pi South) | 9 => ch_down (pi South) | 10 => ch_q (pi South) | 11 => ch_r (pi South)
  | 12 => ch_up (pi West) | 13 => ch_down (pi West) | 14 => ch_q (pi West) | 15 => ch_r (pi West)
  | 16 => ch_log n | 17 => ch_never n
  | 18 => tr_down n (pi North) | 19 => tr_up n (pi North) | 20 => tr_down n (pi East) | 21 => tr_up n (pi East)
  | 22 => tr_down n (pi South) | 23 => tr_up n (pi South) | 24 => tr_down n (pi West) | 25 => tr_up n (pi West)
  | _ => c + 6 * n end.

Section Maps.
  Variable n : nat.
  Variable pi : seat -> nat.
  Hypothesis pi_lt : forall p, pi p < n.
  Hypothesis pi_inj : forall p q, pi p = pi q -> p = q.

  Lemma pi_facts : pi North <> pi East /\ pi North <> pi South /\ pi North <> pi West /\
                   pi East <> pi South /\ pi East <> pi West /\ pi South <> pi West /\
                   pi North < n /\ pi East < n /\ pi South < n /\ pi West < n.
  Proof.
    repeat split; try apply pi_lt; intros E; apply pi_inj in E; discriminate E.
  Qed.

  Ltac unch := unfold ch_up, ch_down, ch_q, ch_r, ch_log, ch_never, tr_down, tr_up in *.

  Lemma sgm_inj : forall a b, a < 9 -> b < 9 -> sgm n pi a = sgm n pi b -> a = b.
  Proof.
    destruct pi_facts as (D1 & D2 & D3 & D4 & D5 & D6 & B1 & B2 & B3 & B4).
    intros a b Ha Hb.
    do 9 (destruct a as [|a]; [do 9 (destruct b as [|b]; [cbn [sgm]; lia|]); lia|]). lia.
  Qed.

  Lemma rhm_inj : forall a b, a < 26 -> b < 26 -> rhm n pi a = rhm n pi b -> a = b.
  Proof.
    destruct pi_facts as (D1 & D2 & D3 & D4 & D5 & D6 & B1 & B2 & B3 & B4).
    intros a b Ha Hb.
    do 26 (destruct a as [|a]; [do 26 (destruct b as [|b]; [cbn [rhm]; unch; lia|]); lia|]). lia.
  Qed.
  Local Notation SG := (sgm n pi).
  Local Notation RH := (rhm n pi).
  Local Notation CORR := (corr msg SG RH idc 9 26 0).
  Local Notation FRAME := (frame msg SG RH idc 9 26 0).

  (* ---------- what belongs to a connection that is not seated is outside the image ---------- *)
  Lemma out_thread j : j < n -> (forall p, pi p <> j) -> out_sg SG 9 (S j).
  Proof.
    intros Hj Hp t Ht. pose proof (Hp North). pose proof (Hp East). pose proof (Hp South). pose proof (Hp West).
    destruct pi_facts as (_ & _ & _ & _ & _ & _ & B1 & B2 & B3 & B4).
    do 9 (destruct t as [|t]; [cbn [sgm]; lia|]). lia.
  Qed.
  Lemma out_client j : j < n -> (forall p, pi p <> j) -> out_sg SG 9 (S (n + j)).
  Proof.
    intros Hj Hp t Ht. pose proof (Hp North). pose proof (Hp East). pose proof (Hp South). pose proof (Hp West).
    destruct pi_facts as (_ & _ & _ & _ & _ & _ & B1 & B2 & B3 & B4).
    do 9 (destruct t as [|t]; [cbn [sgm]; lia|]). lia.
  Qed.
  Lemma out_chans j : j < n -> (forall p, pi p <> j) ->
    out_rh RH 26 (ch_up j) /\ out_rh RH 26 (ch_down j) /\ out_rh RH 26 (ch_q j) /\ out_rh RH 26 (ch_r j) /\
    out_rh RH 26 (tr_down n j) /\ out_rh RH 26 (tr_up n j).
  Proof.
    intros Hj Hp. pose proof (Hp North). pose proof (Hp East). pose proof (Hp South). pose proof (Hp West).
    destruct pi_facts as (_ & _ & _ & _ & _ & _ & B1 & B2 & B3 & B4).
    repeat split; intros c Hc; do 26 (destruct c as [|c]; [cbn [rhm]; unch; lia|]); lia.
  Qed.

  Lemma loc_frame s0 s1 j : FRAME s0 s1 -> j < n -> (forall p, pi p <> j) -> loc n s1 j = loc n s0 j.
  Proof.
    intros (_ & F1 & F2 & _ & F4) Hj Hp.
    destruct (out_chans j Hj Hp) as (O1 & O2 & O3 & O4 & O5 & O6).
    pose proof (out_thread j Hj Hp) as Ot. pose proof (out_client j Hj Hp) as Oc.
    unfold loc, pr, chn, bar. f_equal; auto.
  Qed.

  (* ---------- the correspondence at the start of board 1 ---------- *)
  Definition at_table (th cl : proc) (Td Tu : list msg) : cview :=
    mkView (Some th) (Some cl) (Some []) (Some []) (Some []) (Some []) (Some Td) (Some Tu) (Some 1) (Some 0).

  Lemma cnt_start ba :
    length ba = 1 + 2 * n -> nth_error ba 0 = Some 1 ->
    nth_error ba (S (pi North)) = Some 1 -> nth_error ba (S (pi East)) = Some 1 ->
    nth_error ba (S (pi South)) = Some 1 -> nth_error ba (S (pi West)) = Some 1 ->
    forall m, cnt m [1; 1; 1; 1; 1; 0; 0; 0; 0] <= cnt m ba.
  Proof.
    intros Lb H0 HN HE HS HW m.
    destruct pi_facts as (D1 & D2 & D3 & D4 & D5 & D6 & B1 & B2 & B3 & B4).
    destruct m as [|[|m]].
    - rewrite !cnt_zero. cbn [length]. lia.
    - pose proof (released_five ba _ _ _ _ D1 D2 D3 D4 D5 D6 H0 HN HE HS HW) as R.
      unfold Kahn.released, PARTIES in R. apply Nat.leb_le in R. unfold cnt. cbn [filter Nat.leb length]. exact R.
    - unfold cnt at 1. cbn [filter Nat.leb length]. lia.
  Qed.

  Lemma start_corr M M' thN thE thS thW clN clE clS clW thN' thE' thS' thW' clN' clE' clS' clW'
      L TdN TuN TdE TuE TdS TuS TdW TuW s' :
    gshape n L 1 s' -> pr s' 0 = Some M' -> ssim RH M M' ->
    loc n s' (pi North) = at_table thN' clN' TdN TuN -> loc n s' (pi East) = at_table thE' clE' TdE TuE ->
    loc n s' (pi South) = at_table thS' clS' TdS TuS -> loc n s' (pi West) = at_table thW' clW' TdW TuW ->
    ssim RH thN thN' -> ssim RH thE thE' -> ssim RH thS thS' -> ssim RH thW thW' ->
    ssim RH clN clN' -> ssim RH clE clE' -> ssim RH clS clS' -> ssim RH clW clW' ->
    CORR (QS M thN thE thS thW clN clE clS clW L TdN TuN TdE TuE TdS TuS TdW TuW 1) s'.
  Proof.
    intros Hsh Hm SM VN VE VS VW StN StE StS StW ScN ScE ScS ScW.
    unfold at_table in *.
    destruct s' as [ps chs ce ba].
    view_eqs VN Vt0 Vc0 Vup0 Vdown0 Vq0 Vr0 Vtd0 Vtu0 Vbt0 Vbc0.
    view_eqs VE Vt1 Vc1 Vup1 Vdown1 Vq1 Vr1 Vtd1 Vtu1 Vbt1 Vbc1.
    view_eqs VS Vt2 Vc2 Vup2 Vdown2 Vq2 Vr2 Vtd2 Vtu2 Vbt2 Vbc2.
    view_eqs VW Vt3 Vc3 Vup3 Vdown3 Vq3 Vr3 Vtd3 Vtu3 Vbt3 Vbc3.
    unf_acc; cbn [v_thread v_client v_up v_down v_q v_r v_trdown v_trup v_bt v_bc] in *.
    destruct Hsh as (Lp & Lc & Lb & Hce & Hlog & Hnev & Hb0).
    unfold corr, QS. cbn [Kahn.procs Kahn.chans Kahn.cells Kahn.barr].
    split; [cbn [length]; lia|].
    split.
    { intros t p H.
      do 9 (destruct t as [|t]; [cbn [nth_error] in H; injection H as <-; cbn [sgm]; eexists; split; [eassumption|assumption]|]).
      destruct t; discriminate H. }
    split.
    { intros c q H.
      do 26 (destruct c as [|c]; [cbn [nth_error] in H; injection H as <-; cbn [rhm]; assumption|]).
      destruct c; discriminate H. }
    split; [intros x v H; destruct x; discriminate H|].
    split.
    { intros t a H.
      do 9 (destruct t as [|t]; [cbn [nth_error] in H; injection H as <-; cbn [sgm]; assumption|]).
      destruct t; discriminate H. }
    apply cnt_start; assumption.
  Qed.

  (* ---------- what the correspondence says about a final state of the 4-connection network ---------- *)
  Lemma final_corr Lf T0 T1 T2 T3 T4 T5 T6 T7 b f' :
    CORR (QS Ret Ret Ret Ret Ret Ret Ret Ret Ret Lf T0 T1 T2 T3 T4 T5 T6 T7 b) f' ->
    pr f' 0 = Some Ret /\
    (forall p, pr f' (S (pi p)) = Some Ret /\ pr f' (S (n + pi p)) = Some Ret) /\
    chn f' (ch_log n) = Some Lf /\
    chn f' (tr_down n (pi North)) = Some T0 /\ chn f' (tr_down n (pi East)) = Some T2 /\
    chn f' (tr_down n (pi South)) = Some T4 /\ chn f' (tr_down n (pi West)) = Some T6.
  Proof.
    intros (_ & HP & HC & _). unfold QS in *. cbn [Kahn.procs Kahn.chans Kahn.cells Kahn.barr] in *.
    assert (R : forall t, t < 9 -> nth_error (Kahn.procs msg f') (SG t) = Some Ret).
    { intros t Ht. assert (E : nth_error [@Ret msg; Ret; Ret; Ret; Ret; Ret; Ret; Ret; Ret] t = Some Ret).
      { do 9 (destruct t as [|t]; [reflexivity|]). lia. }
      destruct (HP t Ret E) as (p' & E' & Sm). apply sim_Ret_inv in Sm. subst p'. exact E'. }
    unfold pr, chn.
    split; [exact (R 0 ltac:(lia))|].
    split.
    { intros p. destruct p.
      - split; [exact (R 1 ltac:(lia))|exact (R 5 ltac:(lia))].
      - split; [exact (R 2 ltac:(lia))|exact (R 6 ltac:(lia))].
      - split; [exact (R 3 ltac:(lia))|exact (R 7 ltac:(lia))].
      - split; [exact (R 4 ltac:(lia))|exact (R 8 ltac:(lia))]. }
    split; [exact (HC 16 _ eq_refl)|].
    split; [exact (HC 18 _ eq_refl)|]. split; [exact (HC 20 _ eq_refl)|]. split; [exact (HC 22 _ eq_refl)|exact (HC 24 _ eq_refl)].
  Qed.
End Maps.

(* ===================================================================== steps that cannot be taken *)
Lemma stuck_ret s t : pr s t = Some Ret -> Kahn.step msg PARTIES t s = None.
Proof. unfold pr, Kahn.step. intros ->. reflexivity. Qed.
Lemma stuck_fail s t : pr s t = Some Fail -> Kahn.step msg PARTIES t s = None.
Proof. unfold pr, Kahn.step. intros ->. reflexivity. Qed.
Lemma stuck_get s t c k : pr s t = Some (Get c k) -> chn s c = Some [] -> Kahn.step msg PARTIES t s = None.
Proof. unfold pr, chn, Kahn.step. intros -> ->. reflexivity. Qed.
Lemma stuck_none s t : pr s t = None -> Kahn.step msg PARTIES t s = None.
Proof. unfold pr, Kahn.step. intros ->. reflexivity. Qed.

Lemma chan_of_chn s c q : chn s c = Some q -> chan s c = q.
Proof. unfold chn, chan. intros H. apply nth_error_nth. exact H. Qed.

(* ===================================================================== the theorem *)
(* the scripts of the four seated connections, by seat *)
Definition seated_scripts (x : session) : seat -> list cscript := fun p => script_of x (conn_map (s_arrivals x) p).

(* what the final state of the session looks like *)
Definition arrivals_outcome (x : session) (f : Kahn.st msg) : Prop :=
  let reqs := s_arrivals x in
  let n := nconn x in
  let nb := length (s_boards x) in
  let T := seat_requests reqs empty_table in
  (* main has returned *)
  pr f 0 = Some Ret /\
  (* the log: one record per board, the model record of the board with the scripts of the seated connections *)
  (exists recs, log_events n f = LOpen :: map LRec recs ++ [LClose] /\
                map Some recs = recs_from (names_of T) (seated_scripts x) 0 (s_boards x)) /\
  (* the connection seated at p: thread and client have returned; what it was sent is what seat p is sent in the fixed-order theorem *)
  (forall p, pr f (S (conn_map reqs p)) = Some Ret /\ pr f (S (n + conn_map reqs p)) = Some Ret /\
             chan f (tr_down n (conn_map reqs p)) =
             down_view (s_boards x) (names_of T North) (names_of T East) (seated_scripts x) p) /\
  (* every request: seated (then it is the connection of its seat), turned away, or too late *)
  (forall j a, nth_error reqs j = Some a ->
     (j < looked_at reqs empty_table ->
      admission_error (table_before reqs j) (a_team a) (a_seat a) (a_version a) = None -> j = conn_map reqs (a_seat a)) /\
     (forall e, j < looked_at reqs empty_table ->
                admission_error (table_before reqs j) (a_team a) (a_seat a) (a_version a) = Some e ->
                loc n f j = turned_view a e) /\
     (looked_at reqs empty_table <= j -> loc n f j = waiting_view n nb j a (script_of x j))).

Lemma arrivals_outcome_final x f :
  length (Kahn.procs msg f) = 1 + 2 * nconn x -> arrivals_outcome x f -> sfinal f.
Proof.
  intros Lp (Hm & _ & Hs & Hr) t. cbv zeta in *.
  set (n := nconn x) in *. set (reqs := s_arrivals x) in *.
  assert (Cls : forall j, j < n -> Kahn.step msg PARTIES (S j) f = None /\ Kahn.step msg PARTIES (S (n + j)) f = None).
  { intros j Hj.
    destruct (nth_error reqs j) as [a|] eqn:Ej; [|apply nth_error_None in Ej; unfold n, nconn in Hj; fold reqs in Hj; lia].
    destruct (Hr j a Ej) as (H1 & H2 & H3).
    destruct (Nat.lt_ge_cases j (looked_at reqs empty_table)) as [L|G].
    - destruct (admission_error (table_before reqs j) (a_team a) (a_seat a) (a_version a)) as [e|] eqn:E.
      + specialize (H2 e L eq_refl). unfold turned_view in H2.
        pose proof (f_equal v_thread H2) as Vt. pose proof (f_equal v_client H2) as Vc. cbn [loc v_thread v_client] in Vt, Vc.
        split; [exact (stuck_ret _ _ Vt)|exact (stuck_fail _ _ Vc)].
      + rewrite (H1 L eq_refl). destruct (Hs (a_seat a)) as (A & B & _).
        split; [exact (stuck_ret _ _ A)|exact (stuck_ret _ _ B)].
    - specialize (H3 G). unfold waiting_view, conn_proc, client_wait, crecv, sget in H3.
      pose proof (f_equal v_thread H3) as Vt. pose proof (f_equal v_client H3) as Vc.
      pose proof (f_equal v_q H3) as Vq. pose proof (f_equal v_down H3) as Vd.
      cbn [loc v_thread v_client v_q v_down] in Vt, Vc, Vq, Vd.
      split; [exact (stuck_get _ _ _ _ Vt Vq)|exact (stuck_get _ _ _ _ Vc Vd)]. }
  destruct t as [|t]; [exact (stuck_ret _ _ Hm)|].
  destruct (Nat.lt_ge_cases t n) as [L|G]; [exact (proj1 (Cls t L))|].
  destruct (Nat.lt_ge_cases t (2 * n)) as [L2|G2].
  - replace t with (n + (t - n)) by lia. apply (Cls (t - n)). lia.
  - apply stuck_none. unfold pr. apply nth_error_None. fold n in Lp. lia.
Qed.

Theorem conforming_session_any_arrivals : forall x : session,
  let reqs := s_arrivals x in
  let n := nconn x in
  let nb := length (s_boards x) in
  let T := seat_requests reqs empty_table in
  s_boards x <> [] -> s_interrupt x = None -> wf_requests reqs -> all_seated T = true ->
  conforming (s_boards x) (seated_scripts x) = true ->
  exists l f, srun l (init_state x) = Some f /\ sfinal f /\
    (* main has returned *)
    pr f 0 = Some Ret /\
    (* the log *)
    (exists recs, log_events n f = LOpen :: map LRec recs ++ [LClose] /\
                  map Some recs = recs_from (names_of T) (seated_scripts x) 0 (s_boards x)) /\
    (* the four seated connections *)
    (forall p, pr f (S (conn_map reqs p)) = Some Ret /\ pr f (S (n + conn_map reqs p)) = Some Ret /\
               chan f (tr_down n (conn_map reqs p)) =
               down_view (s_boards x) (names_of T North) (names_of T East) (seated_scripts x) p) /\
    (* every request is seated (then it is the connection of its seat), turned away or too late *)
    (forall j a, nth_error reqs j = Some a ->
       (j < looked_at reqs empty_table ->
        admission_error (table_before reqs j) (a_team a) (a_seat a) (a_version a) = None -> j = conn_map reqs (a_seat a)) /\
       (forall e, j < looked_at reqs empty_table ->
                  admission_error (table_before reqs j) (a_team a) (a_seat a) (a_version a) = Some e ->
                  loc n f j = turned_view a e) /\
       (looked_at reqs empty_table <= j -> loc n f j = waiting_view n nb j a (script_of x j))).
Proof.
  intros x reqs n nb T Hne Hint Hwf AS Hconf.
  destruct (conforming_lengths _ _ Hconf) as [Hlen HC].
  set (scr := seated_scripts x) in *. set (boards := s_boards x) in *.
  set (pi := conn_map reqs).
  (* the four seats *)
  destruct (table_seats_first_acceptable reqs AS North) as (jN & aN & HjN & HsN & LN & EN & TN & CN_ & UN).
  destruct (table_seats_first_acceptable reqs AS East) as (jE & aE & HjE & HsE & LE & EE & TE & CE_ & UE).
  destruct (table_seats_first_acceptable reqs AS South) as (jS & aS & HjS & HsS & LS & ES & TS & CS_ & US).
  destruct (table_seats_first_acceptable reqs AS West) as (jW & aW & HjW & HsW & LW & EW_ & TW & CW_ & UW).
  fold pi in CN_, CE_, CS_, CW_.
  assert (BN : jN < n) by (apply nth_error_Some; fold reqs; congruence).
  assert (BE_ : jE < n) by (apply nth_error_Some; fold reqs; congruence).
  assert (BS : jS < n) by (apply nth_error_Some; fold reqs; congruence).
  assert (BW : jW < n) by (apply nth_error_Some; fold reqs; congruence).
  assert (DNE : jN <> jE) by (intros ->; congruence).
  assert (DNS : jN <> jS) by (intros ->; congruence).
  assert (DNW : jN <> jW) by (intros ->; congruence).
  assert (DES : jE <> jS) by (intros ->; congruence).
  assert (DEW : jE <> jW) by (intros ->; congruence).
  assert (DSW : jS <> jW) by (intros ->; congruence).
  assert (pi_lt : forall p, pi p < n) by (intros []; congruence).
  assert (pi_inj : forall p q, pi p = pi q -> p = q).
  { intros [] []; rewrite ?CN_, ?CE_, ?CS_, ?CW_; intros E; try reflexivity; exfalso; congruence. }
  fold T in TN, TE, TS, TW.
  assert (SN : match side_of North with NS => names_of T North | EW => names_of T East end = a_team aN)
    by exact (side_name reqs North _ TN AS).
  assert (SE : match side_of East with NS => names_of T North | EW => names_of T East end = a_team aE)
    by exact (side_name reqs East _ TE AS).
  assert (SS : match side_of South with NS => names_of T North | EW => names_of T East end = a_team aS)
    by exact (side_name reqs South _ TS AS).
  assert (SW : match side_of West with NS => names_of T North | EW => names_of T East end = a_team aW)
    by exact (side_name reqs West _ TW AS).
  (* admission and seating, in the n-connection network *)
  destruct (seating_phase x Hwf AS) as (l1 & s1 & Hr1 & Hm & Hl & Hsh).
  fold reqs n nb T boards in Hm, Hl, Hsh. rewrite Hint in Hm. cbn [wrap_open] in Hm. fold pi in Hm.
  pose proof (proj1 (proj2 (Hl jN aN HjN)) LN EN) as VN.
  pose proof (proj1 (proj2 (Hl jE aE HjE)) LE EE) as VE.
  pose proof (proj1 (proj2 (Hl jS aS HjS)) LS ES) as VS.
  pose proof (proj1 (proj2 (Hl jW aW HjW)) LW EW_) as VW.
  rewrite <- CN_ in VN. rewrite <- CE_ in VE. rewrite <- CS_ in VS. rewrite <- CW_ in VW.
  unfold started_view in VN, VE, VS, VW. rewrite HsN in VN. rewrite HsE in VE. rewrite HsS in VS. rewrite HsW in VW.
  change (script_of x (pi North)) with (scr North) in VN. change (script_of x (pi East)) with (scr East) in VE.
  change (script_of x (pi South)) with (scr South) in VS. change (script_of x (pi West)) with (scr West) in VW.
  rewrite (Hlen North) in VN. rewrite (Hlen East) in VE. rewrite (Hlen South) in VS. rewrite (Hlen West) in VW.
  fold nb in VN, VE, VS, VW.
  set (ns := names_of T North) in *. set (ew := names_of T East) in *.
  (* the board phase in the 4-connection network *)
  set (K0 := fun s => c_boards 4 0 North (S nb) s (scr North)).
  set (K1 := fun s => c_boards 4 1 East (S nb) s (scr East)).
  set (K2 := fun s => c_boards 4 2 South (S nb) s (scr South)).
  set (K3 := fun s => c_boards 4 3 West (S nb) s (scr West)).
  set (T0 := [MS (seated_line North (a_team aN)); MS (teams_line ns ew)]).
  set (T2 := [MS (seated_line East (a_team aE)); MS (teams_line ns ew)]).
  set (T4 := [MS (seated_line South (a_team aS)); MS (teams_line ns ew)]).
  set (T6 := [MS (seated_line West (a_team aW)); MS (teams_line ns ew)]).
  match type of VN with _ = mkView _ _ _ _ _ _ _ (Some ?u) _ _ => set (T1 := u) in * end.
  match type of VE with _ = mkView _ _ _ _ _ _ _ (Some ?u) _ _ => set (T3 := u) in * end.
  match type of VS with _ = mkView _ _ _ _ _ _ _ (Some ?u) _ _ => set (T5 := u) in * end.
  match type of VW with _ = mkView _ _ _ _ _ _ _ (Some ?u) _ _ => set (T7 := u) in * end.
  set (F := fun f : Kahn.st msg => exists recs T1' T3' T5' T7' b',
              map Some recs = recs_from (names_of T) scr 0 boards /\
              f = QS Ret Ret Ret Ret Ret Ret Ret Ret Ret ([MLog LOpen] ++ map recmsg recs ++ [MLog LClose])
                     (T0 ++ views_from scr 1 0 boards North ++ [MS END_SESSION]) T1'
                     (T2 ++ views_from scr 1 0 boards East ++ [MS END_SESSION]) T3'
                     (T4 ++ views_from scr 1 0 boards South ++ [MS END_SESSION]) T5'
                     (T6 ++ views_from scr 1 0 boards West ++ [MS END_SESSION]) T7' b').
  assert (Loop : reach (QS (boards_loop 4 CN (names_of T) boards 1)
                           (t_boards 4 0 (S (length boards)) North) (t_boards 4 1 (S (length boards)) East)
                           (t_boards 4 2 (S (length boards)) South) (t_boards 4 3 (S (length boards)) West)
                           (crecv 0 K0) (crecv 1 K1) (crecv 2 K2) (crecv 3 K3) [MLog LOpen] T0 T1 T2 T3 T4 T5 T6 T7 1) F).
  { apply (loop_general boards Hne 0 scr 1 (names_of T) K0 K1 K2 K3); [exact Hlen|exact HC|reflexivity|reflexivity|reflexivity|reflexivity|].
    intros recs T1' T3' T5' T7' b' Hrecs. apply reach_done. exists recs, T1', T3', T5', T7', b'. split; [exact Hrecs|reflexivity]. }
  destruct Loop as (l2 & f0 & Hr2 & (recs & T1' & T3' & T5' & T7' & b' & Hrecs & ->)).
  (* the correspondence at the start of board 1, the lifted run *)
  assert (C1 : corr msg (sgm n pi) (rhm n pi) idc 9 26 0
                 (QS (boards_loop 4 CN (names_of T) boards 1)
                     (t_boards 4 0 (S (length boards)) North) (t_boards 4 1 (S (length boards)) East)
                     (t_boards 4 2 (S (length boards)) South) (t_boards 4 3 (S (length boards)) West)
                     (crecv 0 K0) (crecv 1 K1) (crecv 2 K2) (crecv 3 K3) [MLog LOpen] T0 T1 T2 T3 T4 T5 T6 T7 1) s1).
  { eapply (start_corr n pi pi_lt pi_inj); [exact Hsh|exact Hm| |exact VN|exact VE|exact VS|exact VW| | | | | | | | ].
    - apply sim_boards_loop; [intros []; reflexivity|intros []; reflexivity|reflexivity].
    - apply sim_t_boards; reflexivity.
    - apply sim_t_boards; reflexivity.
    - apply sim_t_boards; reflexivity.
    - apply sim_t_boards; reflexivity.
    - apply sim_crecv; [reflexivity|]. intros s. apply sim_c_boards; reflexivity.
    - apply sim_crecv; [reflexivity|]. intros s. apply sim_c_boards; reflexivity.
    - apply sim_crecv; [reflexivity|]. intros s. apply sim_c_boards; reflexivity.
    - apply sim_crecv; [reflexivity|]. intros s. apply sim_c_boards; reflexivity. }
  destruct (embed_run msg PARTIES (sgm n pi) (rhm n pi) idc 9 26 0 (sgm_inj n pi pi_lt pi_inj) (rhm_inj n pi pi_lt pi_inj)
              ltac:(intros a b Ha; lia) l2 _ _ s1 Hr2 C1) as (f & Hr3 & Cf & Ff).
  destruct (final_corr n pi _ _ _ _ _ _ _ _ _ _ f Cf) as (Fm & Fs & Flog & FtN & FtE & FtS & FtW).
  assert (Hrun : srun (l1 ++ map (sgm n pi) l2) (init_state x) = Some f).
  { unfold srun in *. rewrite run_app, Hr1. exact Hr3. }
  assert (Lpf : length (Kahn.procs msg f) = 1 + 2 * n).
  { destruct Ff as ((Lp & _) & _). rewrite Lp. destruct Hsh as (Lp1 & _). exact Lp1. }
  assert (Out : arrivals_outcome x f).
  { unfold arrivals_outcome. cbv zeta. fold reqs n nb T boards scr pi.
    split; [exact Fm|]. split; [|split].
    - exists recs. split; [|exact Hrecs]. unfold log_events. rewrite (chan_of_chn _ _ _ Flog). apply log_flat.
    - intros p. destruct (Fs p) as [A B]. split; [exact A|]. split; [exact B|].
      unfold down_view. fold ns ew.
      destruct p; cbn [side_of] in *.
      + rewrite (chan_of_chn _ _ _ FtN). unfold T0. rewrite SN. reflexivity.
      + rewrite (chan_of_chn _ _ _ FtE). unfold T2. rewrite SE. reflexivity.
      + rewrite (chan_of_chn _ _ _ FtS). unfold T4. rewrite SS. reflexivity.
      + rewrite (chan_of_chn _ _ _ FtW). unfold T6. rewrite SW. reflexivity.
    - intros j a Hj. assert (Bj : j < n) by (apply nth_error_Some; fold reqs; congruence).
      destruct (Hl j a Hj) as (Hb & _ & Hd).
      split; [|split].
      + intros L E.
        assert (Cases : a_seat a = North \/ a_seat a = East \/ a_seat a = South \/ a_seat a = West) by (destruct (a_seat a); auto).
        destruct Cases as [Sa|[Sa|[Sa|Sa]]]; rewrite Sa.
        * rewrite CN_. destruct (Nat.eq_dec j jN) as [e|N1]; [exact e|]. exfalso. exact (UN j a Hj Sa L N1 E).
        * rewrite CE_. destruct (Nat.eq_dec j jE) as [e|N1]; [exact e|]. exfalso. exact (UE j a Hj Sa L N1 E).
        * rewrite CS_. destruct (Nat.eq_dec j jS) as [e|N1]; [exact e|]. exfalso. exact (US j a Hj Sa L N1 E).
        * rewrite CW_. destruct (Nat.eq_dec j jW) as [e|N1]; [exact e|]. exfalso. exact (UW j a Hj Sa L N1 E).
      + intros e L E. rewrite (loc_frame n pi pi_lt pi_inj s1 f j Ff Bj); [exact (Hb e L E)|].
        intros [] Ep; rewrite ?CN_, ?CE_, ?CS_, ?CW_ in Ep; subst j; congruence.
      + intros L. rewrite (loc_frame n pi pi_lt pi_inj s1 f j Ff Bj); [exact (Hd L)|].
        intros [] Ep; rewrite ?CN_, ?CE_, ?CS_, ?CW_ in Ep; subst j; lia. }
  exists (l1 ++ map (sgm n pi) l2), f. split; [exact Hrun|]. split; [exact (arrivals_outcome_final x f Lpf Out)|].
  exact Out.
Qed.

(* ===================================================================== every schedule *)
Theorem conforming_session_any_arrivals_every_schedule : forall x : session,
  let reqs := s_arrivals x in
  let T := seat_requests reqs empty_table in
  s_boards x <> [] -> s_interrupt x = None -> wf_requests reqs -> all_seated T = true ->
  conforming (s_boards x) (seated_scripts x) = true ->
  exists f N, sfinal f /\ arrivals_outcome x f /\
    forall l' s', srun l' (init_state x) = Some s' ->
      length l' <= N /\ (sfinal s' -> s' = f /\ length l' = N).
Proof.
  intros x reqs T Hne Hint Hwf AS Hconf.
  destruct (conforming_session_any_arrivals x Hne Hint Hwf AS Hconf) as (l & f & Hr & Hf & Out).
  exists f, (length l). split; [exact Hf|]. split; [exact Out|].
  intros l' s' Hr'. split.
  - exact (session_no_run_is_longer _ l f l' s' Hr Hf Hr').
  - intros Hs'. exact (session_maximal_runs_agree _ l f l' s' Hr Hf Hr' Hs').
Qed.

(* ---------- the outcome, spelled out for a request that was turned away and for one that came too late ---------- *)
Lemma outcome_turned x f j a e : arrivals_outcome x f -> nth_error (s_arrivals x) j = Some a ->
  j < looked_at (s_arrivals x) empty_table ->
  admission_error (table_before (s_arrivals x) j) (a_team a) (a_seat a) (a_version a) = Some e ->
  pr f (S j) = Some Ret /\ pr f (S (nconn x + j)) = Some Fail /\ chan f (tr_down (nconn x) j) = [MS e; MS CLOSED].
Proof.
  intros (_ & _ & _ & Hr) Hj L E. cbv zeta in Hr. destruct (Hr j a Hj) as (_ & H & _). specialize (H e L E).
  unfold turned_view in H.
  pose proof (f_equal v_thread H) as Vt. pose proof (f_equal v_client H) as Vc. pose proof (f_equal v_trdown H) as Vd.
  cbn [loc v_thread v_client v_trdown] in Vt, Vc, Vd.
  split; [exact Vt|]. split; [exact Vc|exact (chan_of_chn _ _ _ Vd)].
Qed.
Lemma outcome_late x f j a : arrivals_outcome x f -> nth_error (s_arrivals x) j = Some a ->
  looked_at (s_arrivals x) empty_table <= j ->
  (exists k, pr f (S j) = Some (Get (ch_q j) k)) /\ chn f (ch_q j) = Some [] /\
  (exists k, pr f (S (nconn x + j)) = Some (Get (ch_down j) k)) /\ chn f (ch_down j) = Some [] /\
  chan f (tr_down (nconn x) j) = [] /\ chan f (ch_up j) = [cline a].
Proof.
  intros (_ & _ & _ & Hr) Hj L. cbv zeta in Hr. destruct (Hr j a Hj) as (_ & _ & H). specialize (H L).
  unfold waiting_view, conn_proc, client_wait, crecv, sget in H.
  pose proof (f_equal v_thread H) as Vt. pose proof (f_equal v_client H) as Vc. pose proof (f_equal v_trdown H) as Vd.
  pose proof (f_equal v_q H) as Vq. pose proof (f_equal v_down H) as Vdn. pose proof (f_equal v_up H) as Vup.
  cbn [loc v_thread v_client v_trdown v_q v_down v_up] in Vt, Vc, Vd, Vq, Vdn, Vup.
  split; [eexists; exact Vt|]. split; [exact Vq|]. split; [eexists; exact Vc|]. split; [exact Vdn|].
  split; [exact (chan_of_chn _ _ _ Vd)|exact (chan_of_chn _ _ _ Vup)].
Qed.

(* ---------- the premises are satisfiable: SessionAdmission's eight requests (three turned away, one too late), one passed-out board ---------- *)
Example any_arrivals_instance : forall id d dda,
  let x := mkSession [mkBoard id North VNone d dda] reqs8
             [[]; pass_script 1 North; []; []; pass_script 1 East; pass_script 1 South; pass_script 1 West; []] None in
  exists f N, sfinal f /\ arrivals_outcome x f /\
    forall l' s', srun l' (init_state x) = Some s' -> length l' <= N /\ (sfinal s' -> s' = f /\ length l' = N).
Proof.
  intros id d dda x.
  destruct premises_satisfiable as (Hwf & Hfull & _).
  apply (conforming_session_any_arrivals_every_schedule x); [discriminate|reflexivity|exact Hwf|exact Hfull|].
  vm_compute. reflexivity.
Qed.

(* ===================================================================== the four acceptable requests in any order *)
Lemma conn_map_facts reqs : all_seated (seat_requests reqs empty_table) = true ->
  (forall p, conn_map reqs p < length reqs) /\
  (forall p q, conn_map reqs p = conn_map reqs q -> p = q) /\
  (forall p, exists a, In a reqs /\ a_seat a = p /\ seat_requests reqs empty_table p = Some (a_team a)).
Proof.
  intros AS.
  assert (K : forall p, exists a, nth_error reqs (conn_map reqs p) = Some a /\ a_seat a = p /\
                                  seat_requests reqs empty_table p = Some (a_team a)).
  { intros p. destruct (table_seats_first_acceptable reqs AS p) as (j & a & Hj & Hs & _ & _ & Tp & Cp & _).
    exists a. rewrite Cp. auto. }
  split; [|split].
  - intros p. destruct (K p) as (a & Ha & _). apply nth_error_Some. congruence.
  - intros p q E. destruct (K p) as (a & Ha & Hs & _). destruct (K q) as (b & Hb & Hs' & _). rewrite E in Ha. congruence.
  - intros p. destruct (K p) as (a & Ha & Hs & Ht). exists a. split; [exact (nth_error_In _ _ Ha)|auto].
Qed.

Definition four_requests (ns ew : string) : list arrival :=
  [mkArr North ns 18; mkArr East ew 18; mkArr South ns 18; mkArr West ew 18].

Lemma four_team ns ew a : In a (four_requests ns ew) ->
  a_version a = 18 /\ a_team a = match side_of (a_seat a) with NS => ns | EW => ew end.
Proof. intros [<-|[<-|[<-|[<-|[]]]]]; split; reflexivity. Qed.

Lemma four_acceptable ns ew reqs : Permutation (four_requests ns ew) reqs -> acceptable_eventually reqs.
Proof.
  intros P p.
  set (a := mkArr p (match side_of p with NS => ns | EW => ew end) 18).
  assert (Ia : In a (four_requests ns ew)) by (destruct p; cbn; tauto).
  destruct (in_split _ _ (Permutation_in _ P Ia)) as (pre & post & E).
  exists pre, a, post. split; [exact E|]. split; [reflexivity|]. split; [reflexivity|].
  rewrite <- E. intros b Hb _ Hside.
  destruct (four_team ns ew b (Permutation_in _ (Permutation_sym P) Hb)) as [_ ->].
  rewrite Hside. reflexivity.
Qed.

Lemma forallb_nth {A} (g : A -> bool) (l : list A) :
  (forall t x, nth_error l t = Some x -> g x = true) -> forallb g l = true.
Proof.
  intros H. apply forallb_forall. intros x Hx. destruct (In_nth_error _ _ Hx) as (t & Ht). exact (H t x Ht).
Qed.

Theorem conforming_session_any_order : forall boards ns ew reqs scripts,
  Permutation (four_requests ns ew) reqs ->
  boards <> [] -> no_quote ns -> no_quote ew ->
  let x := mkSession boards reqs scripts None in
  let T := seat_requests reqs empty_table in
  conforming boards (seated_scripts x) = true ->
  exists l f, srun l (init_state x) = Some f /\ Kahn.all_doneb msg f = true /\
    (forall p, names_of T p = NM ns ew p) /\
    (exists recs, log_events 4 f = LOpen :: map LRec recs ++ [LClose] /\
                  map Some recs = recs_from (names_of T) (seated_scripts x) 0 boards) /\
    (forall p, chan f (tr_down 4 (conn_map reqs p)) = down_view boards ns ew (seated_scripts x) p).
Proof.
  intros boards ns ew reqs scripts P Hne Hns Hew x T Hconf.
  assert (AS : all_seated T = true) by exact (all_seated_eventually reqs (four_acceptable ns ew reqs P)).
  assert (Hwf : wf_requests reqs).
  { unfold wf_requests. apply Forall_forall. intros a Ha.
    destruct (four_team ns ew a (Permutation_in _ (Permutation_sym P) Ha)) as [_ ->]. destruct (side_of (a_seat a)); assumption. }
  assert (Hn : nconn x = 4) by (unfold nconn; cbn [s_arrivals x]; rewrite <- (Permutation_length P); reflexivity).
  destruct (conn_map_facts reqs AS) as (Plt & Pinj & Pteam).
  assert (Names : forall p, names_of T p = NM ns ew p).
  { intros p. destruct (Pteam p) as (a & Ia & Hs & Tp). unfold names_of. fold T in Tp. rewrite Tp.
    destruct (four_team ns ew a (Permutation_in _ (Permutation_sym P) Ia)) as [_ ->]. rewrite Hs. destruct p; reflexivity. }
  destruct (conforming_session_any_arrivals x Hne eq_refl Hwf AS Hconf) as (l & f & Hr & Hf & Hm & Hlog & Hs & Hreq).
  cbn [s_arrivals s_boards x] in Hlog, Hs, Hreq. rewrite Hn in Hlog, Hs. fold T in Hlog, Hs.
  exists l, f. split; [exact Hr|]. split; [|split; [exact Names|split; [exact Hlog|]]].
  - destruct (LI_run _ _ _ _ (LI_init x) Hr) as (_ & Len & _). rewrite Hn in Len.
    unfold Kahn.all_doneb. apply forallb_nth. intros t p Ht.
    assert (Lt : t < 9) by (assert (t < length (Kahn.procs msg f)) by (apply nth_error_Some; congruence); lia).
    assert (R : pr f t = Some Ret).
    { assert (L4 : length reqs = 4) by (rewrite <- (Permutation_length P); reflexivity).
      pose proof (Plt North) as B1. pose proof (Plt East) as B2. pose proof (Plt South) as B3. pose proof (Plt West) as B4.
      rewrite L4 in B1, B2, B3, B4.
      assert (D1 : conn_map reqs North <> conn_map reqs East) by (intros E; apply Pinj in E; discriminate E).
      assert (D2 : conn_map reqs North <> conn_map reqs South) by (intros E; apply Pinj in E; discriminate E).
      assert (D3 : conn_map reqs North <> conn_map reqs West) by (intros E; apply Pinj in E; discriminate E).
      assert (D4 : conn_map reqs East <> conn_map reqs South) by (intros E; apply Pinj in E; discriminate E).
      assert (D5 : conn_map reqs East <> conn_map reqs West) by (intros E; apply Pinj in E; discriminate E).
      assert (D6 : conn_map reqs South <> conn_map reqs West) by (intros E; apply Pinj in E; discriminate E).
      destruct t as [|t]; [exact Hm|].
      assert (C : exists p, t = conn_map reqs p \/ t = 4 + conn_map reqs p).
      { destruct (Nat.lt_ge_cases t 4) as [L|G].
        - assert (t = conn_map reqs North \/ t = conn_map reqs East \/ t = conn_map reqs South \/ t = conn_map reqs West) as [E|[E|[E|E]]] by lia;
            eexists; left; exact E.
        - assert (t = 4 + conn_map reqs North \/ t = 4 + conn_map reqs East \/ t = 4 + conn_map reqs South \/ t = 4 + conn_map reqs West) as [E|[E|[E|E]]] by lia;
            eexists; right; exact E. }
      destruct C as (q & [-> | ->]); [exact (proj1 (Hs q))|exact (proj1 (proj2 (Hs q)))]. }
    unfold pr in R. rewrite R in Ht. injection Ht as <-. reflexivity.
  - intros p. rewrite (proj2 (proj2 (Hs p))). rewrite (Names North), (Names East). reflexivity.
Qed.

Print Assumptions conforming_session_any_arrivals.
Print Assumptions conforming_session_any_arrivals_every_schedule.
Print Assumptions conforming_session_any_order.
Print Assumptions outcome_turned.
Print Assumptions outcome_late.
Print Assumptions any_arrivals_instance.
