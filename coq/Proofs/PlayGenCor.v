(* C04-C06 restated for the play functions REGENERATED from playing_phase.py on every run
   (Gen/PlayFns.v, written by harness/gen_play.py), through the equalities of Proofs/PlayGen.v.
   The generated play_card has one more outcome than the hand model: the ValueError of PlayingHistory.record.
   It is shown here to be unreachable: every state reached from __init__ by the generated functions satisfies
   hist_ok, so the generated run never raises and equals the run of the hand model. *)
From BE Require Import Model.Play Spec.PlayLaws Gen.PlayFns Proofs.PlayGen.
From BE Require Proofs.Play.
Import Proofs.Play.
Local Open Scope nat_scope.

(* ---- bare play: the run of the generated play_card ---- *)
Definition g_pstep (s : pstate) (c : card) : pstate := fst (g_play_card s c).
Definition g_runp (s : pstate) (cards : list card) : pstate := fold_left g_pstep cards s.

Lemma g_runp_eq_from : forall cards s, hist_ok s -> g_runp s cards = runp s cards /\ hist_ok (g_runp s cards).
Proof.
  induction cards as [|c r IH]; intros s H; cbn [g_runp runp fold_left]; [split; [reflexivity|exact H]|].
  assert (E : g_pstep s c = play_card s c) by (unfold g_pstep; rewrite (g_play_card_eq s c H); reflexivity).
  assert (H' : hist_ok (g_pstep s c)) by (apply hist_ok_play_card; exact H).
  rewrite <- E. apply (IH _ H').
Qed.

Theorem g_runp_eq : forall k s0 cards, g_init_play k = Some s0 -> g_runp s0 cards = runp s0 cards.
Proof. intros k s0 cards H. apply g_runp_eq_from. exact (hist_ok_init k s0 H). Qed.

(* the generated play_card never raises on a state reached from __init__ *)
Theorem g_play_never_raises : forall k s0 cards c, g_init_play k = Some s0 ->
  snd (g_play_card (g_runp s0 cards) c) = POk.
Proof.
  intros k s0 cards c H.
  destruct (g_runp_eq_from cards s0 (hist_ok_init k s0 H)) as [_ Hok].
  rewrite (g_play_card_eq _ c Hok). reflexivity.
Qed.

Theorem g_opening : forall k s0, g_init_play k = Some s0 ->
  exists l st d, final_bid k = Some (l, st) /\ cdeclarer k = Some d /\
  trump s0 = st /\ declarer s0 = d /\ dummy s0 = partner d /\ leader s0 = next d /\ pactive s0 = next d /\
  trick s0 = [] /\ trick_num s0 = 1 /\ tricks s0 = [] /\ taken_ns s0 = 0 /\ taken_ew s0 = 0.
Proof. intros k s0. rewrite g_init_play_eq. apply opening. Qed.

Theorem g_counters : forall k s0 cards, g_init_play k = Some s0 ->
  let s := g_runp s0 cards in let n := length cards in
  trick_num s = n / 4 + 1 /\ length (trick s) = n mod 4 /\ length (tricks s) = n / 4 /\
  taken_ns s + taken_ew s = n / 4 /\ pactive s = rot (leader s) (length (trick s)) /\
  trump s = trump s0 /\ declarer s = declarer s0 /\ dummy s = dummy s0.
Proof.
  intros k s0 cards H. rewrite (g_runp_eq k s0 cards H). rewrite g_init_play_eq in H. exact (counters k s0 cards H).
Qed.

Theorem g_history_is_the_cards : forall k s0 cards, g_init_play k = Some s0 ->
  let s := g_runp s0 cards in
  concat (map snd (tricks s)) ++ trick s = cards /\ Forall (fun t => length (snd t) = 4) (tricks s).
Proof.
  intros k s0 cards H. rewrite (g_runp_eq k s0 cards H). rewrite g_init_play_eq in H. exact (history_is_the_cards k s0 cards H).
Qed.

(* the winner computation of the generated _set_next_leader is the one the law is proved for *)
Theorem g_next_leader_is_law_winner : forall s,
  length (trick s) = 4 ->
  leader (fst (g_set_next_leader s)) = rot (leader s) (winner_idx (trump s) (trick s)) /\ snd (g_set_next_leader s) = POk.
Proof.
  intros s H. rewrite g_set_next_leader_eq. rewrite H. cbn [Nat.eqb negb]. split; reflexivity.
Qed.

Theorem g_phase_done_iff : forall k s0 cards, g_init_play k = Some s0 ->
  g_phase_done (g_runp s0 cards) = (13 <? length cards / 4 + 1).
Proof.
  intros k s0 cards H. rewrite g_phase_done_eq. unfold phase_done.
  destruct (g_counters k s0 cards H) as [E _]. cbv zeta in E. rewrite E. reflexivity.
Qed.

(* ---- with hands: the run of the generated play_card_by_player ---- *)
Definition g_hstep (s : hstate) (op : card * seat) : hstate := fst (g_play_by s (fst op) (snd op)).
Definition g_runh (s : hstate) (ops : list (card * seat)) : hstate := fold_left g_hstep ops s.

Lemma play_by_base : forall s c p, hbase (fst (play_by s c p)) = hbase s \/ hbase (fst (play_by s c p)) = play_card (hbase s) c.
Proof.
  intros s c p. unfold play_by.
  destruct (negb (seat_beq p (pactive (hbase s)))); [left; reflexivity|].
  destruct (negb (has_card (hands s p) c)); [left; reflexivity|right; reflexivity].
Qed.

Lemma hist_ok_model_play_card : forall b c, hist_ok b -> hist_ok (play_card b c).
Proof.
  intros b c H. pose proof (hist_ok_play_card b c H) as H1. rewrite (g_play_card_eq b c H) in H1. exact H1.
Qed.

Lemma g_runh_eq_from : forall ops s, hist_ok (hbase s) -> g_runh s ops = runh s ops /\ hist_ok (hbase (g_runh s ops)).
Proof.
  induction ops as [|[c p] r IH]; intros s H; cbn [g_runh runh fold_left]; [split; [reflexivity|exact H]|].
  assert (E : g_hstep s (c, p) = hstep s (c, p)) by (unfold g_hstep, hstep; cbn [fst snd]; rewrite (g_play_by_eq s c p H); reflexivity).
  assert (H' : hist_ok (hbase (g_hstep s (c, p)))).
  { rewrite E. unfold hstep. cbn [fst snd]. destruct (play_by_base s c p) as [Eb|Eb]; rewrite Eb; [exact H|].
    apply hist_ok_model_play_card. exact H. }
  rewrite <- E. apply (IH _ H').
Qed.

Lemma init_hands_hist_ok : forall k deal s0, g_init_hands k deal = Some s0 -> hist_ok (hbase s0).
Proof.
  intros k deal s0. rewrite g_init_hands_eq. unfold init_hands.
  destruct (init_play k) as [b|] eqn:E; cbn [option_map]; [|discriminate].
  intros H. injection H as <-. cbn [hbase]. apply (hist_ok_init k). rewrite g_init_play_eq. exact E.
Qed.

Theorem g_runh_eq : forall k deal s0 ops, g_init_hands k deal = Some s0 -> g_runh s0 ops = runh s0 ops.
Proof. intros k deal s0 ops H. apply g_runh_eq_from. exact (init_hands_hist_ok k deal s0 H). Qed.

(* accepted exactly when it is the turn of that seat and the seat holds the card - on every reachable state, every offer *)
Theorem g_accept_iff : forall k deal s0 ops c p, g_init_hands k deal = Some s0 ->
  let s := g_runh s0 ops in
  snd (g_play_by s c p) = POk <-> (p = pactive (hbase s) /\ In c (hands s p)).
Proof.
  intros k deal s0 ops c p H. cbv zeta.
  destruct (g_runh_eq_from ops s0 (init_hands_hist_ok k deal s0 H)) as [_ Hok].
  rewrite (g_play_by_eq _ c p Hok). apply play_by_accept_iff.
Qed.

Theorem g_refused_is_noop : forall k deal s0 ops c p, g_init_hands k deal = Some s0 ->
  let s := g_runh s0 ops in snd (g_play_by s c p) = PRaises -> fst (g_play_by s c p) = s.
Proof.
  intros k deal s0 ops c p H. cbv zeta.
  destruct (g_runh_eq_from ops s0 (init_hands_hist_ok k deal s0 H)) as [_ Hok].
  rewrite (g_play_by_eq _ c p Hok). apply play_by_refused_noop.
Qed.

Theorem g_partition : forall k deal s0 ops, g_init_hands k deal = Some s0 -> disjoint_deal deal ->
  let s := g_runh s0 ops in let acc := accepted_ops s0 ops in
  (forall p c, In c (deal p) <-> (In c (hands s p) \/ In (c, p) acc)) /\
  (forall p c, In c (hands s p) -> ~ In (c, p) acc) /\
  disjoint_deal (hands s) /\
  NoDup (map fst acc) /\
  map fst acc = concat (map snd (tricks (hbase s))) ++ trick (hbase s).
Proof.
  intros k deal s0 ops H D. rewrite (g_runh_eq k deal s0 ops H). rewrite g_init_hands_eq in H.
  exact (partition_invariant k deal s0 ops H D).
Qed.

(* ---- the playable set ---- *)
Theorem g_available_spec : forall hand led c, In c (g_available hand led) <-> may_play hand led c.
Proof. intros hand led c. rewrite g_available_eq. apply available_spec. Qed.

Theorem g_current_available_spec : forall s hand,
  g_current_available s hand = Some (available hand (hd_error (trick s))).
Proof. intros s hand. rewrite g_current_available_eq. reflexivity. Qed.

(* ---- the single-seat observer ---- *)
Theorem g_obs_step_eq : forall s c p, hist_ok (obase s) -> g_obs_play_by s c p = obs_play_by s c p.
Proof. exact g_obs_play_by_eq. Qed.

Print Assumptions g_runp_eq.
Print Assumptions g_play_never_raises.
Print Assumptions g_counters.
Print Assumptions g_history_is_the_cards.
Print Assumptions g_runh_eq.
Print Assumptions g_accept_iff.
Print Assumptions g_partition.
Print Assumptions g_available_spec.
