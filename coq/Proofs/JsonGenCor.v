(* C12 / C17 restated for the JSON record writer and reader REGENERATED from json_handler/writer.py and parser.py on every
   run (Gen/JsonFns.v, written by harness/gen_jsonw.py), through the equalities of Proofs/JsonGen.v.
   What the generated reader returns is read through the typed views shape_log / shape_setting of Proofs/JsonGen.v. *)
From BE Require Import Model.Json Model.Schema Model.SchemasHand Gen.JsonFns Proofs.JsonGen.
From BE Require Proofs.Json.
Import Proofs.Json.
Local Open Scope string_scope.
Local Open Scope list_scope.

Definition g_read_logs (doc : json) : option (list logrec) := py_bind (g_parse_board_logs doc) (map_opt shape_log).
Definition g_read_settings (doc : json) : option (list setting) := py_bind (g_parse_board_settings doc) (map_opt shape_setting).
Definition g_logs_doc (rs : list logrec) : json := JObj [("logs", JArr (map g_record_json rs))].
Definition g_settings_doc (ss : list setting) : json := JObj [("board_settings", JArr (map g_setting_json ss))].

Lemma g_logs_doc_eq : forall rs, g_logs_doc rs = JObj [("logs", JArr (map record_json rs))].
Proof. intros rs. unfold g_logs_doc. rewrite (map_ext _ _ g_record_json_eq). reflexivity. Qed.
Lemma g_settings_doc_eq : forall ss, g_settings_doc ss = JObj [("board_settings", JArr (map setting_json ss))].
Proof. intros ss. unfold g_settings_doc. rewrite (map_ext _ _ g_setting_json_eq). reflexivity. Qed.

Lemma written_doc_ok : forall rs l, field "logs" (JObj [("logs", JArr (map record_json rs))]) = Some (JArr l) ->
  forall j, In j l -> log_written j.
Proof.
  intros rs l H j Hj. cbn in H. injection H as <-. apply in_map_iff in Hj. destruct Hj as (r & <- & _). apply written_log_ok.
Qed.

(* every list of records written by the generated writer is read back by the generated reader as those records *)
Theorem g_logs_roundtrip : forall rs, Forall wf_rec rs ->
  exists rs', g_read_logs (g_logs_doc rs) = Some rs' /\ Forall2 rec_equiv rs rs'.
Proof.
  intros rs H. unfold g_read_logs. rewrite g_logs_doc_eq.
  rewrite (g_parse_board_logs_eq _ (written_doc_ok rs)). apply logs_roundtrip. exact H.
Qed.

(* a log is also a list of board settings *)
Theorem g_log_as_settings : forall rs,
  exists ss, g_read_settings (g_logs_doc rs) = Some ss /\ Forall2 setting_matches rs ss.
Proof. intros rs. unfold g_read_settings. rewrite g_logs_doc_eq, g_parse_board_settings_eq. apply log_as_settings. Qed.

Theorem g_logs_schema_valid : forall rs, Forall (fun r => dda_full (l_dda r)) rs ->
  validates log_schema (g_logs_doc rs) = true.
Proof. intros rs H. rewrite g_logs_doc_eq. apply log_schema_valid. exact H. Qed.

(* board-setting files *)
Theorem g_settings_roundtrip : forall ss,
  exists ss', g_read_settings (g_settings_doc ss) = Some ss' /\ Forall2 setting_equiv ss ss'.
Proof. intros ss. unfold g_read_settings. rewrite g_settings_doc_eq, g_parse_board_settings_eq. apply settings_roundtrip. Qed.

Print Assumptions g_logs_roundtrip.
Print Assumptions g_settings_roundtrip.
Print Assumptions g_log_as_settings.
Print Assumptions g_logs_schema_valid.
