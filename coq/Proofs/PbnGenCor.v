(* C18 restated for the PBN writer REGENERATED from pbn_handler/writer.py on every run
   (Gen/PbnFns.v, written by harness/gen_pbnw.py), through the equalities of Proofs/PbnGen.v.
   The exported file is what the stream receives: the chunks of write_header (if asked for) and of
   write_board_result for each result, in order, concatenated. *)
From BE Require Import Model.Pbn Gen.PbnFns Proofs.PbnGen.
From BE Require Proofs.Pbn.
Import Proofs.Pbn.
Local Open Scope string_scope.
Local Open Scope nat_scope.
Local Open Scope list_scope.

Definition g_write_file (header : bool) (rs : list pbn_result) : option string :=
  match (if header then g_write_header else Some []), map_opt g_write_board_result rs with
  | Some hd, Some ls => Some (sconcat (hd ++ concat ls))
  | _, _ => None end.

Lemma map_opt_ext : forall (A B : Type) (f g : A -> option B) l, (forall x, f x = g x) -> map_opt f l = map_opt g l.
Proof. intros A B f g l H. induction l as [|x r IH]; cbn [map_opt]; [reflexivity|]. rewrite H, IH. reflexivity. Qed.

Theorem g_write_file_eq : forall h rs, g_write_file h rs = write_file h rs.
Proof.
  intros h rs. unfold g_write_file, write_file.
  rewrite (map_opt_ext _ _ g_write_board_result write_board_result rs g_write_board_result_eq).
  rewrite g_write_header_eq.
  destruct h; destruct (map_opt write_board_result rs); reflexivity.
Qed.

Theorem g_lines_le_255 : forall h rs text l, g_write_file h rs = Some text -> In l (lines text) -> String.length l <= 255.
Proof. intros h rs text l. rewrite g_write_file_eq. apply every_written_line_le_255. Qed.

Theorem g_export_defined : forall h rs, Forall result_ok rs -> exists text, g_write_file h rs = Some text.
Proof. intros h rs H. rewrite g_write_file_eq. apply export_defined. exact H. Qed.

Theorem g_export_roundtrip : forall h rs text, Forall result_ok rs -> g_write_file h rs = Some text ->
  exists tss, map_opt tags15 rs = Some tss /\ parse_all text = Some tss.
Proof. intros h rs text H. rewrite g_write_file_eq. apply export_roundtrip. exact H. Qed.

Theorem g_export_one_game_per_result : forall h rs text gs, Forall result_ok rs -> g_write_file h rs = Some text ->
  parse_all text = Some gs -> length gs = length rs.
Proof. intros h rs text gs H. rewrite g_write_file_eq. apply export_one_game_per_result. exact H. Qed.

Theorem g_export_as_settings : forall h rs text, Forall result_ok rs -> g_write_file h rs = Some text ->
  exists ss, parse_board_settings text = Some (Some ss) /\ Forall2 result_matches rs ss.
Proof. intros h rs text H. rewrite g_write_file_eq. apply export_as_settings. exact H. Qed.

Print Assumptions g_write_file_eq.
Print Assumptions g_lines_le_255.
Print Assumptions g_export_roundtrip.
Print Assumptions g_export_one_game_per_result.
Print Assumptions g_export_as_settings.
