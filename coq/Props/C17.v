(* C17 - Board-settings files are read back as the boards that were written, in order.
   Only statements, each closed by [exact]; proofs are in the files imported below. *)
From BE Require Import Gen.JsonFns Proofs.JsonGen Proofs.JsonGenCor.
From BE Require Import Model.Json Model.Schema Model.Pbn Model.JsonFramingHand Model.SchemasHand Gen.Regexes Proofs.Json Proofs.Pbn Proofs.Pins Proofs.JsonPins.
From BE Require Gen.JsonFraming Gen.Schemas.
From Coq Require Import ZArith.
Local Open Scope string_scope.
Local Open Scope nat_scope.
Local Open Scope list_scope.

(* JSON: every board setting, double-dummy table included *)
Theorem C17_json_setting_roundtrip :
  forall s, exists s', setting_of_json (setting_json s) = Some s' /\ setting_equiv s s'.
Proof. exact setting_roundtrip. Qed.
Print Assumptions C17_json_setting_roundtrip.

(* JSON: every list of settings, in order *)
Theorem C17_json_settings_roundtrip :
  forall ss,
  exists ss', Json.parse_board_settings (JObj [("board_settings"%string, JArr (map setting_json ss))]) = Some ss' /\ Forall2 setting_equiv ss ss'.
Proof. exact settings_roundtrip. Qed.
Print Assumptions C17_json_settings_roundtrip.

(* the file written by open / write* / close is one JSON document, for every list (tag board_settings is covered by the word condition) *)
Theorem C17_json_framing :
  forall tag rs, sforall (fun c => is_alpha c || Ascii.eqb c "_"%char) tag = true ->
  exists ts, written_tokens json_framing tag rs = Some ts /\ parse_doc ts = Some (JObj [(tag, JArr rs)]).
Proof. exact framing_parses. Qed.
Print Assumptions C17_json_framing.

Theorem C17_json_schema :
  forall ss, Forall (fun s => dda_full (s_dda s)) ss ->
  validates setting_schema (JObj [("board_settings"%string, JArr (map setting_json ss))]) = true.
Proof. exact settings_schema_valid. Qed.
Print Assumptions C17_json_schema.

(* JsonBoardSettingWriter.write REGENERATED from writer.py on every run equals the hand model, for every setting *)
Theorem C17_generated_setting_writer_is_hand_model :
  forall s : setting, g_setting_json s = setting_json s.
Proof. exact g_setting_json_eq. Qed.
Print Assumptions C17_generated_setting_writer_is_hand_model.

(* convert_board_setting regenerated from parser.py equals the hand model on EVERY JSON value *)
Theorem C17_generated_setting_reader_is_hand_model :
  forall j, py_bind (g_setting_of_json j) shape_setting = setting_of_json j.
Proof. exact g_setting_of_json_eq. Qed.
Print Assumptions C17_generated_setting_reader_is_hand_model.

Theorem C17_generated_settings_reader_is_hand_model :
  forall doc,
  py_bind (g_parse_board_settings doc) (map_opt shape_setting) = Json.parse_board_settings doc.
Proof. exact g_parse_board_settings_eq. Qed.
Print Assumptions C17_generated_settings_reader_is_hand_model.

(* the property, for the regenerated writer and reader *)
Theorem C17_json_settings_roundtrip_generated :
  forall ss,
  exists ss', g_read_settings (g_settings_doc ss) = Some ss' /\ Forall2 setting_equiv ss ss'.
Proof. exact g_settings_roundtrip. Qed.
Print Assumptions C17_json_settings_roundtrip_generated.

(* the framing literals re-read from writer.py on this run are the ones the proofs use *)
Theorem C17_source_framing_is_the_modelled_one :
  Gen.JsonFraming.json_framing = Model.JsonFramingHand.json_framing.
Proof. exact framing_pinned. Qed.
Print Assumptions C17_source_framing_is_the_modelled_one.

Theorem C17_source_schema_is_the_modelled_one :
  Gen.Schemas.setting_schema = Model.SchemasHand.setting_schema.
Proof. exact setting_schema_pinned. Qed.
Print Assumptions C17_source_schema_is_the_modelled_one.

(* non-vacuity *)
Theorem C17_json_example :
  option_map parse_doc (written_tokens json_framing tag_settings (map setting_json [ex_set1; ex_set2])) = Some (Some ex_sdoc) /\
  option_map (map setting_view) (Json.parse_board_settings ex_sdoc) = Some (map setting_view [ex_set1; ex_set2]) /\
  validates setting_schema ex_sdoc = true.
Proof. exact ex_settings_written_and_read. Qed.
Print Assumptions C17_json_example.

(* PBN: every admissible layout - header lines, LF or CR LF, runs of blank lines before / between / after games, tags in any order, extra and repeated tags, table rows - is read as its games, first occurrence of each tag winning *)
Theorem C17_pbn_layouts :
  forall L, layout_ok L ->
  parse_all (render L) = Some (map (fun g => first_wins (tags_of g) []) (l_games L)).
Proof. exact parse_all_layout. Qed.
Print Assumptions C17_pbn_layouts.

(* hence the boards: deal written from any first seat, any accepted vulnerability spelling, dealer, id - in order *)
Theorem C17_pbn_settings_of_layout :
  forall L bs, layout_ok L -> Forall2 game_carries (l_games L) bs ->
  exists ss, parse_board_settings (render L) = Some (Some ss) /\ Forall2 setting_matches bs ss.
Proof. exact settings_of_layout. Qed.
Print Assumptions C17_pbn_settings_of_layout.

(* the patterns of the PBN parser, regenerated from the source on every run, are the ones Model/Pbn.v mirrors *)
Theorem C17_regex_pins :
  from_file "parser.py" regexes = pinned_pbn.
Proof. exact pins_pbn. Qed.
Print Assumptions C17_regex_pins.

(* non-vacuity: a two-game CR LF layout with header, repeated blank lines, a repeated tag, extra tags and a table row *)
Theorem C17_pbn_example_layout :
  layout_ok ex_layout.
Proof. exact ex_layout_ok. Qed.
Print Assumptions C17_pbn_example_layout.

Theorem C17_pbn_example_settings :
  option_map (option_map (map (fun s => (ps_board_id s, ps_dealer s, ps_vul s, map (fun p => List.length (ps_deal s p)) all_seats))))
    (parse_board_settings (render ex_layout)) =
  Some (Some [("1", North, VNone, [13; 13; 13; 13]); ("2", East, VBoth, [0; 0; 0; 0])]).
Proof. exact ex_layout_settings. Qed.
Print Assumptions C17_pbn_example_settings.

