(* C07 - Every contract and result scores what the duplicate scoring table says.
   Only statements, each closed by [exact]; see Proofs/C07.v. *)
From BE Require Import Model.Score Spec.Duplicate Spec.Domains Gen.ScoreGraph Gen.ScoreFns Proofs.C07 Proofs.ScoreGen Proofs.ScoreGenCor Proofs.ScoreConstsPin.
From BE Require Gen.ScoreConsts Model.ScoreConstsHand.
Open Scope Z_scope.

(* the model equals the running implementation on the complete domain (tie, kernel-checked) *)
Theorem C07_model_is_implementation :
  map (fun k => map (calc_score k) tricks14) score_domain = score_graph /\
  map (fun '((l, s), (x, xx), vb) => map (calc_bid_score l s x xx vb) tricks14) bid_score_domain = bid_score_graph /\
  map (fun k => map (calc_score k) tricks14) passed_out_domain = passed_out_graph.
Proof. exact (conj model_eq_graph (conj model_eq_graph_bid model_eq_graph_passed_out)). Qed.
Print Assumptions C07_model_is_implementation.

(* 35 bids x doubling flags x 4 vulnerabilities x 4 declarers x 14 trick counts *)
Theorem C07_all_contracts : forall l s x xx v d t, 0 <= t <= 13 ->
  calc_score (mkcontract (Some (l, s)) x xx v (Some d)) t
  = Some (dup_score (zlevel l) s (status_of x xx) (declarer_vulnerable d v) t).
Proof. exact all_contracts. Qed.
Print Assumptions C07_all_contracts.

Theorem C07_bid_score : forall l s x xx vb t, 0 <= t <= 13 ->
  calc_bid_score l s x xx vb t = Some (dup_score (zlevel l) s (status_of x xx) vb t).
Proof. exact all_bid_scores. Qed.
Print Assumptions C07_bid_score.

Theorem C07_passed_out_scores_zero : forall x xx v d t, calc_score (mkcontract None x xx v d) t = Some 0.
Proof. exact passed_out_zero. Qed.
Print Assumptions C07_passed_out_scores_zero.

Theorem C07_only_declarers_side : forall l s x xx v v' d t, 0 <= t <= 13 ->
  side_is_vul (side_of d) v = side_is_vul (side_of d) v' ->
  calc_score (mkcontract (Some (l, s)) x xx v (Some d)) t = calc_score (mkcontract (Some (l, s)) x xx v' (Some d)) t.
Proof. exact only_declarers_side. Qed.
Print Assumptions C07_only_declarers_side.

(* ---- the same for the functions REGENERATED from the text of score.py on every run (harness/gen_score.py -> Gen/ScoreFns.v) ---- *)
Theorem C07_generated_model_is_hand_model : forall k t, g_calc_score k t = calc_score k t.
Proof. exact g_calc_score_eq. Qed.
Print Assumptions C07_generated_model_is_hand_model.
Theorem C07_generated_bid_score_is_hand_model : forall l s x xx vul t, g_calc_bid_score l s x xx vul t = calc_bid_score l s x xx vul t.
Proof. exact g_calc_bid_score_eq. Qed.
Theorem C07_all_contracts_generated : forall l s x xx v d t, 0 <= t <= 13 ->
  g_calc_score (mkcontract (Some (l, s)) x xx v (Some d)) t
  = Some (dup_score (zlevel l) s (status_of x xx) (declarer_vulnerable d v) t).
Proof. exact g_all_contracts. Qed.
Print Assumptions C07_all_contracts_generated.
Theorem C07_passed_out_generated : forall x xx v d t, g_calc_score (mkcontract None x xx v d) t = Some 0.
Proof. exact g_passed_out_zero. Qed.
Print Assumptions C07_passed_out_generated.

(* every number of score.py, re-read from the source on this run, is the number the model uses *)
Theorem C07_source_constants_are_the_modelled_ones :
  Gen.ScoreConsts.k_minor = Model.ScoreConstsHand.k_minor /\
  Gen.ScoreConsts.k_major = Model.ScoreConstsHand.k_major /\
  Gen.ScoreConsts.k_nt = Model.ScoreConstsHand.k_nt /\
  Gen.ScoreConsts.k_make = Model.ScoreConstsHand.k_make /\
  Gen.ScoreConsts.k_make_x = Model.ScoreConstsHand.k_make_x /\
  Gen.ScoreConsts.k_make_xx = Model.ScoreConstsHand.k_make_xx /\
  Gen.ScoreConsts.k_game = Model.ScoreConstsHand.k_game /\
  Gen.ScoreConsts.k_game_vul = Model.ScoreConstsHand.k_game_vul /\
  Gen.ScoreConsts.k_small_slam = Model.ScoreConstsHand.k_small_slam /\
  Gen.ScoreConsts.k_small_slam_vul = Model.ScoreConstsHand.k_small_slam_vul /\
  Gen.ScoreConsts.k_grand_slam = Model.ScoreConstsHand.k_grand_slam /\
  Gen.ScoreConsts.k_grand_slam_vul = Model.ScoreConstsHand.k_grand_slam_vul /\
  Gen.ScoreConsts.k_overtrick_x = Model.ScoreConstsHand.k_overtrick_x /\
  Gen.ScoreConsts.k_overtrick_x_vul = Model.ScoreConstsHand.k_overtrick_x_vul /\
  Gen.ScoreConsts.k_overtrick_xx = Model.ScoreConstsHand.k_overtrick_xx /\
  Gen.ScoreConsts.k_overtrick_xx_vul = Model.ScoreConstsHand.k_overtrick_xx_vul /\
  Gen.ScoreConsts.k_down = Model.ScoreConstsHand.k_down /\
  Gen.ScoreConsts.k_down_vul = Model.ScoreConstsHand.k_down_vul /\
  Gen.ScoreConsts.k_down_x = Model.ScoreConstsHand.k_down_x /\
  Gen.ScoreConsts.k_down_x_vul = Model.ScoreConstsHand.k_down_x_vul /\
  Gen.ScoreConsts.k_down_xx = Model.ScoreConstsHand.k_down_xx /\
  Gen.ScoreConsts.k_down_xx_vul = Model.ScoreConstsHand.k_down_xx_vul /\
  Gen.ScoreConsts.k_imps_list = Model.ScoreConstsHand.k_imps_list.
Proof. exact score_constants_pinned. Qed.
Print Assumptions C07_source_constants_are_the_modelled_ones.
