(* C13 - An aborted session still leaves a well-formed log of the completed boards.
   Only statements, each closed by [exact]; proofs are in the files imported below. *)
From BE Require Import Model.Session Model.SessionTie Spec.SessionSpec Proofs.Kahn Proofs.Session Proofs.SessionExamples Model.Conform Proofs.SessionConform Proofs.SessionPassOut Proofs.Wire Model.Json Model.JsonFramingHand Proofs.C13Cor Proofs.JsonPins Proofs.SessionAbort Proofs.SessionAdmission Proofs.SessionArrivals Proofs.SessionAbortArrivals.
From BE Require Import Gen.Skeleton Proofs.SkeletonPin.
From Coq Require Import ZArith.
Local Open Scope nat_scope.
Local Open Scope list_scope.
(* FULL STATEMENT, PROVED (Proofs/SessionAbort.v for clients connecting in the order N, E, S, W; Proofs/SessionAbortArrivals.v for EVERY
   request list that fills the table, by the network embedding of Proofs/KahnEmbed.v): if the seated clients
   conform on the first a boards and board a+1 goes wrong at ANY position - a call text that does not parse, a call that parses
   but is illegal, a card text that does not parse, a card the table refuses - by whichever seat is on turn, then some schedule
   makes the main thread raise, no schedule can avoid it, every schedule is bounded, and whenever the main thread has ended (or
   nothing can move) the file is open ; the model records of exactly the first a boards ; close, and parses to those records.
   An operator interrupt after k main-thread steps leaves a prefix of the records of the uninterrupted session.  Not covered: a
   client that stops silently (then nothing is abandoned: the session blocks), and which prefix a given k yields. *)
(* every channel of the session network has one reader and one writer, for every input and every message that might arrive *)
Theorem C13_ownership :
  forall x, wf_state msg (rd x) (wr x) cw (init_state x).
Proof. exact session_wf. Qed.
Print Assumptions C13_ownership.

(* confluence: a run that has not finished can always be extended to the final state of any terminating run, with the same total number of steps *)
Theorem C13_any_schedule_can_be_completed :
  forall x l f l' s',
  srun l (init_state x) = Some f -> sfinal f -> srun l' (init_state x) = Some s' ->
  exists l'', srun l'' s' = Some f /\ length l' + length l'' = length l.
Proof. exact session_any_run_extends. Qed.
Print Assumptions C13_any_schedule_can_be_completed.

(* every maximal run, under every scheduler, ends in the same state after the same number of steps *)
Theorem C13_all_maximal_runs_agree :
  forall x l f l' s',
  srun l (init_state x) = Some f -> sfinal f -> srun l' (init_state x) = Some s' -> sfinal s' ->
  s' = f /\ length l' = length l.
Proof. exact session_maximal_runs_agree. Qed.
Print Assumptions C13_all_maximal_runs_agree.

Theorem C13_no_run_is_longer :
  forall x l f l' s',
  srun l (init_state x) = Some f -> sfinal f -> srun l' (init_state x) = Some s' -> length l' <= length l.
Proof. exact session_no_run_is_longer. Qed.
Print Assumptions C13_no_run_is_longer.

Theorem C13_canonical_run_is_a_run :
  forall fuel x s sched,
  run_session fuel x = (s, sched, true) -> srun sched (init_state x) = Some s /\ sfinal s.
Proof. exact canonical_run_sound. Qed.
Print Assumptions C13_canonical_run_is_a_run.

(* the synchronisation skeleton of server.py, re-extracted from the source on this run, is the one the session model was written against *)
Theorem C13_server_skeleton_is_the_modelled_one :
  server_skeleton = pinned_server_skeleton.
Proof. exact server_skeleton_pinned. Qed.
Print Assumptions C13_server_skeleton_is_the_modelled_one.

(* for every input (conforming or not), every interrupt point and EVERY schedule: at every moment the file content is open ; record* [; close] *)
Theorem C13_log_always_wellformed :
  forall x l s, srun l (init_state x) = Some s -> log_prefix (log_events (nconn x) s).
Proof. exact log_always_wellformed. Qed.
Print Assumptions C13_log_always_wellformed.

(* and once the main thread has ended - returned or raised, wherever and for whatever reason - the log is complete: never opened, or open ; record* ; close. Records are single writes, so each listed board is whole *)
Theorem C13_abort_log_complete :
  forall x l s,
  srun l (init_state x) = Some s -> main_ended s -> complete_log (log_events (nconn x) s).
Proof. exact log_complete_when_main_ends. Qed.
Print Assumptions C13_abort_log_complete.

(* the literals the writer puts around and between the records, re-read from writer.py on this run, are the ones these theorems use *)
Theorem C13_source_framing_is_the_modelled_one :
  Gen.JsonFraming.json_framing = Model.JsonFramingHand.json_framing.
Proof. exact framing_pinned. Qed.
Print Assumptions C13_source_framing_is_the_modelled_one.

(* and such a file - written with the literals regenerated from writer.py - is one JSON document whose records are exactly those *)
Theorem C13_aborted_log_parses :
  forall x l s,
  srun l (init_state x) = Some s -> main_ended s -> log_events (nconn x) s <> [] ->
  exists recs ts,
    log_events (nconn x) s = LOpen :: map LRec recs ++ [LClose] /\
    written_tokens json_framing tag_logs (map record_json recs) = Some ts /\
    parse_doc ts = Some (JObj [(tag_logs, JArr (map record_json recs))]).
Proof. exact aborted_log_parses. Qed.
Print Assumptions C13_aborted_log_parses.

(* FULL, symbolic and unbounded: any abort point (board, position, seat) and each kind of offending action *)
Theorem C13_abandoned_session_log :
  forall boards ns ew scripts a bd,
  no_quote ns -> no_quote ew ->
  (forall p, length (scripts p) = length boards) ->
  nth_error boards a = Some bd ->
  forallb (fun '(i, b) => conform_board b (fun p => nth_script (scripts p) i)) (combine (seq 0 a) (firstn a boards)) = true ->
  board_goes_wrong bd (fun p => nth_script (scripts p) a) ->
  exists recs, map Some recs = recs_from (NM ns ew) scripts 0 (firstn a boards) /\
    (* some schedule makes the main thread raise *)
    (exists l f, srun l (init_state (conf_session boards ns ew scripts)) = Some f /\ aborted_with recs f) /\
    (* no schedule can avoid it *)
    (forall l' s', srun l' (init_state (conf_session boards ns ew scripts)) = Some s' ->
       exists m' f, srun m' s' = Some f /\ aborted_with recs f) /\
    (* and whenever the main thread has ended, or nothing can move, it has raised and the file is complete and holds recs *)
    forall l' s', srun l' (init_state (conf_session boards ns ew scripts)) = Some s' -> main_ended s' \/ sfinal s' ->
      nth_error (procs msg s') 0 = Some Fail /\
      log_events 4 s' = LOpen :: map LRec recs ++ [LClose] /\
      exists ts, written_tokens json_framing tag_logs (map record_json recs) = Some ts /\
                 parse_doc ts = Some (JObj [(tag_logs, JArr (map record_json recs))]).
Proof. exact abandoned_session_log. Qed.
Print Assumptions C13_abandoned_session_log.

(* one final state, every schedule bounded, every maximal schedule ends in it *)
Theorem C13_abandoned_session_bounded :
  forall boards ns ew scripts a bd,
  no_quote ns -> no_quote ew ->
  (forall p, length (scripts p) = length boards) ->
  nth_error boards a = Some bd ->
  forallb (fun '(i, b) => conform_board b (fun p => nth_script (scripts p) i)) (combine (seq 0 a) (firstn a boards)) = true ->
  board_goes_wrong bd (fun p => nth_script (scripts p) a) ->
  exists recs fin bound, map Some recs = recs_from (NM ns ew) scripts 0 (firstn a boards) /\
    sfinal fin /\ aborted_with recs fin /\
    forall l' s', srun l' (init_state (conf_session boards ns ew scripts)) = Some s' -> length l' <= bound /\ (sfinal s' -> s' = fin).
Proof. exact abandoned_session_bounded. Qed.
Print Assumptions C13_abandoned_session_bounded.

(* the same for EVERY request list that fills the table (any order, refusals in between, late requests) *)
Theorem C13_abandoned_session_any_arrivals :
  forall (x : session) a bd,
  let reqs := s_arrivals x in
  let n := nconn x in
  let T := seat_requests reqs empty_table in
  s_interrupt x = None -> wf_requests reqs -> all_seated T = true ->
  (forall p, length (seated_scripts x p) = length (s_boards x)) ->
  nth_error (s_boards x) a = Some bd ->
  forallb (fun '(i, b) => conform_board b (fun p => nth_script (seated_scripts x p) i))
          (combine (seq 0 a) (firstn a (s_boards x))) = true ->
  board_goes_wrong bd (fun p => nth_script (seated_scripts x p) a) ->
  exists recs, map Some recs = recs_from (names_of T) (seated_scripts x) 0 (firstn a (s_boards x)) /\
    (* some schedule makes the main thread raise; the requests turned away or too late are as the seating phase left them *)
    (exists l f, srun l (init_state x) = Some f /\ pr f 0 = Some Fail /\
                 log_events n f = LOpen :: map LRec recs ++ [LClose] /\
                 (forall j r, nth_error reqs j = Some r ->
                    (forall e, j < looked_at reqs empty_table ->
                               admission_error (table_before reqs j) (a_team r) (a_seat r) (a_version r) = Some e ->
                               loc n f j = turned_view r e) /\
                    (looked_at reqs empty_table <= j -> loc n f j = waiting_view n (length (s_boards x)) j r (script_of x j)))) /\
    (* no schedule can avoid it *)
    (forall l' s', srun l' (init_state x) = Some s' ->
       exists m' f, srun m' s' = Some f /\ pr f 0 = Some Fail /\ log_events n f = LOpen :: map LRec recs ++ [LClose]) /\
    (* whenever the main thread has ended, or nothing can move, it has raised and the file is complete, holds recs and parses to them *)
    (forall l' s', srun l' (init_state x) = Some s' -> main_ended s' \/ sfinal s' ->
       pr s' 0 = Some Fail /\ log_events n s' = LOpen :: map LRec recs ++ [LClose] /\
       exists ts, written_tokens json_framing tag_logs (map record_json recs) = Some ts /\
                  parse_doc ts = Some (JObj [(tag_logs, JArr (map record_json recs))])).
Proof. exact abandoned_session_any_arrivals. Qed.
Print Assumptions C13_abandoned_session_any_arrivals.

Theorem C13_abandoned_session_any_arrivals_bounded :
  forall (x : session) a bd,
  let reqs := s_arrivals x in
  let n := nconn x in
  let T := seat_requests reqs empty_table in
  s_interrupt x = None -> wf_requests reqs -> all_seated T = true ->
  (forall p, length (seated_scripts x p) = length (s_boards x)) ->
  nth_error (s_boards x) a = Some bd ->
  forallb (fun '(i, b) => conform_board b (fun p => nth_script (seated_scripts x p) i))
          (combine (seq 0 a) (firstn a (s_boards x))) = true ->
  board_goes_wrong bd (fun p => nth_script (seated_scripts x p) a) ->
  exists recs fin bound, map Some recs = recs_from (names_of T) (seated_scripts x) 0 (firstn a (s_boards x)) /\
    sfinal fin /\ pr fin 0 = Some Fail /\ log_events n fin = LOpen :: map LRec recs ++ [LClose] /\
    (exists ts, written_tokens json_framing tag_logs (map record_json recs) = Some ts /\
                parse_doc ts = Some (JObj [(tag_logs, JArr (map record_json recs))])) /\
    forall l' s', srun l' (init_state x) = Some s' -> length l' <= bound /\ (sfinal s' -> s' = fin).
Proof. exact abandoned_session_any_arrivals_bounded. Qed.
Print Assumptions C13_abandoned_session_any_arrivals_bounded.

Theorem C13_abandoned_and_interrupted_any_arrivals :
  forall (x : session) a bd k,
  let reqs := s_arrivals x in
  let n := nconn x in
  let T := seat_requests reqs empty_table in
  s_interrupt x = None -> wf_requests reqs -> all_seated T = true ->
  (forall p, length (seated_scripts x p) = length (s_boards x)) ->
  nth_error (s_boards x) a = Some bd ->
  forallb (fun '(i, b) => conform_board b (fun p => nth_script (seated_scripts x p) i))
          (combine (seq 0 a) (firstn a (s_boards x))) = true ->
  board_goes_wrong bd (fun p => nth_script (seated_scripts x p) a) ->
  exists recs cnt fin bound, map Some recs = recs_from (names_of T) (seated_scripts x) 0 (firstn a (s_boards x)) /\
    sfinal fin /\ main_ended fin /\ log_events n fin = LOpen :: map LRec (firstn cnt recs) ++ [LClose] /\
    forall l' s', srun l' (init_state (with_interrupt x k)) = Some s' -> length l' <= bound /\ (sfinal s' -> s' = fin).
Proof. exact abandoned_session_any_arrivals_interrupted. Qed.
Print Assumptions C13_abandoned_and_interrupted_any_arrivals.

(* operator interrupt at any step of the main thread: the file holds a prefix of the records *)
Theorem C13_interrupted_session_log :
  forall boards ns ew scripts k,
  boards <> [] -> no_quote ns -> no_quote ew -> conforming boards scripts = true ->
  exists l f recs cnt, srun l (init_state (conf_session_interrupted boards ns ew scripts k)) = Some f /\
    main_ended f /\ log_events 4 f = LOpen :: map LRec recs ++ [LClose] /\
    map Some recs = firstn cnt (recs_from (NM ns ew) scripts 0 boards).
Proof. exact interrupted_session_log. Qed.
Print Assumptions C13_interrupted_session_log.

Theorem C13_interrupted_session_every_schedule :
  forall boards ns ew scripts k,
  boards <> [] -> no_quote ns -> no_quote ew -> conforming boards scripts = true ->
  exists recs cnt, map Some recs = firstn cnt (recs_from (NM ns ew) scripts 0 boards) /\
    forall l' s', srun l' (init_state (conf_session_interrupted boards ns ew scripts k)) = Some s' -> main_ended s' \/ sfinal s' ->
      main_ended s' /\ log_events 4 s' = LOpen :: map LRec recs ++ [LClose].
Proof. exact interrupted_session_every_schedule. Qed.
Print Assumptions C13_interrupted_session_every_schedule.

Theorem C13_abandoned_and_interrupted :
  forall boards ns ew scripts a bd k,
  no_quote ns -> no_quote ew ->
  (forall p, length (scripts p) = length boards) ->
  nth_error boards a = Some bd ->
  forallb (fun '(i, b) => conform_board b (fun p => nth_script (scripts p) i)) (combine (seq 0 a) (firstn a boards)) = true ->
  board_goes_wrong bd (fun p => nth_script (scripts p) a) ->
  exists recs cnt fin bound, map Some recs = recs_from (NM ns ew) scripts 0 (firstn a boards) /\
    sfinal fin /\ main_ended fin /\ log_events 4 fin = LOpen :: map LRec (firstn cnt recs) ++ [LClose] /\
    forall l' s', srun l' (init_state (with_interrupt (conf_session boards ns ew scripts) k)) = Some s' ->
      length l' <= bound /\ (sfinal s' -> s' = fin).
Proof. exact abandoned_session_interrupted. Qed.
Print Assumptions C13_abandoned_and_interrupted.

(* for EVERY state of the network (any input): no schedule runs for ever *)
Theorem C13_no_infinite_schedule :
  forall s, Acc snext s.
Proof. exact no_infinite_schedule. Qed.
Print Assumptions C13_no_infinite_schedule.

Theorem C13_every_run_ends :
  forall s, exists m f, srun m s = Some f /\ sfinal f.
Proof. exact every_run_extends_to_a_final_state. Qed.
Print Assumptions C13_every_run_ends.

(* which boards are listed does not depend on the schedule *)
Theorem C13_same_log_under_every_schedule_partial :
  forall fuel x s sched,
  run_session fuel x = (s, sched, true) ->
  forall l' s', srun l' (init_state x) = Some s' ->
    (exists l'', srun l'' s' = Some s /\ length l' + length l'' = length sched) /\ (sfinal s' -> s' = s).
Proof. exact every_schedule_reaches_canonical. Qed.
Print Assumptions C13_same_log_under_every_schedule_partial.

(* non-vacuity: a session abandoned on board 2 because of an unparseable call *)
Theorem C13_example_aborted :
  main_code ex_aborted = Some 1.
Proof. exact ex_aborted_main_raised. Qed.
Print Assumptions C13_example_aborted.

Theorem C13_example_aborted_log :
  match log_of ex_aborted with [LOpen; LRec _; LClose] => True | _ => False end.
Proof. exact ex_aborted_log_shape. Qed.
Print Assumptions C13_example_aborted_log.

Theorem C13_example_model_is_the_real_run :
  tie_session ex_aborted ex_aborted_observed = 0.
Proof. exact ex_aborted_model_is_the_real_run. Qed.
Print Assumptions C13_example_model_is_the_real_run.

