(* C13 - An aborted session still leaves a well-formed log of the completed boards.
   Only statements, each closed by [exact]; proofs are in the files imported below. *)
From BE Require Import Model.Session Model.SessionTie Spec.SessionSpec Proofs.Kahn Proofs.Session Proofs.SessionExamples Model.Json Gen.JsonFraming Proofs.C13Cor.
From BE Require Import Gen.Skeleton Proofs.SkeletonPin.
From Coq Require Import ZArith.
Local Open Scope nat_scope.
Local Open Scope list_scope.

(* every channel of the session network has one reader and one writer, for every input and every message that might arrive *)
Theorem C13_ownership :
  forall x, wf_state msg (rd x) (wr x) cw (init_state x).
Proof. exact session_wf. Qed.
Print Assumptions C13_ownership.

(* confluence: a run that has not finished can always be extended to the final state of any terminating run, with the same total number of steps *)
Theorem C13_any_schedule_can_be_completed :
  forall x l f l' s',
  srun l (init_state x) = Some f -> sfinal f -> srun l' (init_state x) = Some s' ->
  exists l'', srun l'' s' = Some f /\ length l' + length l'' = length l.
Proof. exact session_any_run_extends. Qed.
Print Assumptions C13_any_schedule_can_be_completed.

(* every maximal run, under every scheduler, ends in the same state after the same number of steps *)
Theorem C13_all_maximal_runs_agree :
  forall x l f l' s',
  srun l (init_state x) = Some f -> sfinal f -> srun l' (init_state x) = Some s' -> sfinal s' ->
  s' = f /\ length l' = length l.
Proof. exact session_maximal_runs_agree. Qed.
Print Assumptions C13_all_maximal_runs_agree.

Theorem C13_no_run_is_longer :
  forall x l f l' s',
  srun l (init_state x) = Some f -> sfinal f -> srun l' (init_state x) = Some s' -> length l' <= length l.
Proof. exact session_no_run_is_longer. Qed.
Print Assumptions C13_no_run_is_longer.

Theorem C13_canonical_run_is_a_run :
  forall fuel x s sched,
  run_session fuel x = (s, sched, true) -> srun sched (init_state x) = Some s /\ sfinal s.
Proof. exact canonical_run_sound. Qed.
Print Assumptions C13_canonical_run_is_a_run.

(* the synchronisation skeleton of server.py, re-extracted from the source on this run, is the one the session model was written against *)
Theorem C13_server_skeleton_is_the_modelled_one :
  server_skeleton = pinned_server_skeleton.
Proof. exact server_skeleton_pinned. Qed.
Print Assumptions C13_server_skeleton_is_the_modelled_one.

(* for every input (conforming or not), every interrupt point and EVERY schedule: at every moment the file content is open ; record* [; close] *)
Theorem C13_log_always_wellformed :
  forall x l s, srun l (init_state x) = Some s -> log_prefix (log_events (nconn x) s).
Proof. exact log_always_wellformed. Qed.
Print Assumptions C13_log_always_wellformed.

(* and once the main thread has ended - returned or raised, wherever and for whatever reason - the log is complete: never opened, or open ; record* ; close. Records are single writes, so each listed board is whole *)
Theorem C13_abort_log_complete :
  forall x l s,
  srun l (init_state x) = Some s -> main_ended s -> complete_log (log_events (nconn x) s).
Proof. exact log_complete_when_main_ends. Qed.
Print Assumptions C13_abort_log_complete.

(* and such a file - written with the literals regenerated from writer.py - is one JSON document whose records are exactly those *)
Theorem C13_aborted_log_parses :
  forall x l s,
  srun l (init_state x) = Some s -> main_ended s -> log_events (nconn x) s <> [] ->
  exists recs ts,
    log_events (nconn x) s = LOpen :: map LRec recs ++ [LClose] /\
    written_tokens json_framing tag_logs (map record_json recs) = Some ts /\
    parse_doc ts = Some (JObj [(tag_logs, JArr (map record_json recs))]).
Proof. exact aborted_log_parses. Qed.
Print Assumptions C13_aborted_log_parses.

(* which boards are listed does not depend on the schedule *)
Theorem C13_same_log_under_every_schedule_partial :
  forall fuel x s sched,
  run_session fuel x = (s, sched, true) ->
  forall l' s', srun l' (init_state x) = Some s' ->
    (exists l'', srun l'' s' = Some s /\ length l' + length l'' = length sched) /\ (sfinal s' -> s' = s).
Proof. exact every_schedule_reaches_canonical. Qed.
Print Assumptions C13_same_log_under_every_schedule_partial.

(* non-vacuity: a session abandoned on board 2 because of an unparseable call *)
Theorem C13_example_aborted :
  main_code ex_aborted = Some 1.
Proof. exact ex_aborted_main_raised. Qed.
Print Assumptions C13_example_aborted.

Theorem C13_example_aborted_log :
  match log_of ex_aborted with [LOpen; LRec _; LClose] => True | _ => False end.
Proof. exact ex_aborted_log_shape. Qed.
Print Assumptions C13_example_aborted_log.

Theorem C13_example_model_is_the_real_run :
  tie_session ex_aborted ex_aborted_observed = 0.
Proof. exact ex_aborted_model_is_the_real_run. Qed.
Print Assumptions C13_example_model_is_the_real_run.

