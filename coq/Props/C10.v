(* C10 - Each seat is told exactly what the protocol entitles it to, and nothing else (every schedule).
   Only statements, each closed by [exact]; proofs are in the files imported below. *)
From BE Require Import Model.Session Model.SessionTie Spec.SessionSpec Proofs.Kahn Proofs.Session Proofs.SessionExamples Proofs.View Model.Conform Proofs.SessionPassOut Proofs.Wire Proofs.SessionConform Proofs.SessionConformLog Proofs.SessionAdmission Proofs.SessionArrivals Proofs.SessionArrivalsCor.
From BE Require Import Gen.Skeleton Proofs.SkeletonPin.
From Coq Require Import ZArith.
Local Open Scope string_scope.
Local Open Scope nat_scope.
Local Open Scope list_scope.
(* FULL STATEMENT, PROVED (C10_conforming_session_views / _every_schedule, Proofs/SessionConformLog.v): for every non-empty
   board list and every conforming behaviour of the four clients, under EVERY schedule the complete sequence of lines sent
   on each of the four connections equals view_spec of Spec/SessionSpec.v for that seat; the theorems about view_spec below
   say that this reference is what the property states.  First proved for clients connecting in the order N, E, S, W, then
   lifted to EVERY list of requests that fills the table (C10_any_arrivals_views_are_the_reference). *)
(* every channel of the session network has one reader and one writer, for every input and every message that might arrive *)
Theorem C10_ownership :
  forall x, wf_state msg (rd x) (wr x) cw (init_state x).
Proof. exact session_wf. Qed.
Print Assumptions C10_ownership.

(* confluence: a run that has not finished can always be extended to the final state of any terminating run, with the same total number of steps *)
Theorem C10_any_schedule_can_be_completed :
  forall x l f l' s',
  srun l (init_state x) = Some f -> sfinal f -> srun l' (init_state x) = Some s' ->
  exists l'', srun l'' s' = Some f /\ length l' + length l'' = length l.
Proof. exact session_any_run_extends. Qed.
Print Assumptions C10_any_schedule_can_be_completed.

(* every maximal run, under every scheduler, ends in the same state after the same number of steps *)
Theorem C10_all_maximal_runs_agree :
  forall x l f l' s',
  srun l (init_state x) = Some f -> sfinal f -> srun l' (init_state x) = Some s' -> sfinal s' ->
  s' = f /\ length l' = length l.
Proof. exact session_maximal_runs_agree. Qed.
Print Assumptions C10_all_maximal_runs_agree.

Theorem C10_no_run_is_longer :
  forall x l f l' s',
  srun l (init_state x) = Some f -> sfinal f -> srun l' (init_state x) = Some s' -> length l' <= length l.
Proof. exact session_no_run_is_longer. Qed.
Print Assumptions C10_no_run_is_longer.

Theorem C10_canonical_run_is_a_run :
  forall fuel x s sched,
  run_session fuel x = (s, sched, true) -> srun sched (init_state x) = Some s /\ sfinal s.
Proof. exact canonical_run_sound. Qed.
Print Assumptions C10_canonical_run_is_a_run.

(* the synchronisation skeleton of server.py, re-extracted from the source on this run, is the one the session model was written against *)
Theorem C10_server_skeleton_is_the_modelled_one :
  server_skeleton = pinned_server_skeleton.
Proof. exact server_skeleton_pinned. Qed.
Print Assumptions C10_server_skeleton_is_the_modelled_one.

(* the complete transcript of every connection does not depend on thread timing *)
Theorem C10_transcripts_independent_of_timing_partial :
  forall fuel x s sched,
  run_session fuel x = (s, sched, true) ->
  forall l' s', srun l' (init_state x) = Some s' ->
    (exists l'', srun l'' s' = Some s /\ length l' + length l'' = length sched) /\ (sfinal s' -> s' = s).
Proof. exact every_schedule_reaches_canonical. Qed.
Print Assumptions C10_transcripts_independent_of_timing_partial.

(* FULL, symbolic and unbounded: a run of every conforming session ends with every process returned and, on each of the four connections, exactly the lines of view_spec for that seat *)
Theorem C10_conforming_session_views :
  forall boards ns ew scripts,
  boards <> [] -> no_quote ns -> no_quote ew -> conforming boards scripts = true ->
  exists l f, srun l (init_state (conf_session boards ns ew scripts)) = Some f /\ Kahn.all_doneb msg f = true /\
    lines_of (chan f (tr_down 4 0)) = SS.view_spec ns ns ew (outs_of boards scripts 0) North /\
    lines_of (chan f (tr_down 4 1)) = SS.view_spec ew ns ew (outs_of boards scripts 0) East /\
    lines_of (chan f (tr_down 4 2)) = SS.view_spec ns ns ew (outs_of boards scripts 0) South /\
    lines_of (chan f (tr_down 4 3)) = SS.view_spec ew ns ew (outs_of boards scripts 0) West.
Proof. exact conforming_session_views. Qed.
Print Assumptions C10_conforming_session_views.

(* and EVERY maximal run ends in that same state: what each seat is told does not depend on thread timing *)
Theorem C10_conforming_session_views_every_schedule :
  forall boards ns ew scripts,
  boards <> [] -> no_quote ns -> no_quote ew -> conforming boards scripts = true ->
  exists f n, Kahn.all_doneb msg f = true /\
    (lines_of (chan f (tr_down 4 0)) = SS.view_spec ns ns ew (outs_of boards scripts 0) North /\
     lines_of (chan f (tr_down 4 1)) = SS.view_spec ew ns ew (outs_of boards scripts 0) East /\
     lines_of (chan f (tr_down 4 2)) = SS.view_spec ns ns ew (outs_of boards scripts 0) South /\
     lines_of (chan f (tr_down 4 3)) = SS.view_spec ew ns ew (outs_of boards scripts 0) West) /\
    forall l' s', srun l' (init_state (conf_session boards ns ew scripts)) = Some s' ->
      length l' <= n /\ (sfinal s' -> s' = f).
Proof. exact conforming_session_views_every_schedule. Qed.
Print Assumptions C10_conforming_session_views_every_schedule.

(* FULL for every request list that fills the table: under every schedule the connection seated at p is sent exactly view_spec for p *)
Theorem C10_any_arrivals_views_are_the_reference :
  forall x : session,
  let reqs := s_arrivals x in let n := nconn x in
  let T := seat_requests reqs empty_table in
  let ns := names_of T North in let ew := names_of T East in
  s_boards x <> [] -> s_interrupt x = None -> wf_requests reqs -> all_seated T = true ->
  conforming (s_boards x) (seated_scripts x) = true ->
  exists f N, sfinal f /\
    (forall l' s', srun l' (init_state x) = Some s' -> length l' <= N /\ (sfinal s' -> s' = f /\ length l' = N)) /\
    (exists recs, log_events n f = LOpen :: map LRec recs ++ [LClose] /\
       map record_json recs =
       map (fun '(j, b) => SS.record_spec ns ew (RS.sboard_of b)
                             (SS.play_board (RS.sboard_of b) (fun p => RS.said_of (nth_script (seated_scripts x p) j))))
           (combine (seq 0 (length (s_boards x))) (s_boards x))) /\
    (forall p, lines_of (chan f (tr_down n (conn_map reqs p))) =
               SS.view_spec (match side_of p with NS => ns | EW => ew end) ns ew (outs_of (s_boards x) (seated_scripts x) 0) p).
Proof. exact any_arrivals_log_and_views_are_the_reference. Qed.
Print Assumptions C10_any_arrivals_views_are_the_reference.

(* the reference itself says what the property says: start line, header, own hand; then the auction part; then the play part *)
Theorem C10_view_decomposition :
  forall number b o p,
  view_board number b o p = board_prefix number b p ++ auction_part o p ++ play_part b o p.
Proof. exact view_board_decomp. Qed.
Print Assumptions C10_view_decomposition.

Theorem C10_board_starts_with_configured_header :
  forall number b o p,
  exists rest, view_board number b o p =
    "Start of board"%string :: board_header number (sb_dealer b) (sb_vul b) :: cards_line (formal_name p) (sb_deal b p) :: rest.
Proof. exact board_starts_with_header. Qed.
Print Assumptions C10_board_starts_with_configured_header.

(* over a whole session the only cards lines a seat is sent are its own hand and Dummy (client texts that themselves look like a cards line excluded) *)
Theorem C10_only_own_cards_and_dummy :
  forall team ns ew bs p l,
  (forall b o, In (b, o) bs -> plain_messages o) ->
  In l (view_spec team ns ew bs p) -> names_cards l ->
  exists b o, In (b, o) bs /\
    (l = cards_line (formal_name p) (sb_deal b p) \/
     (exists decl, cdeclarer (oc_contract o) = Some decl /\ p <> partner decl /\ l = cards_line "Dummy" (sb_deal b (partner decl)))).
Proof. exact view_spec_cards_lines. Qed.
Print Assumptions C10_only_own_cards_and_dummy.

Theorem C10_dummy_never_sent_dummy :
  forall number b o decl h, plain_messages o ->
  cdeclarer (oc_contract o) = Some decl ->
  ~ In (cards_line "Dummy" h) (view_board number b o (partner decl)).
Proof. exact dummy_never_sees_any_dummy_line. Qed.
Print Assumptions C10_dummy_never_sent_dummy.

Theorem C10_others_sent_dummy_exactly_once :
  forall number b o decl p, plain_messages o -> cdeclarer (oc_contract o) = Some decl ->
  p <> partner decl -> oc_plays o <> [] ->
  count_occ_str (cards_line "Dummy" (sb_deal b (partner decl))) (view_board number b o p) = 1.
Proof. exact others_see_dummy_exactly_once. Qed.
Print Assumptions C10_others_sent_dummy_exactly_once.

(* after the relayed opening lead (after its own lead prompt, for the leader) and before anything about the second card *)
Theorem C10_dummy_shown_right_after_opening_lead :
  forall number b o decl p a who m c rest,
  cdeclarer (oc_contract o) = Some decl -> p <> partner decl -> oc_plays o = (a, who, m, c) :: rest ->
  view_board number b o p =
    (board_prefix number b p ++ auction_part o p ++ lead_prompt decl p 0 a ++ card_relay p who m) ++
    cards_line "Dummy" (sb_deal b (partner decl)) ::
    flat_map (later_item decl p) (combine (seq 1 (length rest)) rest).
Proof. exact dummy_line_right_after_first_card. Qed.
Print Assumptions C10_dummy_shown_right_after_opening_lead.

Theorem C10_no_dummy_without_play :
  forall number b o p l, plain_messages o -> oc_plays o = [] ->
  In l (view_board number b o p) -> names_cards l -> l = cards_line (formal_name p) (sb_deal b p).
Proof. exact no_dummy_line_without_play. Qed.
Print Assumptions C10_no_dummy_without_play.

Theorem C10_calls_relayed_in_order_to_the_others :
  forall number b o p,
  view_board number b o p =
    board_prefix number b p ++
    map (fun '(who, m, _) => relay_text m who) (filter (fun '(who, _, _) => negb (seat_beq who p)) (oc_calls o)) ++
    play_part b o p.
Proof. exact calls_relayed_in_order. Qed.
Print Assumptions C10_calls_relayed_in_order_to_the_others.

(* to every seat other than the one that spoke for the card (declarer for dummy) *)
Theorem C10_cards_relayed_in_order_to_the_others :
  forall b o p decl,
  cdeclarer (oc_contract o) = Some decl ->
  (forall a who m c, In (a, who, m, c) (oc_plays o) -> is_table_line b decl m = false) ->
  filter (fun l => negb (is_table_line b decl l)) (play_part b o p) =
  map (fun '(_, _, m, _) => m) (filter (fun '(_, who, _, _) => negb (seat_beq who p)) (oc_plays o)).
Proof. exact cards_relayed_to_others. Qed.
Print Assumptions C10_cards_relayed_in_order_to_the_others.

Theorem C10_lead_prompt_only_to_the_leader :
  forall number b o p,
  In (formal_name p ++ " to lead")%string (view_board number b o p) ->
  (forall a who m c, In (a, who, m, c) (oc_plays o) -> m <> (formal_name p ++ " to lead")%string) ->
  (forall who m c, In (who, m, c) (oc_calls o) -> relay_text m who <> (formal_name p ++ " to lead")%string) ->
  exists decl who m c, cdeclarer (oc_contract o) = Some decl /\ p <> partner decl /\ In (p, who, m, c) (oc_plays o).
Proof. exact lead_prompt_only_when_leading. Qed.
Print Assumptions C10_lead_prompt_only_to_the_leader.

Theorem C10_dummy_lead_prompt_only_to_declarer :
  forall number b o p,
  In "Dummy to lead"%string (view_board number b o p) ->
  (forall a who m c, In (a, who, m, c) (oc_plays o) -> m <> "Dummy to lead"%string) ->
  (forall who m c, In (who, m, c) (oc_calls o) -> relay_text m who <> "Dummy to lead"%string) ->
  cdeclarer (oc_contract o) = Some p /\ exists who m c, In (partner p, who, m, c) (oc_plays o).
Proof. exact dummy_lead_prompt_only_for_declarer. Qed.
Print Assumptions C10_dummy_lead_prompt_only_to_declarer.

(* non-vacuity *)
Theorem C10_example_transcripts_are_the_reference :
  spec_ok ex_played_spec_input = 0.
Proof. exact ex_played_real_run_is_the_reference. Qed.
Print Assumptions C10_example_transcripts_are_the_reference.

Theorem C10_example_with_rejected_connections :
  spec_ok ex_admission_spec_input = 0.
Proof. exact ex_admission_real_run_is_the_reference. Qed.
Print Assumptions C10_example_with_rejected_connections.

