(* C10 - Each seat is told exactly what the protocol entitles it to, and nothing else (every schedule).
   Only statements, each closed by [exact]; proofs are in the files imported below. *)
From BE Require Import Model.Session Model.SessionTie Spec.SessionSpec Proofs.Kahn Proofs.Session Proofs.SessionExamples.
From Coq Require Import ZArith.
Local Open Scope nat_scope.
Local Open Scope list_scope.
(* FULL STATEMENT (not proved in this form): the lines sent on connection p equal view_spec p of Spec/SessionSpec.v for every
   input.  Proved: schedule independence for every input; equality with view_spec is evaluated in Coq per exercised session. *)
(* every channel of the session network has one reader and one writer, for every input and every message that might arrive *)
Theorem C10_ownership :
  forall x, wf_state msg (rd x) (wr x) cw (init_state x).
Proof. exact session_wf. Qed.
Print Assumptions C10_ownership.

(* confluence: a run that has not finished can always be extended to the final state of any terminating run, with the same total number of steps *)
Theorem C10_any_schedule_can_be_completed :
  forall x l f l' s',
  srun l (init_state x) = Some f -> sfinal f -> srun l' (init_state x) = Some s' ->
  exists l'', srun l'' s' = Some f /\ length l' + length l'' = length l.
Proof. exact session_any_run_extends. Qed.
Print Assumptions C10_any_schedule_can_be_completed.

(* every maximal run, under every scheduler, ends in the same state after the same number of steps *)
Theorem C10_all_maximal_runs_agree :
  forall x l f l' s',
  srun l (init_state x) = Some f -> sfinal f -> srun l' (init_state x) = Some s' -> sfinal s' ->
  s' = f /\ length l' = length l.
Proof. exact session_maximal_runs_agree. Qed.
Print Assumptions C10_all_maximal_runs_agree.

Theorem C10_no_run_is_longer :
  forall x l f l' s',
  srun l (init_state x) = Some f -> sfinal f -> srun l' (init_state x) = Some s' -> length l' <= length l.
Proof. exact session_no_run_is_longer. Qed.
Print Assumptions C10_no_run_is_longer.

Theorem C10_canonical_run_is_a_run :
  forall fuel x s sched,
  run_session fuel x = (s, sched, true) -> srun sched (init_state x) = Some s /\ sfinal s.
Proof. exact canonical_run_sound. Qed.
Print Assumptions C10_canonical_run_is_a_run.

(* the complete transcript of every connection does not depend on thread timing *)
Theorem C10_transcripts_independent_of_timing_partial :
  forall fuel x s sched,
  run_session fuel x = (s, sched, true) ->
  forall l' s', srun l' (init_state x) = Some s' ->
    (exists l'', srun l'' s' = Some s /\ length l' + length l'' = length sched) /\ (sfinal s' -> s' = s).
Proof. exact every_schedule_reaches_canonical. Qed.
Print Assumptions C10_transcripts_independent_of_timing_partial.

(* non-vacuity *)
Theorem C10_example_transcripts_are_the_reference :
  spec_ok ex_played_spec_input = 0.
Proof. exact ex_played_real_run_is_the_reference. Qed.
Print Assumptions C10_example_transcripts_are_the_reference.

Theorem C10_example_with_rejected_connections :
  spec_ok ex_admission_spec_input = 0.
Proof. exact ex_admission_real_run_is_the_reference. Qed.
Print Assumptions C10_example_with_rejected_connections.

