(* C04 - Tricks are won, led and counted according to the laws of play.
   Only statements, each closed by [exact]; proofs are in the files imported below. *)
From BE Require Import Model.Play Spec.PlayLaws Gen.PlayFns Proofs.Play Proofs.PlayGen Proofs.PlayGenCor.
Local Open Scope nat_scope.

(* opening lead by declarer's left-hand opponent, declarer's partner is dummy *)
Theorem C04_opening :
  forall k s, init_play k = Some s ->
  exists l st d, final_bid k = Some (l, st) /\ cdeclarer k = Some d /\
    trump s = st /\ declarer s = d /\ dummy s = partner d /\ leader s = next d /\ pactive s = next d /\
    trick s = [] /\ trick_num s = 1 /\ tricks s = [] /\ taken_ns s = 0 /\ taken_ew s = 0.
Proof. exact opening. Qed.
Print Assumptions C04_opening.

(* the code's winner computation satisfies the declarative law for every non-empty card list, repeats and revokes included *)
Theorem C04_winner_meets_the_law :
  forall tr cards, cards <> [] -> wins tr cards (winner_idx tr cards).
Proof. exact winner_idx_wins. Qed.
Print Assumptions C04_winner_meets_the_law.

Theorem C04_winner_unique :
  forall tr cards i j, wins tr cards i -> wins tr cards j -> i = j.
Proof. exact wins_unique. Qed.
Print Assumptions C04_winner_unique.

Theorem C04_winner_is_spec_winner :
  forall tr cards, cards <> [] -> winner_idx tr cards = winner tr cards.
Proof. exact winner_idx_is_spec_winner. Qed.
Print Assumptions C04_winner_is_spec_winner.

Theorem C04_calc_highest_spec :
  forall su cards,
  match calc_highest (Tr su) cards with
  | None => forall c, In c cards -> csuit c <> su
  | Some i => exists c, nth_error cards i = Some c /\ csuit c = su /\
       (forall j c', nth_error cards j = Some c' -> csuit c' = su -> rank_val (crank c') <= rank_val (crank c)) /\
       (forall j c', j < i -> nth_error cards j = Some c' -> csuit c' = su -> rank_val (crank c') < rank_val (crank c))
  end.
Proof. exact calc_highest_spec. Qed.
Print Assumptions C04_calc_highest_spec.

Theorem C04_calc_highest_NT :
  forall cards, calc_highest NT cards = None.
Proof. exact calc_highest_NT. Qed.
Print Assumptions C04_calc_highest_NT.

(* after any list of cards: trick number, position in the trick, recorded tricks, counts total, turn = leader rotated by the cards on the table *)
Theorem C04_turns_and_counters :
  forall k s0 cards, init_play k = Some s0 ->
  let s := runp s0 cards in let n := length cards in
  trick_num s = n / 4 + 1 /\ length (trick s) = n mod 4 /\ length (tricks s) = n / 4 /\
  taken_ns s + taken_ew s = n / 4 /\ pactive s = rot (leader s) (length (trick s)) /\
  trump s = trump s0 /\ declarer s = declarer s0 /\ dummy s = dummy s0.
Proof. exact counters. Qed.
Print Assumptions C04_turns_and_counters.

(* the record is exactly the cards in the order played, four per trick *)
Theorem C04_history_is_the_cards :
  forall k s0 cards, init_play k = Some s0 ->
  let s := runp s0 cards in
  concat (map snd (tricks s)) ++ trick s = cards /\ Forall (fun t => length (snd t) = 4) (tricks s).
Proof. exact history_is_the_cards. Qed.
Print Assumptions C04_history_is_the_cards.

Theorem C04_mid_trick :
  forall k s0 cards c, init_play k = Some s0 ->
  let s := runp s0 cards in length (trick s) < 3 ->
  let s' := play_card s c in
  trick s' = trick s ++ [c] /\ pactive s' = next (pactive s) /\ leader s' = leader s /\ trick_num s' = trick_num s /\
  tricks s' = tricks s /\ taken_ns s' = taken_ns s /\ taken_ew s' = taken_ew s.
Proof. exact mid_trick_step. Qed.
Print Assumptions C04_mid_trick.

(* fourth card: recorded with the actual leader, winner leads, winner's side +1, other side unchanged *)
Theorem C04_trick_done :
  forall k s0 cards c, init_play k = Some s0 ->
  let s := runp s0 cards in length (trick s) = 3 ->
  let s' := play_card s c in let four := trick s ++ [c] in let w := rot (leader s) (winner (trump s) four) in
  tricks s' = tricks s ++ [(leader s, four)] /\ leader s' = w /\ pactive s' = w /\ trick s' = [] /\
  trick_num s' = S (trick_num s) /\
  taken s' (side_of w) = S (taken s (side_of w)) /\ taken s' (other_side (side_of w)) = taken s (other_side (side_of w)).
Proof. exact trick_done_step. Qed.
Print Assumptions C04_trick_done.

Theorem C04_recorded_leaders :
  forall k s0 cards, init_play k = Some s0 ->
  let s := runp s0 cards in
  forall i ld four, nth_error (tricks s) i = Some (ld, four) ->
    ld = match i with 0 => leader s0
         | S j => match nth_error (tricks s) j with Some (ld0, f0) => rot ld0 (winner (trump s0) f0) | None => ld end end.
Proof. exact recorded_leaders. Qed.
Print Assumptions C04_recorded_leaders.

Theorem C04_thirteen :
  forall k s0 cards, init_play k = Some s0 -> length cards = 52 ->
  let s := runp s0 cards in
  phase_done s = true /\ length (tricks s) = 13 /\ taken_ns s + taken_ew s = 13 /\ trick s = [].
Proof. exact thirteen_tricks. Qed.
Print Assumptions C04_thirteen.

Theorem C04_not_done_before_52 :
  forall k s0 cards, init_play k = Some s0 -> length cards < 52 -> phase_done (runp s0 cards) = false.
Proof. exact not_done_before_52. Qed.
Print Assumptions C04_not_done_before_52.

(* play_card REGENERATED from the text of playing_phase.py on every run (harness/gen_play.py): the hand model, or the ValueError of PlayingHistory.record *)
Theorem C04_generated_play_card :
  forall s c,
  g_play_card s c =
  if play_card_raises s c
  then (mkP (trump s) (declarer s) (dummy s) (leader s) (pactive s) (trick s ++ [c]) (trick_num s) (rtricks s)
            (c :: used s) (taken_ns s) (taken_ew s), PRaises)
  else (play_card s c, POk).
Proof. exact g_play_card_spec. Qed.
Print Assumptions C04_generated_play_card.

(* under the invariant trick_num = 1 + recorded tricks *)
Theorem C04_generated_play_card_is_hand_model :
  forall s c, hist_ok s -> g_play_card s c = (play_card s c, POk).
Proof. exact g_play_card_eq. Qed.
Print Assumptions C04_generated_play_card_is_hand_model.

Theorem C04_generated_init_is_hand_model :
  forall k, g_init_play k = init_play k.
Proof. exact g_init_play_eq. Qed.
Print Assumptions C04_generated_init_is_hand_model.

Theorem C04_generated_calc_highest_is_hand_model :
  forall st cards, g_calc_highest st cards = zidx (calc_highest st cards).
Proof. exact g_calc_highest_eq. Qed.
Print Assumptions C04_generated_calc_highest_is_hand_model.

Theorem C04_generated_next_leader_is_hand_model :
  forall s,
  g_set_next_leader s =
  if negb (length (trick s) =? 4) then (s, PRaises)
  else (mkP (trump s) (declarer s) (dummy s) (rot (leader s) (winner_idx (trump s) (trick s))) (pactive s) (trick s)
            (trick_num s) (rtricks s) (used s) (taken_ns s) (taken_ew s), POk).
Proof. exact g_set_next_leader_eq. Qed.
Print Assumptions C04_generated_next_leader_is_hand_model.

(* every run of the regenerated functions from __init__ equals the run of the hand model *)
Theorem C04_generated_run_is_hand_model :
  forall k s0 cards, g_init_play k = Some s0 -> g_runp s0 cards = runp s0 cards.
Proof. exact g_runp_eq. Qed.
Print Assumptions C04_generated_run_is_hand_model.

(* the record error is unreachable *)
Theorem C04_generated_never_raises :
  forall k s0 cards c, g_init_play k = Some s0 ->
  snd (g_play_card (g_runp s0 cards) c) = POk.
Proof. exact g_play_never_raises. Qed.
Print Assumptions C04_generated_never_raises.

(* the property, for the regenerated functions *)
Theorem C04_opening_generated :
  forall k s0, g_init_play k = Some s0 ->
  exists l st d, final_bid k = Some (l, st) /\ cdeclarer k = Some d /\
  trump s0 = st /\ declarer s0 = d /\ dummy s0 = partner d /\ leader s0 = next d /\ pactive s0 = next d /\
  trick s0 = [] /\ trick_num s0 = 1 /\ tricks s0 = [] /\ taken_ns s0 = 0 /\ taken_ew s0 = 0.
Proof. exact g_opening. Qed.
Print Assumptions C04_opening_generated.

Theorem C04_turns_and_counters_generated :
  forall k s0 cards, g_init_play k = Some s0 ->
  let s := g_runp s0 cards in let n := length cards in
  trick_num s = n / 4 + 1 /\ length (trick s) = n mod 4 /\ length (tricks s) = n / 4 /\
  taken_ns s + taken_ew s = n / 4 /\ pactive s = rot (leader s) (length (trick s)) /\
  trump s = trump s0 /\ declarer s = declarer s0 /\ dummy s = dummy s0.
Proof. exact g_counters. Qed.
Print Assumptions C04_turns_and_counters_generated.

Theorem C04_history_is_the_cards_generated :
  forall k s0 cards, g_init_play k = Some s0 ->
  let s := g_runp s0 cards in
  concat (map snd (tricks s)) ++ trick s = cards /\ Forall (fun t => length (snd t) = 4) (tricks s).
Proof. exact g_history_is_the_cards. Qed.
Print Assumptions C04_history_is_the_cards_generated.

Theorem C04_next_leader_generated :
  forall s,
  length (trick s) = 4 ->
  leader (fst (g_set_next_leader s)) = rot (leader s) (winner_idx (trump s) (trick s)) /\ snd (g_set_next_leader s) = POk.
Proof. exact g_next_leader_is_law_winner. Qed.
Print Assumptions C04_next_leader_generated.

Theorem C04_done_generated :
  forall k s0 cards, g_init_play k = Some s0 ->
  g_phase_done (g_runp s0 cards) = (13 <? length cards / 4 + 1).
Proof. exact g_phase_done_iff. Qed.
Print Assumptions C04_done_generated.

(* non-vacuity: a ruff and an over-ruff *)
Theorem C04_example_overruff :
  let four := [mkcard R2 He; mkcard R9 He; mkcard R2 Sp; mkcard R5 Sp] in
  winner (Tr Sp) four = 3 /\ winner_idx (Tr Sp) four = 3 /\
  eligible (Tr Sp) four (mkcard R9 He) = false /\ eligible (Tr Sp) four (mkcard R2 Sp) = true /\
  winner (Tr Sp) [mkcard R2 He; mkcard R9 He; mkcard R2 Sp] = 2 /\ winner NT four = 1.
Proof. exact ex_overruff. Qed.
Print Assumptions C04_example_overruff.

(* non-vacuity: a complete 52-card board *)
Theorem C04_example_full_board :
  exists s0, init_hands ex_k ex_deal = Some s0 /\
  length ex_ops = 52 /\ accepted_ops s0 ex_ops = ex_ops /\
  let e := runh s0 ex_ops in
  phase_done (hbase e) = true /\ length (tricks (hbase e)) = 13 /\
  (forall p, hands e p = []) /\
  nth_error (tricks (hbase e)) 0 = Some (West, [mkcard R2 He; mkcard R9 He; mkcard R2 Sp; mkcard R5 Sp]) /\
  option_map fst (nth_error (tricks (hbase e)) 1) = Some South /\
  nth_error (tricks (hbase e)) 4 = Some (East, [mkcard R2 Di; mkcard RJ Di; mkcard R6 He; mkcard RK He]) /\
  taken_ns (hbase e) = 12 /\ taken_ew (hbase e) = 1 /\
  phase_done (hbase (runh s0 (firstn 51 ex_ops))) = false.
Proof. exact ex_board. Qed.
Print Assumptions C04_example_full_board.

