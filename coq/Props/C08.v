(* C08 - The table manager's log records exactly what was played (every schedule).
   Only statements, each closed by [exact]; proofs are in the files imported below. *)
From BE Require Import Model.Session Model.SessionTie Spec.SessionSpec Proofs.Kahn Proofs.Session Proofs.SessionExamples Model.Conform Model.Json Proofs.RecordSpec.
From BE Require Import Gen.Skeleton Proofs.SkeletonPin.
From Coq Require Import ZArith.
Local Open Scope nat_scope.
Local Open Scope list_scope.
(* FULL STATEMENT (not proved in this form): for every board list and conforming script the logged records equal
   record_spec of Spec/SessionSpec.v.  Proved: schedule independence for every input; the equality with the sequential
   reference is evaluated in Coq (vm_compute) for each session exercised by the check and for the examples below. *)
(* every channel of the session network has one reader and one writer, for every input and every message that might arrive *)
Theorem C08_ownership :
  forall x, wf_state msg (rd x) (wr x) cw (init_state x).
Proof. exact session_wf. Qed.
Print Assumptions C08_ownership.

(* confluence: a run that has not finished can always be extended to the final state of any terminating run, with the same total number of steps *)
Theorem C08_any_schedule_can_be_completed :
  forall x l f l' s',
  srun l (init_state x) = Some f -> sfinal f -> srun l' (init_state x) = Some s' ->
  exists l'', srun l'' s' = Some f /\ length l' + length l'' = length l.
Proof. exact session_any_run_extends. Qed.
Print Assumptions C08_any_schedule_can_be_completed.

(* every maximal run, under every scheduler, ends in the same state after the same number of steps *)
Theorem C08_all_maximal_runs_agree :
  forall x l f l' s',
  srun l (init_state x) = Some f -> sfinal f -> srun l' (init_state x) = Some s' -> sfinal s' ->
  s' = f /\ length l' = length l.
Proof. exact session_maximal_runs_agree. Qed.
Print Assumptions C08_all_maximal_runs_agree.

Theorem C08_no_run_is_longer :
  forall x l f l' s',
  srun l (init_state x) = Some f -> sfinal f -> srun l' (init_state x) = Some s' -> length l' <= length l.
Proof. exact session_no_run_is_longer. Qed.
Print Assumptions C08_no_run_is_longer.

Theorem C08_canonical_run_is_a_run :
  forall fuel x s sched,
  run_session fuel x = (s, sched, true) -> srun sched (init_state x) = Some s /\ sfinal s.
Proof. exact canonical_run_sound. Qed.
Print Assumptions C08_canonical_run_is_a_run.

(* the synchronisation skeleton of server.py, re-extracted from the source on this run, is the one the session model was written against *)
Theorem C08_server_skeleton_is_the_modelled_one :
  server_skeleton = pinned_server_skeleton.
Proof. exact server_skeleton_pinned. Qed.
Print Assumptions C08_server_skeleton_is_the_modelled_one.

(* the final state - hence the log - of a session does not depend on thread timing *)
Theorem C08_log_independent_of_timing_partial :
  forall fuel x s sched,
  run_session fuel x = (s, sched, true) ->
  forall l' s', srun l' (init_state x) = Some s' ->
    (exists l'', srun l'' s' = Some s /\ length l' + length l'' = length sched) /\ (sfinal s' -> s' = s).
Proof. exact every_schedule_reaches_canonical. Qed.
Print Assumptions C08_log_independent_of_timing_partial.

Theorem C08_log_wellformed :
  forall x l s, srun l (init_state x) = Some s -> log_prefix (log_events (nconn x) s).
Proof. exact log_always_wellformed. Qed.
Print Assumptions C08_log_wellformed.

(* FULL, for every board and every conforming script (sequential, no threads): the record the table manager model builds with the MODEL functions (take_bid / contract_of, play_by / tricks, calc_score) is, as a JSON value, exactly record_spec of the sequential reference built with the SPEC functions (Laws, play reference, Law 77 formulas) *)
Theorem C08_model_record_is_the_reference_record :
  forall ns ew b sc r,
  model_record (team_names ns ew) b sc = Some r ->
  record_json r = record_spec ns ew (sboard_of b) (play_board (sboard_of b) (fun p => said_of (sc p))).
Proof. exact model_record_is_record_spec. Qed.
Print Assumptions C08_model_record_is_the_reference_record.

(* non-vacuity: the real run of a two-board session equals the sequential reference (log and transcripts) *)
Theorem C08_example_log_is_the_reference :
  spec_ok ex_played_spec_input = 0.
Proof. exact ex_played_real_run_is_the_reference. Qed.
Print Assumptions C08_example_log_is_the_reference.

Theorem C08_example_model_is_the_real_run :
  tie_session ex_played ex_played_observed = 0.
Proof. exact ex_played_model_is_the_real_run. Qed.
Print Assumptions C08_example_model_is_the_real_run.

Theorem C08_example_passed_out :
  spec_ok ex_passed_out_spec_input = 0.
Proof. exact ex_passed_out_real_run_is_the_reference. Qed.
Print Assumptions C08_example_passed_out.

