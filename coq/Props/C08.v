(* C08 - The table manager's log records exactly what was played (every schedule).
   Only statements, each closed by [exact]; proofs are in the files imported below. *)
From BE Require Import Model.Session Model.SessionTie Spec.SessionSpec Proofs.Kahn Proofs.Session Proofs.SessionExamples Model.Conform Model.Json Proofs.RecordSpec Proofs.SessionPassOut Proofs.Wire Proofs.SessionConform Proofs.SessionConformLog Proofs.SessionAdmission Proofs.SessionArrivals Proofs.SessionArrivalsCor Gen.JsonFns Proofs.JsonGen Gen.ScoreFns Proofs.ScoreGen.
From BE Require Import Gen.Skeleton Proofs.SkeletonPin.
From Coq Require Import ZArith.
Local Open Scope nat_scope.
Local Open Scope list_scope.
(* FULL STATEMENT, PROVED (C08_conforming_session_log_is_the_reference / _every_schedule, Proofs/SessionConformLog.v): for
   every non-empty board list and every conforming behaviour of the four clients, under EVERY schedule the log is
   open ; one record per board, in order ; close, and each record is, as a JSON value, record_spec of the sequential reference
   (the boards and what the players said, by the Laws / play reference / Law 77 formulas of Spec/).  First proved for clients
   connecting in the order N, E, S, W (the C08_conforming_session_log theorems), then lifted to EVERY list of requests that fills the table -
   any order, with wrong versions, duplicates and mismatching partners turned away in between and late requests ignored -
   by embedding the four-connection network into the n-connection one (C08_any_arrivals_log_is_the_reference). *)
(* every channel of the session network has one reader and one writer, for every input and every message that might arrive *)
Theorem C08_ownership :
  forall x, wf_state msg (rd x) (wr x) cw (init_state x).
Proof. exact session_wf. Qed.
Print Assumptions C08_ownership.

(* confluence: a run that has not finished can always be extended to the final state of any terminating run, with the same total number of steps *)
Theorem C08_any_schedule_can_be_completed :
  forall x l f l' s',
  srun l (init_state x) = Some f -> sfinal f -> srun l' (init_state x) = Some s' ->
  exists l'', srun l'' s' = Some f /\ length l' + length l'' = length l.
Proof. exact session_any_run_extends. Qed.
Print Assumptions C08_any_schedule_can_be_completed.

(* every maximal run, under every scheduler, ends in the same state after the same number of steps *)
Theorem C08_all_maximal_runs_agree :
  forall x l f l' s',
  srun l (init_state x) = Some f -> sfinal f -> srun l' (init_state x) = Some s' -> sfinal s' ->
  s' = f /\ length l' = length l.
Proof. exact session_maximal_runs_agree. Qed.
Print Assumptions C08_all_maximal_runs_agree.

Theorem C08_no_run_is_longer :
  forall x l f l' s',
  srun l (init_state x) = Some f -> sfinal f -> srun l' (init_state x) = Some s' -> length l' <= length l.
Proof. exact session_no_run_is_longer. Qed.
Print Assumptions C08_no_run_is_longer.

Theorem C08_canonical_run_is_a_run :
  forall fuel x s sched,
  run_session fuel x = (s, sched, true) -> srun sched (init_state x) = Some s /\ sfinal s.
Proof. exact canonical_run_sound. Qed.
Print Assumptions C08_canonical_run_is_a_run.

(* the synchronisation skeleton of server.py, re-extracted from the source on this run, is the one the session model was written against *)
Theorem C08_server_skeleton_is_the_modelled_one :
  server_skeleton = pinned_server_skeleton.
Proof. exact server_skeleton_pinned. Qed.
Print Assumptions C08_server_skeleton_is_the_modelled_one.

(* the final state - hence the log - of a session does not depend on thread timing *)
Theorem C08_log_independent_of_timing_partial :
  forall fuel x s sched,
  run_session fuel x = (s, sched, true) ->
  forall l' s', srun l' (init_state x) = Some s' ->
    (exists l'', srun l'' s' = Some s /\ length l' + length l'' = length sched) /\ (sfinal s' -> s' = s).
Proof. exact every_schedule_reaches_canonical. Qed.
Print Assumptions C08_log_independent_of_timing_partial.

Theorem C08_log_wellformed :
  forall x l s, srun l (init_state x) = Some s -> log_prefix (log_events (nconn x) s).
Proof. exact log_always_wellformed. Qed.
Print Assumptions C08_log_wellformed.

(* FULL, symbolic and unbounded, at the level of the thread network: a run of every conforming session ends with every process returned and the log open ; records ; close, where the record of board j is the record the model builds from board j and the four scripts *)
Theorem C08_conforming_session_log :
  forall boards ns ew scripts,
  boards <> [] -> no_quote ns -> no_quote ew -> conforming boards scripts = true ->
  exists l f, srun l (init_state (conf_session boards ns ew scripts)) = Some f /\ Kahn.all_doneb msg f = true /\
    exists recs, log_events 4 f = LOpen :: map LRec recs ++ [LClose] /\
      map Some recs = map (fun '(j, b) => model_record (NM ns ew) b (fun p => nth_script (scripts p) j))
                          (combine (seq 0 (length boards)) boards).
Proof. exact conforming_session_log. Qed.
Print Assumptions C08_conforming_session_log.

(* and, as JSON values, the records are exactly the sequential reference record_spec of Spec/SessionSpec.v *)
Theorem C08_conforming_session_log_is_the_reference :
  forall boards ns ew scripts,
  boards <> [] -> no_quote ns -> no_quote ew -> conforming boards scripts = true ->
  exists l f, srun l (init_state (conf_session boards ns ew scripts)) = Some f /\ Kahn.all_doneb msg f = true /\
    exists recs, log_events 4 f = LOpen :: map LRec recs ++ [LClose] /\
      map record_json recs =
      map (fun '(j, b) => Spec.SessionSpec.record_spec ns ew (Proofs.RecordSpec.sboard_of b)
                            (Spec.SessionSpec.play_board (Proofs.RecordSpec.sboard_of b)
                               (fun p => Proofs.RecordSpec.said_of (nth_script (scripts p) j))))
          (combine (seq 0 (length boards)) boards).
Proof. exact conforming_session_log_is_spec. Qed.
Print Assumptions C08_conforming_session_log_is_the_reference.

(* EVERY maximal run of the session ends in that same state - the log does not depend on thread timing *)
Theorem C08_conforming_session_log_every_schedule :
  forall boards ns ew scripts,
  boards <> [] -> no_quote ns -> no_quote ew -> conforming boards scripts = true ->
  exists f n, Kahn.all_doneb msg f = true /\
    (exists recs, log_events 4 f = LOpen :: map LRec recs ++ [LClose] /\
       map Some recs = map (fun '(j, b) => model_record (NM ns ew) b (fun p => nth_script (scripts p) j))
                           (combine (seq 0 (length boards)) boards)) /\
    forall l' s', srun l' (init_state (conf_session boards ns ew scripts)) = Some s' ->
      length l' <= n /\ (sfinal s' -> s' = f).
Proof. exact conforming_session_log_every_schedule. Qed.
Print Assumptions C08_conforming_session_log_every_schedule.

(* FULL for every request list that fills the table (any order, refusals in between, late requests): under every schedule the log is the reference record of every board - and every seated connection is sent the reference view of its seat *)
Theorem C08_any_arrivals_log_is_the_reference :
  forall x : session,
  let reqs := s_arrivals x in let n := nconn x in
  let T := seat_requests reqs empty_table in
  let ns := names_of T North in let ew := names_of T East in
  s_boards x <> [] -> s_interrupt x = None -> wf_requests reqs -> all_seated T = true ->
  conforming (s_boards x) (seated_scripts x) = true ->
  exists f N, sfinal f /\
    (forall l' s', srun l' (init_state x) = Some s' -> length l' <= N /\ (sfinal s' -> s' = f /\ length l' = N)) /\
    (exists recs, log_events n f = LOpen :: map LRec recs ++ [LClose] /\
       map record_json recs =
       map (fun '(j, b) => SS.record_spec ns ew (RS.sboard_of b)
                             (SS.play_board (RS.sboard_of b) (fun p => RS.said_of (nth_script (seated_scripts x p) j))))
           (combine (seq 0 (length (s_boards x))) (s_boards x))) /\
    (forall p, lines_of (chan f (tr_down n (conn_map reqs p))) =
               SS.view_spec (match side_of p with NS => ns | EW => ew end) ns ew (outs_of (s_boards x) (seated_scripts x) 0) p).
Proof. exact any_arrivals_log_and_views_are_the_reference. Qed.
Print Assumptions C08_any_arrivals_log_is_the_reference.

(* calc_score REGENERATED from score.py on every run (with the numbers re-read from the source) equals the scoring function the session model uses *)
Theorem C08_generated_score_is_hand_model :
  forall k t, g_calc_score k t = calc_score k t.
Proof. exact g_calc_score_eq. Qed.
Print Assumptions C08_generated_score_is_hand_model.

(* the JSON value of a record as built by JsonLogWriter.write REGENERATED from writer.py on every run is record_json of the model *)
Theorem C08_generated_record_writer_is_hand_model :
  forall r : logrec, g_record_json r = record_json r.
Proof. exact g_record_json_eq. Qed.
Print Assumptions C08_generated_record_writer_is_hand_model.

(* FULL, for every board and every conforming script (sequential, no threads): the record the table manager model builds with the MODEL functions (take_bid / contract_of, play_by / tricks, calc_score) is, as a JSON value, exactly record_spec of the sequential reference built with the SPEC functions (Laws, play reference, Law 77 formulas) *)
Theorem C08_model_record_is_the_reference_record :
  forall ns ew b sc r,
  model_record (team_names ns ew) b sc = Some r ->
  record_json r = record_spec ns ew (sboard_of b) (play_board (sboard_of b) (fun p => said_of (sc p))).
Proof. exact model_record_is_record_spec. Qed.
Print Assumptions C08_model_record_is_the_reference_record.

(* non-vacuity: the real run of a two-board session equals the sequential reference (log and transcripts) *)
Theorem C08_example_log_is_the_reference :
  spec_ok ex_played_spec_input = 0.
Proof. exact ex_played_real_run_is_the_reference. Qed.
Print Assumptions C08_example_log_is_the_reference.

Theorem C08_example_model_is_the_real_run :
  tie_session ex_played ex_played_observed = 0.
Proof. exact ex_played_model_is_the_real_run. Qed.
Print Assumptions C08_example_model_is_the_real_run.

Theorem C08_example_passed_out :
  spec_ok ex_passed_out_spec_input = 0.
Proof. exact ex_passed_out_real_run_is_the_reference. Qed.
Print Assumptions C08_example_passed_out.

