(* C05 - Only the seat on turn can play, only a card it holds; cards are conserved.
   Only statements, each closed by [exact]; proofs are in the files imported below. *)
From BE Require Import Model.Play Spec.PlayLaws Proofs.Play.
Local Open Scope nat_scope.

Theorem C05_accept_iff :
  forall s c p,
  snd (play_by s c p) = POk <-> (p = pactive (hbase s) /\ In c (hands s p)).
Proof. exact play_by_accept_iff. Qed.
Print Assumptions C05_accept_iff.

Theorem C05_refused_is_noop :
  forall s c p, snd (play_by s c p) = PRaises -> fst (play_by s c p) = s.
Proof. exact play_by_refused_noop. Qed.
Print Assumptions C05_refused_is_noop.

(* exactly that card leaves exactly that hand *)
Theorem C05_accepted_effect :
  forall s c p, snd (play_by s c p) = POk ->
  hbase (fst (play_by s c p)) = play_card (hbase s) c /\
  (forall q x, In x (hands (fst (play_by s c p)) q) <-> (In x (hands s q) /\ ~ (q = p /\ x = c))).
Proof. exact play_by_accepted_effect. Qed.
Print Assumptions C05_accepted_effect.

(* for every op list (wrong seats, foreign and replayed cards included): hands + played partition the deal, no card twice *)
Theorem C05_partition :
  forall k deal s0 ops, init_hands k deal = Some s0 -> disjoint_deal deal ->
  let s := runh s0 ops in let acc := accepted_ops s0 ops in
  (forall p c, In c (deal p) <-> (In c (hands s p) \/ In (c, p) acc)) /\
  (forall p c, In c (hands s p) -> ~ In (c, p) acc) /\
  disjoint_deal (hands s) /\
  NoDup (map fst acc) /\
  map fst acc = concat (map snd (tricks (hbase s))) ++ trick (hbase s).
Proof. exact partition_invariant. Qed.
Print Assumptions C05_partition.

Theorem C05_used_cards :
  forall k deal s0 ops, init_hands k deal = Some s0 ->
  let s := runh s0 ops in forall c, In c (used (hbase s)) <-> In c (map fst (accepted_ops s0 ops)).
Proof. exact used_cards_are_played. Qed.
Print Assumptions C05_used_cards.

Theorem C05_empty_at_52 :
  forall k deal s0 ops, init_hands k deal = Some s0 -> disjoint_deal deal ->
  (forall p, length (deal p) = 13) -> length (accepted_ops s0 ops) = 52 ->
  forall p, hands (runh s0 ops) p = [].
Proof. exact empty_at_52. Qed.
Print Assumptions C05_empty_at_52.

(* non-vacuity *)
Theorem C05_example_refusals :
  exists s0, init_hands ex_k ex_deal = Some s0 /\
  snd (play_by s0 (cn 33) North) = PRaises /\ snd (play_by s0 (cn 33) West) = PRaises /\
  snd (play_by s0 (cn 26) West) = POk /\
  accepted_ops s0 [(cn 33, North); (cn 33, West); (cn 26, West); (cn 26, West); (cn 6, North)]
    = [(cn 26, West); (cn 6, North)].
Proof. exact ex_refusals. Qed.
Print Assumptions C05_example_refusals.

Theorem C05_example_deal :
  disjoint_deal ex_deal /\ forall p, length (ex_deal p) = 13.
Proof. exact ex_deal_ok. Qed.
Print Assumptions C05_example_deal.

