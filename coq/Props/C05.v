(* C05 - Only the seat on turn can play, only a card it holds; cards are conserved.
   Only statements, each closed by [exact]; proofs are in the files imported below. *)
From BE Require Import Model.Play Spec.PlayLaws Gen.PlayFns Proofs.Play Proofs.PlayGen Proofs.PlayGenCor.
Local Open Scope nat_scope.

Theorem C05_accept_iff :
  forall s c p,
  snd (play_by s c p) = POk <-> (p = pactive (hbase s) /\ In c (hands s p)).
Proof. exact play_by_accept_iff. Qed.
Print Assumptions C05_accept_iff.

Theorem C05_refused_is_noop :
  forall s c p, snd (play_by s c p) = PRaises -> fst (play_by s c p) = s.
Proof. exact play_by_refused_noop. Qed.
Print Assumptions C05_refused_is_noop.

(* exactly that card leaves exactly that hand *)
Theorem C05_accepted_effect :
  forall s c p, snd (play_by s c p) = POk ->
  hbase (fst (play_by s c p)) = play_card (hbase s) c /\
  (forall q x, In x (hands (fst (play_by s c p)) q) <-> (In x (hands s q) /\ ~ (q = p /\ x = c))).
Proof. exact play_by_accepted_effect. Qed.
Print Assumptions C05_accepted_effect.

(* for every op list (wrong seats, foreign and replayed cards included): hands + played partition the deal, no card twice *)
Theorem C05_partition :
  forall k deal s0 ops, init_hands k deal = Some s0 -> disjoint_deal deal ->
  let s := runh s0 ops in let acc := accepted_ops s0 ops in
  (forall p c, In c (deal p) <-> (In c (hands s p) \/ In (c, p) acc)) /\
  (forall p c, In c (hands s p) -> ~ In (c, p) acc) /\
  disjoint_deal (hands s) /\
  NoDup (map fst acc) /\
  map fst acc = concat (map snd (tricks (hbase s))) ++ trick (hbase s).
Proof. exact partition_invariant. Qed.
Print Assumptions C05_partition.

Theorem C05_used_cards :
  forall k deal s0 ops, init_hands k deal = Some s0 ->
  let s := runh s0 ops in forall c, In c (used (hbase s)) <-> In c (map fst (accepted_ops s0 ops)).
Proof. exact used_cards_are_played. Qed.
Print Assumptions C05_used_cards.

Theorem C05_empty_at_52 :
  forall k deal s0 ops, init_hands k deal = Some s0 -> disjoint_deal deal ->
  (forall p, length (deal p) = 13) -> length (accepted_ops s0 ops) = 52 ->
  forall p, hands (runh s0 ops) p = [].
Proof. exact empty_at_52. Qed.
Print Assumptions C05_empty_at_52.

(* PlayingPhaseWithHands.play_card_by_player regenerated from playing_phase.py on every run *)
Theorem C05_generated_play_by :
  forall s c p,
  play_card_raises (hbase s) c = false -> g_play_by s c p = play_by s c p.
Proof. exact g_play_by_spec. Qed.
Print Assumptions C05_generated_play_by.

Theorem C05_generated_play_by_raise_branch :
  forall s c p,
  play_card_raises (hbase s) c = true ->
  g_play_by s c p =
  if negb (seat_beq p (pactive (hbase s))) then (s, PRaises)
  else if negb (has_card (hands s p) c) then (s, PRaises)
  else (mkH (fst (g_play_card (hbase s) c)) (fun q => if seat_beq q p then remove_card (hands s q) c else hands s q),
        PRaises).
Proof. exact g_play_by_raises. Qed.
Print Assumptions C05_generated_play_by_raise_branch.

Theorem C05_generated_turn_check :
  forall s p,
  g_check_active_player s p = if negb (seat_beq p (pactive s)) then PRaises else POk.
Proof. exact g_check_active_player_eq. Qed.
Print Assumptions C05_generated_turn_check.

Theorem C05_generated_card_check :
  forall p h c, g_check_has_card p h c = if negb (has_card h c) then PRaises else POk.
Proof. exact g_check_has_card_eq. Qed.
Print Assumptions C05_generated_card_check.

Theorem C05_generated_run_is_hand_model :
  forall k deal s0 ops, g_init_hands k deal = Some s0 -> g_runh s0 ops = runh s0 ops.
Proof. exact g_runh_eq. Qed.
Print Assumptions C05_generated_run_is_hand_model.

(* the property, for the regenerated functions, on every reachable state *)
Theorem C05_accept_iff_generated :
  forall k deal s0 ops c p, g_init_hands k deal = Some s0 ->
  let s := g_runh s0 ops in
  snd (g_play_by s c p) = POk <-> (p = pactive (hbase s) /\ In c (hands s p)).
Proof. exact g_accept_iff. Qed.
Print Assumptions C05_accept_iff_generated.

Theorem C05_refused_is_noop_generated :
  forall k deal s0 ops c p, g_init_hands k deal = Some s0 ->
  let s := g_runh s0 ops in snd (g_play_by s c p) = PRaises -> fst (g_play_by s c p) = s.
Proof. exact g_refused_is_noop. Qed.
Print Assumptions C05_refused_is_noop_generated.

Theorem C05_partition_generated :
  forall k deal s0 ops, g_init_hands k deal = Some s0 -> disjoint_deal deal ->
  let s := g_runh s0 ops in let acc := accepted_ops s0 ops in
  (forall p c, In c (deal p) <-> (In c (hands s p) \/ In (c, p) acc)) /\
  (forall p c, In c (hands s p) -> ~ In (c, p) acc) /\
  disjoint_deal (hands s) /\
  NoDup (map fst acc) /\
  map fst acc = concat (map snd (tricks (hbase s))) ++ trick (hbase s).
Proof. exact g_partition. Qed.
Print Assumptions C05_partition_generated.

(* non-vacuity *)
Theorem C05_example_refusals :
  exists s0, init_hands ex_k ex_deal = Some s0 /\
  snd (play_by s0 (cn 33) North) = PRaises /\ snd (play_by s0 (cn 33) West) = PRaises /\
  snd (play_by s0 (cn 26) West) = POk /\
  accepted_ops s0 [(cn 33, North); (cn 33, West); (cn 26, West); (cn 26, West); (cn 6, North)]
    = [(cn 26, West); (cn 6, North)].
Proof. exact ex_refusals. Qed.
Print Assumptions C05_example_refusals.

Theorem C05_example_deal :
  disjoint_deal ex_deal /\ forall p, length (ex_deal p) = 13.
Proof. exact ex_deal_ok. Qed.
Print Assumptions C05_example_deal.

