(* C01 - Auction accepts exactly the calls the Laws of bridge allow.
   Only statements, each closed by [exact]; proofs are in the files imported below. *)
From BE Require Import Model.Auction Spec.Laws Gen.AuctionFns Proofs.Auction Proofs.AuctionGen Proofs.AuctionGenCor.
Local Open Scope nat_scope.

(* after offering ANY list of calls (legal or not) from any dealer: the advertised vector is exactly the legal set of Spec/Laws.v *)
Theorem C01_vector_is_legal_set :
  forall d v offers c,
  active (reach d v offers) <> None ->
  nth (call_idx c) (avail (reach d v offers)) false = legal d (hist (reach d v offers)) c.
Proof. exact vector_is_legal_set. Qed.
Print Assumptions C01_vector_is_legal_set.

Theorem C01_accept_iff_legal :
  forall d v offers c,
  active (reach d v offers) <> None ->
  (snd (take_bid (reach d v offers) c) = Ongoing \/ snd (take_bid (reach d v offers) c) = Finished)
  <-> legal d (hist (reach d v offers)) c = true.
Proof. exact accept_iff_legal. Qed.
Print Assumptions C01_accept_iff_legal.

Theorem C01_illegal_iff_not_legal :
  forall d v offers c,
  active (reach d v offers) <> None ->
  snd (take_bid (reach d v offers) c) = Illegal <-> legal d (hist (reach d v offers)) c = false.
Proof. exact illegal_iff_not_legal. Qed.
Print Assumptions C01_illegal_iff_not_legal.

(* a rejected call returns the very same state (history, turn, vector, everything) *)
Theorem C01_rejected_is_noop :
  forall s c, snd (take_bid s c) = Illegal -> fst (take_bid s c) = s.
Proof. exact rejected_is_noop. Qed.
Print Assumptions C01_rejected_is_noop.

Theorem C01_accepted_appends :
  forall s c,
  snd (take_bid s c) = Ongoing \/ snd (take_bid s c) = Finished ->
  hist (fst (take_bid s c)) = hist s ++ [c].
Proof. exact accepted_appends. Qed.
Print Assumptions C01_accepted_appends.

Theorem C01_vector_has_38_slots :
  forall d v offers, length (avail (reach d v offers)) = 38.
Proof. exact avail_length. Qed.
Print Assumptions C01_vector_has_38_slots.

(* Law 19 consequence: a legal redouble is of a double of one's own side's bid *)
Theorem C01_redouble_is_of_own_sides_bid :
  forall d v offers,
  let s := reach d v offers in
  active s <> None -> legal d (hist s) Rdbl = true ->
  exists i b, last_bid_of (hist s) = Some (i, b) /\ opponents (caller d i) (caller d (length (hist s))) = false.
Proof. exact redouble_is_of_own_sides_bid. Qed.
Print Assumptions C01_redouble_is_of_own_sides_bid.

(* non-vacuity *)
Theorem C01_example_refusals :
  run (init West VNone) [Dbl; Rdbl; Bid L2 (Tr Cl); Bid L1 NT; Bid L2 (Tr Cl); Rdbl; Pass; Dbl; Pass; Dbl; Dbl; Rdbl; Rdbl] =
  [Illegal; Illegal; Ongoing; Illegal; Illegal; Illegal; Ongoing; Illegal; Ongoing; Ongoing; Illegal; Ongoing; Illegal].
Proof. exact ex_refusals. Qed.
Print Assumptions C01_example_refusals.

(* take_bid REGENERATED from the text of bidding_phase.py on every run (harness/gen_auction.py) equals the hand model, for all states and calls *)
Theorem C01_generated_model_is_hand_model :
  forall s c, g_take_bid s c = take_bid s c.
Proof. exact g_take_bid_eq. Qed.
Print Assumptions C01_generated_model_is_hand_model.

Theorem C01_generated_init_is_hand_model :
  forall d v, g_init d v = init d v.
Proof. exact g_init_eq. Qed.
Print Assumptions C01_generated_init_is_hand_model.

(* the property, for the regenerated functions *)
Theorem C01_vector_is_legal_set_generated :
  forall d v offers c,
  active (g_reach d v offers) <> None ->
  nth (call_idx c) (avail (g_reach d v offers)) false = legal d (hist (g_reach d v offers)) c.
Proof. exact g_vector_is_legal_set. Qed.
Print Assumptions C01_vector_is_legal_set_generated.

Theorem C01_accept_iff_legal_generated :
  forall d v offers c,
  active (g_reach d v offers) <> None ->
  (snd (g_take_bid (g_reach d v offers) c) = Ongoing \/ snd (g_take_bid (g_reach d v offers) c) = Finished)
  <-> legal d (hist (g_reach d v offers)) c = true.
Proof. exact g_accept_iff_legal. Qed.
Print Assumptions C01_accept_iff_legal_generated.

Theorem C01_rejected_is_noop_generated :
  forall s c, snd (g_take_bid s c) = Illegal -> fst (g_take_bid s c) = s.
Proof. exact g_rejected_is_noop. Qed.
Print Assumptions C01_rejected_is_noop_generated.

