(* C12 - JSON game logs are schema-valid and read back exactly as written.
   Only statements, each closed by [exact]; proofs are in the files imported below. *)
From BE Require Import Gen.JsonFns Proofs.JsonGen Proofs.JsonGenCor.
From BE Require Import Model.Json Model.Schema Model.JsonFramingHand Model.SchemasHand Proofs.Json Proofs.JsonPins.
From BE Require Gen.JsonFraming Gen.Schemas.
From Coq Require Import ZArith.
Local Open Scope string_scope.
Local Open Scope list_scope.

(* token level: every JSON value printed is parsed back, whatever follows *)
Theorem C12_parser_reads_what_is_printed :
  forall j rest, exists n, forall fuel, n <= fuel -> parse_value fuel (tokens j ++ rest) = Some (j, rest).
Proof. exact parse_tokens. Qed.
Print Assumptions C12_parser_reads_what_is_printed.

Theorem C12_parse_doc :
  forall j, parse_doc (tokens j) = Some j.
Proof. exact parse_doc_tokens. Qed.
Print Assumptions C12_parse_doc.

Theorem C12_tags :
  sforall (fun c => is_alpha c || Ascii.eqb c "_"%char) tag_logs = true /\
                       sforall (fun c => is_alpha c || Ascii.eqb c "_"%char) tag_settings = true.
Proof. exact tags_are_words. Qed.
Print Assumptions C12_tags.

(* the pieces written by open / write* / close (literals regenerated from writer.py) are exactly the tokens of one document, for every list of values, empty included *)
Theorem C12_framing_tokens :
  forall tag rs, sforall (fun c => is_alpha c || Ascii.eqb c "_"%char) tag = true ->
  written_tokens json_framing tag rs = Some (tokens (JObj [(tag, JArr rs)])).
Proof. exact framing_tokens. Qed.
Print Assumptions C12_framing_tokens.

Theorem C12_framing :
  forall tag rs, sforall (fun c => is_alpha c || Ascii.eqb c "_"%char) tag = true ->
  exists ts, written_tokens json_framing tag rs = Some ts /\ parse_doc ts = Some (JObj [(tag, JArr rs)]).
Proof. exact framing_parses. Qed.
Print Assumptions C12_framing.

(* every writable record is read back equal field by field, as typed values *)
Theorem C12_roundtrip_one :
  forall r, wf_rec r -> exists r', log_of_json (record_json r) = Some r' /\ rec_equiv r r'.
Proof. exact log_roundtrip. Qed.
Print Assumptions C12_roundtrip_one.

Theorem C12_roundtrip :
  forall rs, Forall wf_rec rs ->
  exists rs', parse_board_logs (JObj [("logs"%string, JArr (map record_json rs))]) = Some rs' /\ Forall2 rec_equiv rs rs'.
Proof. exact logs_roundtrip. Qed.
Print Assumptions C12_roundtrip.

(* the same document is a board-settings source yielding the same boards in order *)
Theorem C12_as_settings :
  forall rs,
  exists ss, parse_board_settings (JObj [("logs"%string, JArr (map record_json rs))]) = Some ss /\ Forall2 setting_matches rs ss.
Proof. exact log_as_settings. Qed.
Print Assumptions C12_as_settings.

(* the document conforms to the published log schema (AST regenerated from the shipped files); double-dummy rows, when given, must list all five strains *)
Theorem C12_schema :
  forall rs, Forall (fun r => dda_full (l_dda r)) rs ->
  validates log_schema (JObj [("logs"%string, JArr (map record_json rs))]) = true.
Proof. exact log_schema_valid. Qed.
Print Assumptions C12_schema.

(* the hypothesis on double-dummy rows cannot be dropped *)
Theorem C12_schema_hypothesis_is_needed :
  wf_rec ex_short_row /\ validates log_schema (JObj [("logs", JArr (map record_json [ex_short_row]))]) = false.
Proof. exact log_schema_needs_full_rows. Qed.
Print Assumptions C12_schema_hypothesis_is_needed.

(* JsonLogWriter.write REGENERATED from the text of writer.py on every run (harness/gen_jsonw.py): the record it builds equals the hand model, for every record *)
Theorem C12_generated_writer_is_hand_model :
  forall r : logrec, g_record_json r = record_json r.
Proof. exact g_record_json_eq. Qed.
Print Assumptions C12_generated_writer_is_hand_model.

(* convert_board_log regenerated from parser.py, on everything the writer writes, equals the hand model (read through the typed view shape_log) *)
Theorem C12_generated_reader_on_written_records :
  forall r : logrec,
  py_bind (g_log_of_json (g_record_json r)) shape_log = log_of_json (record_json r).
Proof. exact g_log_of_written. Qed.
Print Assumptions C12_generated_reader_on_written_records.

(* parse_board_logs regenerated: the hand model on every document whose records have a play_history key and only seat / side names under players / scores (as every written record has) *)
Theorem C12_generated_reader_is_hand_model :
  forall doc,
  (forall l, field "logs" doc = Some (JArr l) -> forall j, In j l -> log_written j) ->
  py_bind (g_parse_board_logs doc) (map_opt shape_log) = parse_board_logs doc.
Proof. exact g_parse_board_logs_eq. Qed.
Print Assumptions C12_generated_reader_is_hand_model.

(* the property, for the regenerated writer and reader *)
Theorem C12_roundtrip_generated :
  forall rs, Forall wf_rec rs ->
  exists rs', g_read_logs (g_logs_doc rs) = Some rs' /\ Forall2 rec_equiv rs rs'.
Proof. exact g_logs_roundtrip. Qed.
Print Assumptions C12_roundtrip_generated.

Theorem C12_as_settings_generated :
  forall rs,
  exists ss, g_read_settings (g_logs_doc rs) = Some ss /\ Forall2 setting_matches rs ss.
Proof. exact g_log_as_settings. Qed.
Print Assumptions C12_as_settings_generated.

Theorem C12_schema_generated :
  forall rs, Forall (fun r => dda_full (l_dda r)) rs ->
  validates log_schema (g_logs_doc rs) = true.
Proof. exact g_logs_schema_valid. Qed.
Print Assumptions C12_schema_generated.

(* the literals JsonWriter.open / close / _write_content write, re-read from writer.py on this run, are the ones the proofs use *)
Theorem C12_source_framing_is_the_modelled_one :
  Gen.JsonFraming.json_framing = Model.JsonFramingHand.json_framing.
Proof. exact framing_pinned. Qed.
Print Assumptions C12_source_framing_is_the_modelled_one.

Theorem C12_source_tags_are_the_modelled_ones :
  Gen.JsonFraming.tag_logs = Model.JsonFramingHand.tag_logs /\ Gen.JsonFraming.tag_settings = Model.JsonFramingHand.tag_settings.
Proof. exact tags_pinned. Qed.
Print Assumptions C12_source_tags_are_the_modelled_ones.

(* log_format.schema.json, re-read on this run, is the schema term the proofs use *)
Theorem C12_source_schema_is_the_modelled_one :
  Gen.Schemas.log_schema = Model.SchemasHand.log_schema.
Proof. exact log_schema_pinned. Qed.
Print Assumptions C12_source_schema_is_the_modelled_one.

(* non-vacuity *)
Theorem C12_example_written_and_read :
  option_map parse_doc (written_tokens json_framing tag_logs (map record_json ex_recs)) = Some (Some ex_doc).
Proof. exact ex_written_and_read. Qed.
Print Assumptions C12_example_written_and_read.

Theorem C12_example_logs_back :
  option_map (map log_view) (parse_board_logs ex_doc) = Some (map log_view ex_recs).
Proof. exact ex_logs_back. Qed.
Print Assumptions C12_example_logs_back.

Theorem C12_example_validates :
  validates log_schema ex_doc = true.
Proof. exact ex_validates. Qed.
Print Assumptions C12_example_validates.

Theorem C12_example_empty :
  option_map parse_doc (written_tokens json_framing tag_logs []) = Some (Some (JObj [("logs", JArr [])])) /\
  parse_board_logs (JObj [("logs", JArr [])]) = Some [] /\
  validates log_schema (JObj [("logs", JArr [])]) = true.
Proof. exact ex_empty_logs. Qed.
Print Assumptions C12_example_empty.

