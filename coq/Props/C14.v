(* C14 - Every deal survives every encoding round trip.
   Only statements, each closed by [exact]; proofs are in the files imported below. *)
From BE Require Import Model.Json Gen.JsonFns Proofs.JsonGen.
From BE Require Import Gen.HandsFns Proofs.HandsGen.
From BE Require Import Model.Hands Proofs.Hands Gen.Regexes Proofs.Pins.
From Coq Require Import Permutation.
Local Open Scope nat_scope.

(* every deal whose hands have 13 or 0 cards can be written from any first seat *)
Theorem C14_pbn_defined :
  forall d first, pbn_deal d -> exists s, to_pbn d first = Some s.
Proof. exact to_pbn_defined. Qed.
Print Assumptions C14_pbn_defined.

(* and is read back as the same four hands *)
Theorem C14_pbn_roundtrip :
  forall d first s, pbn_deal d -> to_pbn d first = Some s ->
  exists d', convert_pbn s = Some d' /\ same_deal d d'.
Proof. exact pbn_roundtrip. Qed.
Print Assumptions C14_pbn_roundtrip.

(* canonical form: "<first>:<hand> <hand> <hand> <hand>", first seat then clockwise *)
Theorem C14_pbn_shape :
  forall d first s, to_pbn d first = Some s ->
  exists a b c e, hand_to_pbn (d first) = Some a /\ hand_to_pbn (d (next first)) = Some b /\
    hand_to_pbn (d (next (next first))) = Some c /\ hand_to_pbn (d (next (next (next first)))) = Some e /\
    s = (seat_str first ++ ":" ++ a ++ " " ++ b ++ " " ++ c ++ " " ++ e)%string.
Proof. exact to_pbn_shape. Qed.
Print Assumptions C14_pbn_shape.

(* S.H.D.C order, 16 characters *)
Theorem C14_pbn_hand_canonical :
  forall h s, NoDup h -> hand_to_pbn h = Some s -> h <> [] ->
  exists fs fh fd fc, s = (fs ++ "." ++ fh ++ "." ++ fd ++ "." ++ fc)%string /\
    fs = suit_field h Sp /\ fh = suit_field h He /\ fd = suit_field h Di /\ fc = suit_field h Cl /\
    String.length s = 16.
Proof. exact hand_pbn_canonical. Qed.
Print Assumptions C14_pbn_hand_canonical.

(* each field lists exactly the hand's ranks of that suit, strictly high to low *)
Theorem C14_pbn_ranks_descending :
  forall h su rs, ranks_of (suit_field h su) = Some rs ->
  (forall r, In r rs <-> In (mkcard r su) h) /\
  (forall i j a b, i < j -> nth_error rs i = Some a -> nth_error rs j = Some b -> rank_val b < rank_val a).
Proof. exact suit_field_descending. Qed.
Print Assumptions C14_pbn_ranks_descending.

Theorem C14_pbn_void_is_empty_field :
  forall h su, (forall r, ~ In (mkcard r su) h) -> suit_field h su = ""%string.
Proof. exact void_is_empty_field. Qed.
Print Assumptions C14_pbn_void_is_empty_field.

Theorem C14_pbn_unknown_hand_is_dash :
  hand_to_pbn [] = Some "-"%string.
Proof. exact empty_hand_is_dash. Qed.
Print Assumptions C14_pbn_unknown_hand_is_dash.

Theorem C14_binary_length :
  forall h, length (to_binary h) = 52.
Proof. exact to_binary_length. Qed.
Print Assumptions C14_binary_length.

Theorem C14_binary_spec :
  forall h c, nth (card_idx c) (to_binary h) 0 = if has_card h c then 1 else 0.
Proof. exact to_binary_spec. Qed.
Print Assumptions C14_binary_spec.

(* any disjoint hands (any sizes) *)
Theorem C14_binary_roundtrip :
  forall d, disjoint d ->
  same_deal d (convert_binary (to_binary (d North)) (to_binary (d East)) (to_binary (d South)) (to_binary (d West))).
Proof. exact binary_roundtrip. Qed.
Print Assumptions C14_binary_roundtrip.

Theorem C14_json_roundtrip :
  forall h, exists h', json_to_hand (deal_to_json h) = Some h' /\ same_hand h h'.
Proof. exact json_roundtrip. Qed.
Print Assumptions C14_json_roundtrip.

(* JSON cards strictly ascending by card index *)
Theorem C14_json_sorted :
  forall h i j a b, i < j ->
  nth_error (sorted_hand h) i = Some a -> nth_error (sorted_hand h) j = Some b -> card_idx a < card_idx b.
Proof. exact json_sorted. Qed.
Print Assumptions C14_json_sorted.

Theorem C14_json_each_card_once :
  forall h, NoDup (sorted_hand h) /\ (forall c, In c (sorted_hand h) <-> In c h).
Proof. exact json_lists_each_card_once. Qed.
Print Assumptions C14_json_each_card_once.

(* Hands.to_pbn REGENERATED from hands.py on every run (harness/gen_hands.py) equals the hand model, for every deal and first seat *)
Theorem C14_generated_to_pbn_is_hand_model :
  forall s dealer, g_to_pbn s dealer = to_pbn (deal_of s) dealer.
Proof. exact to_pbn_gen. Qed.
Print Assumptions C14_generated_to_pbn_is_hand_model.

Theorem C14_generated_hand_to_pbn_is_hand_model :
  forall h, g_convert_hand_to_pbn h = hand_to_pbn h.
Proof. exact convert_hand_to_pbn_gen. Qed.
Print Assumptions C14_generated_hand_to_pbn_is_hand_model.

Theorem C14_generated_to_binary_is_hand_model :
  forall s,
  g_to_binary s = Some [(North, to_binary (h_north s)); (East, to_binary (h_east s));
                        (South, to_binary (h_south s)); (West, to_binary (h_west s))].
Proof. exact to_binary_gen. Qed.
Print Assumptions C14_generated_to_binary_is_hand_model.

(* convert_binary regenerated (a missing key or a short vector raises); the hands come out in the reverse order of insertion, the same sets *)
Theorem C14_generated_convert_binary_is_hand_model :
  forall b vn ve vs vw,
  py_dict_get seat_beq North b = Some vn -> py_dict_get seat_beq East b = Some ve ->
  py_dict_get seat_beq South b = Some vs -> py_dict_get seat_beq West b = Some vw ->
  52 <= length vn -> 52 <= length ve -> 52 <= length vs -> 52 <= length vw ->
  g_convert_binary b = Some (mkHands (rev (convert_binary vn ve vs vw North)) (rev (convert_binary vn ve vs vw East))
                                     (rev (convert_binary vn ve vs vw South)) (rev (convert_binary vn ve vs vw West))).
Proof. exact convert_binary_gen. Qed.
Print Assumptions C14_generated_convert_binary_is_hand_model.

(* the random dealer regenerated, for every shuffle *)
Theorem C14_generated_dealer_is_hand_model :
  forall shuffle : list card -> list card,
  g_generate_random_hands shuffle = Some (hands_of (deal_of_shuffle (shuffle pack_order))).
Proof. exact generate_random_hands_gen. Qed.
Print Assumptions C14_generated_dealer_is_hand_model.

(* the property, for the regenerated functions *)
Theorem C14_pbn_roundtrip_generated :
  forall s dealer t, pbn_deal (deal_of s) -> g_to_pbn s dealer = Some t ->
  exists d', convert_pbn t = Some d' /\ same_deal (deal_of s) d'.
Proof. exact generated_pbn_roundtrip. Qed.
Print Assumptions C14_pbn_roundtrip_generated.

Theorem C14_binary_roundtrip_generated :
  forall s, disjoint (deal_of s) -> exists b s',
  g_to_binary s = Some b /\ g_convert_binary b = Some s' /\ same_deal (deal_of s) (deal_of s').
Proof. exact generated_binary_roundtrip. Qed.
Print Assumptions C14_binary_roundtrip_generated.

Theorem C14_dealer_generated :
  forall shuffle : list card -> list card,
  Permutation pack_order (shuffle pack_order) -> exists s, g_generate_random_hands shuffle = Some s /\
    (forall p, length (deal_of s p) = 13 /\ NoDup (deal_of s p)) /\ disjoint (deal_of s) /\ (forall c, exists p, In c (deal_of s p)).
Proof. exact generated_dealer_deals_a_deal. Qed.
Print Assumptions C14_dealer_generated.

(* convert_deal REGENERATED from json_handler/writer.py on every run equals the hand model, for every deal *)
Theorem C14_generated_deal_writer_is_hand_model :
  forall d : deal, g_deal_json d = deal_json d.
Proof. exact g_deal_json_eq. Qed.
Print Assumptions C14_generated_deal_writer_is_hand_model.

(* hands_parser regenerated from json_handler/parser.py equals the hand model on every JSON value *)
Theorem C14_generated_deal_reader_is_hand_model :
  forall j, g_deal_of_json j = deal_of_json j.
Proof. exact g_deal_of_json_eq. Qed.
Print Assumptions C14_generated_deal_reader_is_hand_model.

Theorem C14_pack :
  Permutation pack_order all_cards.
Proof. exact pack_is_all_cards. Qed.
Print Assumptions C14_pack.

(* whatever permutation the shuffle produces: four disjoint 13-card hands covering the pack *)
Theorem C14_dealer :
  forall l, Permutation pack_order l ->
  let d := deal_of_shuffle l in
  (forall p, length (d p) = 13 /\ NoDup (d p)) /\ disjoint d /\ (forall c, exists p, In c (d p)).
Proof. exact dealer_deals_a_deal. Qed.
Print Assumptions C14_dealer.

(* the patterns of hands.py, regenerated from the source on every run, are the ones the matchers of Model/Hands.v mirror *)
Theorem C14_regex_pins :
  from_file "hands.py" regexes = pinned_hands.
Proof. exact pins_hands. Qed.
Print Assumptions C14_regex_pins.

(* non-vacuity: a deal with voids and a 13-card suit written from East *)
Theorem C14_example_read_back :
  match convert_pbn "E:..765432.8765432 .8765432..AKQJT9 .AKQJT9.AKQJT98. AKQJT98765432..." with
  | Some d' => forallb (fun p => hand_eqb (ex_deal p) (d' p)) all_seats
  | None => false end = true.
Proof. exact ex_read_back. Qed.
Print Assumptions C14_example_read_back.

Theorem C14_example_partial :
  match convert_pbn "W:- AKQJT98765432... - ..AKQJT98765432." with
  | Some d' => forallb (fun p => hand_eqb (ex_partial p) (d' p)) all_seats && (length (d' East) =? 0) && (length (d' West) =? 0)
  | None => false end = true.
Proof. exact ex_partial_read_back. Qed.
Print Assumptions C14_example_partial.

