(* C11 - All replicas of a board agree with the table manager.
   Only statements, each closed by [exact]; proofs are in the files imported below. *)
From BE Require Import Model.Session Model.Conform Proofs.Kahn Proofs.Session Proofs.Wire Proofs.SessionPassOut Proofs.SessionConform Proofs.SessionAdmission Proofs.SessionArrivals.
From BE Require Import Model.Play Spec.PlayLaws Gen.PlayFns Proofs.Play Proofs.PlayGen Proofs.PlayGenCor Gen.Skeleton Proofs.SkeletonPin.
Local Open Scope nat_scope.
(* (a) in process: the observer simulation theorem.  (b) over the wire: the model client keeps an ObservedPlayingPhase replica per board
   and stops (Fail) as soon as that replica refuses a card it is told about or it cannot parse what it receives; the
   theorem C11_clients_complete_every_session says that in every session whose seated clients conform, under every schedule,
   all four seated clients RETURN - so no replica ever refused an action the table manager accepted and the bundled client
   completes every session the server completes; that the replicas hold the board as played is evaluated per session on the
   real clients (replicas_ok of Spec/SessionSpec.v). *)
(* a single-seat observer fed the accepted plays accepts every one and holds the same public state *)
Theorem C11_observer_agrees :
  forall k deal s0 me o0 ops, init_hands k deal = Some s0 -> disjoint_deal deal ->
  init_obs k me (deal me) = Some o0 ->
  (* ops are plays the full-information game accepts, one after the other *)
  (forall i, i < length ops -> snd (play_by (runh s0 (firstn i ops)) (fst (nth i ops (cn 0, North))) (snd (nth i ops (cn 0, North)))) = POk) ->
  let dummy_cards := match ops with [] => [] | op :: _ => hands (runh s0 [op]) (dummy (hbase s0)) end in
  let o := fold_left (fun o op => fst (ostep dummy_cards o op)) ops o0 in
  (* every step is accepted by the observer *)
  (forall i, i < length ops -> snd (ostep dummy_cards (fold_left (fun o op => fst (ostep dummy_cards o op)) (firstn i ops) o0) (nth i ops (cn 0, North))) = POk) /\
  public (obase o) = public (hbase (runh s0 ops)) /\
  (forall c, In c (ohand o) <-> In c (hands (runh s0 ops) me)) /\
  (ops <> [] -> me <> dummy (hbase s0) -> exists dh, odummy o = Some dh /\ forall c, In c dh <-> In c (hands (runh s0 ops) (dummy (hbase s0)))).
Proof. exact observer_agrees. Qed.
Print Assumptions C11_observer_agrees.

(* ObservedPlayingPhase.play_card_by_player regenerated from playing_phase.py on every run *)
Theorem C11_generated_observer_step :
  forall s c p,
  play_card_raises (obase s) c = false -> g_obs_play_by s c p = obs_play_by s c p.
Proof. exact g_obs_play_by_spec. Qed.
Print Assumptions C11_generated_observer_step.

Theorem C11_generated_observer_step_is_hand_model :
  forall s c p, hist_ok (obase s) -> g_obs_play_by s c p = obs_play_by s c p.
Proof. exact g_obs_play_by_eq. Qed.
Print Assumptions C11_generated_observer_step_is_hand_model.

Theorem C11_generated_observer_init :
  forall k me hand, g_init_obs k me hand = init_obs k me hand.
Proof. exact g_init_obs_eq. Qed.
Print Assumptions C11_generated_observer_init.

Theorem C11_generated_set_dummy_hand :
  forall s h, g_set_dummy_hand s h = set_dummy_hand s h.
Proof. exact g_set_dummy_hand_eq. Qed.
Print Assumptions C11_generated_set_dummy_hand.

(* network part: every seated client returns, under every schedule, for every request list that fills the table *)
Theorem C11_clients_complete_every_session :
  forall x : session,
  let reqs := s_arrivals x in
  let T := seat_requests reqs empty_table in
  s_boards x <> [] -> s_interrupt x = None -> wf_requests reqs -> all_seated T = true ->
  conforming (s_boards x) (seated_scripts x) = true ->
  exists f N, sfinal f /\ arrivals_outcome x f /\
    forall l' s', srun l' (init_state x) = Some s' ->
      length l' <= N /\ (sfinal s' -> s' = f /\ length l' = N).
Proof. exact conforming_session_any_arrivals_every_schedule. Qed.
Print Assumptions C11_clients_complete_every_session.

(* network part: the structure of the bundled client (what it receives, sends and applies to its replica, in which order), re-extracted from client.py on this run, is the one the client processes of Model/Session.v mirror *)
Theorem C11_client_skeleton_is_the_modelled_one :
  client_skeleton = pinned_client_skeleton.
Proof. exact client_skeleton_pinned. Qed.
Print Assumptions C11_client_skeleton_is_the_modelled_one.

Theorem C11_server_skeleton_is_the_modelled_one :
  server_skeleton = pinned_server_skeleton.
Proof. exact server_skeleton_pinned. Qed.
Print Assumptions C11_server_skeleton_is_the_modelled_one.

(* non-vacuity *)
Theorem C11_example_hypothesis :
  exists s0, init_hands ex_k ex_deal = Some s0 /\
  forall i, i < length ex_ops ->
    snd (play_by (runh s0 (firstn i ex_ops)) (fst (nth i ex_ops (cn 0, North))) (snd (nth i ex_ops (cn 0, North)))) = POk.
Proof. exact ex_observer_hyp. Qed.
Print Assumptions C11_example_hypothesis.

Theorem C11_example_run :
  forall me, exists s0 o0, init_hands ex_k ex_deal = Some s0 /\
  init_obs ex_k me (ex_deal me) = Some o0 /\
  let dc := hands (runh s0 (firstn 1 ex_ops)) (dummy (hbase s0)) in
  let o := orun dc o0 ex_ops in
  public (obase o) = public (hbase (runh s0 ex_ops)) /\ ohand o = [] /\
  (if seat_beq me (dummy (hbase s0)) then True else odummy o = Some []) /\
  ohand (orun dc o0 (firstn 5 ex_ops)) = hands (runh s0 (firstn 5 ex_ops)) me.
Proof. exact ex_observer_run. Qed.
Print Assumptions C11_example_run.

