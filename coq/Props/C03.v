(* C03 - Final contract is the last bid, its doubling state and its true declarer.
   Only statements, each closed by [exact]; proofs are in the files imported below. *)
From BE Require Import Model.Auction Spec.Laws Gen.AuctionFns Proofs.Auction Proofs.AuctionGen Proofs.AuctionGenCor.
Local Open Scope nat_scope.

(* for every finished auction the reported contract is the one Spec/Laws.v derives from the bare history *)
Theorem C03_contract :
  forall d v offers,
  active (reach d v offers) = None ->
  contract_of (reach d v offers) = Some (contract_spec d v (hist (reach d v offers))).
Proof. exact contract_at_end. Qed.
Print Assumptions C03_contract.

Theorem C03_none_before_end :
  forall d v offers,
  active (reach d v offers) <> None -> contract_of (reach d v offers) = None.
Proof. exact no_contract_before_end. Qed.
Print Assumptions C03_none_before_end.

(* non-vacuity *)
Theorem C03_example_redoubled :
  contract_of (reach North VNS [Bid L1 NT; Dbl; Rdbl; Pass; Pass; Pass]) =
  Some (mkcontract (Some (L1, NT)) true true VNS (Some North))
  /\ run (init North VNS) [Bid L1 NT; Dbl; Rdbl; Pass; Pass; Pass] =
     [Ongoing; Ongoing; Ongoing; Ongoing; Ongoing; Finished].
Proof. exact ex_redoubled_contract. Qed.
Print Assumptions C03_example_redoubled.

Theorem C03_example_declarer_is_first_namer :
  contract_of (reach East VNone [Pass; Bid L1 (Tr He); Pass; Bid L2 (Tr He); Pass; Bid L4 (Tr He); Dbl; Pass; Pass; Pass]) =
  Some (mkcontract (Some (L4, Tr He)) true false VNone (Some South)).
Proof. exact ex_declarer_is_first_namer. Qed.
Print Assumptions C03_example_declarer_is_first_namer.

(* contract() regenerated from bidding_phase.py on every run *)
Theorem C03_generated_contract_is_hand_model :
  forall s, g_contract s = contract_of s.
Proof. exact g_contract_eq. Qed.
Print Assumptions C03_generated_contract_is_hand_model.

Theorem C03_contract_generated :
  forall d v offers,
  active (g_reach d v offers) = None ->
  g_contract (g_reach d v offers) = Some (contract_spec d v (hist (g_reach d v offers))).
Proof. exact g_contract_at_end. Qed.
Print Assumptions C03_contract_generated.

Theorem C03_none_before_end_generated :
  forall d v offers,
  active (g_reach d v offers) <> None -> g_contract (g_reach d v offers) = None.
Proof. exact g_no_contract_before_end. Qed.
Print Assumptions C03_none_before_end_generated.

