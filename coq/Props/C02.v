(* C02 - Auction proceeds clockwise from the dealer and ends exactly when it must.
   Only statements, each closed by [exact]; proofs are in the files imported below. *)
From BE Require Import Model.Auction Spec.Laws Gen.AuctionFns Proofs.Auction Proofs.AuctionGen Proofs.AuctionGenCor.
Local Open Scope nat_scope.

(* turn = dealer rotated by the number of accepted calls, none once ended; ended exactly when Law 22 says *)
Theorem C02_turn :
  forall d v offers,
  active (reach d v offers) =
  if ended (hist (reach d v offers)) then None else Some (caller d (length (hist (reach d v offers)))).
Proof. exact turn. Qed.
Print Assumptions C02_turn.

Theorem C02_personal_histories :
  forall d v offers p,
  phist (reach d v offers) p = pick d p (hist (reach d v offers)).
Proof. exact personal_histories. Qed.
Print Assumptions C02_personal_histories.

(* no reachable history has an ended proper prefix: the auction never continues after it should have ended *)
Theorem C02_never_later :
  forall d v offers pre suf,
  hist (reach d v offers) = pre ++ suf -> suf <> [] -> ended pre = false.
Proof. exact no_proper_prefix_ended. Qed.
Print Assumptions C02_never_later.

Theorem C02_finished_iff_ended :
  forall d v offers c,
  snd (take_bid (reach d v offers) c) = Finished <->
  (active (reach d v offers) <> None /\ legal d (hist (reach d v offers)) c = true /\
   ended (hist (reach d v offers) ++ [c]) = true).
Proof. exact finished_iff_ended. Qed.
Print Assumptions C02_finished_iff_ended.

(* once ended every further call raises and nothing changes *)
Theorem C02_after_end :
  forall s c, active s = None -> take_bid s c = (s, Raises).
Proof. exact after_end. Qed.
Print Assumptions C02_after_end.

Theorem C02_length_bound :
  forall d v offers, length (hist (reach d v offers)) <= 319.
Proof. exact length_bound. Qed.
Print Assumptions C02_length_bound.

(* non-vacuity: the 319-call auction is accepted call by call *)
Theorem C02_example_longest_auction :
  length longest = 319
  /\ run (init North VNone) longest = repeat Ongoing 318 ++ [Finished]
  /\ length (hist (reach North VNone longest)) = 319
  /\ hist (reach North VNone longest) = longest
  /\ contract_of (reach North VNone longest) = Some (mkcontract (Some (L7, NT)) true true VNone (Some West)).
Proof. exact ex_longest_accepted. Qed.
Print Assumptions C02_example_longest_auction.

Theorem C02_example_passed_out :
  contract_of (reach South VBoth [Pass; Pass; Pass; Pass]) = Some (mkcontract None false false VBoth None)
  /\ run (init South VBoth) [Pass; Pass; Pass; Pass; Pass] = [Ongoing; Ongoing; Ongoing; Finished; Raises].
Proof. exact ex_passed_out. Qed.
Print Assumptions C02_example_passed_out.

(* for the functions regenerated from bidding_phase.py on every run *)
Theorem C02_generated_model_is_hand_model :
  forall s c, g_take_bid s c = take_bid s c.
Proof. exact g_take_bid_eq. Qed.
Print Assumptions C02_generated_model_is_hand_model.

Theorem C02_turn_generated :
  forall d v offers,
  active (g_reach d v offers) =
  if ended (hist (g_reach d v offers)) then None else Some (caller d (length (hist (g_reach d v offers)))).
Proof. exact g_turn. Qed.
Print Assumptions C02_turn_generated.

Theorem C02_after_end_generated :
  forall s c, active s = None -> g_take_bid s c = (s, Raises).
Proof. exact g_after_end. Qed.
Print Assumptions C02_after_end_generated.

