(* C09 - A session with four conforming clients always runs to completion (every schedule).
   Only statements, each closed by [exact]; proofs are in the files imported below. *)
From BE Require Import Model.Session Model.SessionTie Spec.SessionSpec Proofs.Kahn Proofs.Session Proofs.SessionExamples Proofs.SessionPassOut Proofs.Wire Model.Conform Proofs.SessionConform Proofs.SessionAdmission Proofs.SessionArrivals Proofs.SessionAbort.
From BE Require Import Gen.Skeleton Proofs.SkeletonPin.
From Coq Require Import ZArith Permutation.
Local Open Scope nat_scope.
Local Open Scope list_scope.
(* FULL STATEMENT, PROVED (C09_conforming_sessions_complete / _every_schedule, Proofs/SessionConform.v): for every non-empty
   board list (any deals, dealers, vulnerabilities, ids), any two team names and EVERY conforming behaviour of the four clients
   (any legal auction of any length, any sequence of legal plays, every spelling of a call or card that the server parses - case,
   alerts, either card notation), every schedule of the network of threads ends with every process returned and one log record
   per board.  First proved for clients connecting in the order N, E, S, W, then lifted to EVERY list of requests that fills the
   table (C09_any_arrivals_every_schedule): main, the four seated connections and their clients return, turned-away clients
   have stopped at their error line, and only the clients of requests that arrived after the table was full wait for ever -
   which is what the property's premise (four conforming clients) leaves open. *)
(* every channel of the session network has one reader and one writer, for every input and every message that might arrive *)
Theorem C09_ownership :
  forall x, wf_state msg (rd x) (wr x) cw (init_state x).
Proof. exact session_wf. Qed.
Print Assumptions C09_ownership.

(* confluence: a run that has not finished can always be extended to the final state of any terminating run, with the same total number of steps *)
Theorem C09_any_schedule_can_be_completed :
  forall x l f l' s',
  srun l (init_state x) = Some f -> sfinal f -> srun l' (init_state x) = Some s' ->
  exists l'', srun l'' s' = Some f /\ length l' + length l'' = length l.
Proof. exact session_any_run_extends. Qed.
Print Assumptions C09_any_schedule_can_be_completed.

(* every maximal run, under every scheduler, ends in the same state after the same number of steps *)
Theorem C09_all_maximal_runs_agree :
  forall x l f l' s',
  srun l (init_state x) = Some f -> sfinal f -> srun l' (init_state x) = Some s' -> sfinal s' ->
  s' = f /\ length l' = length l.
Proof. exact session_maximal_runs_agree. Qed.
Print Assumptions C09_all_maximal_runs_agree.

Theorem C09_no_run_is_longer :
  forall x l f l' s',
  srun l (init_state x) = Some f -> sfinal f -> srun l' (init_state x) = Some s' -> length l' <= length l.
Proof. exact session_no_run_is_longer. Qed.
Print Assumptions C09_no_run_is_longer.

Theorem C09_canonical_run_is_a_run :
  forall fuel x s sched,
  run_session fuel x = (s, sched, true) -> srun sched (init_state x) = Some s /\ sfinal s.
Proof. exact canonical_run_sound. Qed.
Print Assumptions C09_canonical_run_is_a_run.

(* the synchronisation skeleton of server.py, re-extracted from the source on this run, is the one the session model was written against *)
Theorem C09_server_skeleton_is_the_modelled_one :
  server_skeleton = pinned_server_skeleton.
Proof. exact server_skeleton_pinned. Qed.
Print Assumptions C09_server_skeleton_is_the_modelled_one.

(* if the canonical run of a session reaches a final state, every schedule of that session reaches exactly that state: no deadlock, no lost wake-up, however long a thread is delayed *)
Theorem C09_every_schedule_completes_partial :
  forall fuel x s sched,
  run_session fuel x = (s, sched, true) ->
  forall l' s', srun l' (init_state x) = Some s' ->
    (exists l'', srun l'' s' = Some s /\ length l' + length l'' = length sched) /\ (sfinal s' -> s' = s).
Proof. exact every_schedule_reaches_canonical. Qed.
Print Assumptions C09_every_schedule_completes_partial.

(* FULL, symbolic and unbounded: for every conforming session a schedule exists that drives the network to the state where every process has returned, with a log of one record per board *)
Theorem C09_conforming_sessions_complete :
  forall boards ns ew scripts,
  boards <> [] -> no_quote ns -> no_quote ew -> conforming boards scripts = true ->
  exists l f, srun l (init_state (conf_session boards ns ew scripts)) = Some f /\
              Kahn.all_doneb msg f = true /\
              exists recs, log_events 4 f = LOpen :: map LRec recs ++ [LClose] /\ length recs = length boards.
Proof. exact conforming_session_completes. Qed.
Print Assumptions C09_conforming_sessions_complete.

(* hence EVERY schedule of every conforming session completes - no deadlock, no lost wake-up, however long a thread is delayed - in the same final state and within the same number of steps *)
Theorem C09_conforming_sessions_every_schedule :
  forall boards ns ew scripts,
  boards <> [] -> no_quote ns -> no_quote ew -> conforming boards scripts = true ->
  exists f n, Kahn.all_doneb msg f = true /\
    forall l' s', srun l' (init_state (conf_session boards ns ew scripts)) = Some s' ->
      length l' <= n /\ (sfinal s' -> s' = f).
Proof. exact conforming_session_every_schedule. Qed.
Print Assumptions C09_conforming_sessions_every_schedule.

(* FULL for every request list that fills the table, any number of connections: every schedule ends, within the same number of steps, in the one final state described by arrivals_outcome - main returned, log complete, the four seated connections and their clients returned *)
Theorem C09_any_arrivals_every_schedule :
  forall x : session,
  let reqs := s_arrivals x in
  let T := seat_requests reqs empty_table in
  s_boards x <> [] -> s_interrupt x = None -> wf_requests reqs -> all_seated T = true ->
  conforming (s_boards x) (seated_scripts x) = true ->
  exists f N, sfinal f /\ arrivals_outcome x f /\
    forall l' s', srun l' (init_state x) = Some s' ->
      length l' <= N /\ (sfinal s' -> s' = f /\ length l' = N).
Proof. exact conforming_session_any_arrivals_every_schedule. Qed.
Print Assumptions C09_any_arrivals_every_schedule.

(* in particular for the four acceptable requests in any order every process finishes *)
Theorem C09_any_order_of_the_four :
  forall boards ns ew reqs scripts,
  Permutation (four_requests ns ew) reqs ->
  boards <> [] -> no_quote ns -> no_quote ew ->
  let x := mkSession boards reqs scripts None in
  let T := seat_requests reqs empty_table in
  conforming boards (seated_scripts x) = true ->
  exists l f, srun l (init_state x) = Some f /\ Kahn.all_doneb msg f = true /\
    (forall p, names_of T p = NM ns ew p) /\
    (exists recs, log_events 4 f = LOpen :: map LRec recs ++ [LClose] /\
                  map Some recs = recs_from (names_of T) (seated_scripts x) 0 boards) /\
    (forall p, chan f (tr_down 4 (conn_map reqs p)) = down_view boards ns ew (seated_scripts x) p).
Proof. exact conforming_session_any_order. Qed.
Print Assumptions C09_any_order_of_the_four.

(* and for EVERY input, conforming or not: no schedule of the network runs for ever (every step descends in a well-founded order) *)
Theorem C09_no_infinite_schedule :
  forall s, Acc snext s.
Proof. exact no_infinite_schedule. Qed.
Print Assumptions C09_no_infinite_schedule.

(* the special case proved first: ANY non-empty list of boards (arbitrary deals, dealers, vulnerabilities, ids), four clients arriving N, E, S, W, everybody passing: a schedule exists that drives the network to the state where every process has returned, with a log of one record per board *)
Theorem C09_passed_out_sessions_complete :
  forall boards ns ew,
  boards <> [] -> no_quote ns -> no_quote ew ->
  exists l f, srun l (init_state (passout_session boards ns ew)) = Some f /\
              Kahn.all_doneb msg f = true /\
              exists recs, log_events 4 f = LOpen :: map LRec recs ++ [LClose] /\ length recs = length boards.
Proof. exact passout_session_completes. Qed.
Print Assumptions C09_passed_out_sessions_complete.

(* hence EVERY schedule of such a session completes, in the same way and within the same number of steps *)
Theorem C09_passed_out_sessions_every_schedule :
  forall boards ns ew,
  boards <> [] -> no_quote ns -> no_quote ew ->
  exists f n, Kahn.all_doneb msg f = true /\
    forall l' s', srun l' (init_state (passout_session boards ns ew)) = Some s' ->
      length l' <= n /\ (sfinal s' -> s' = f).
Proof. exact passout_session_every_schedule. Qed.
Print Assumptions C09_passed_out_sessions_every_schedule.

(* non-vacuity: a two-board session taken from a real run *)
Theorem C09_example_played_session_completes :
  completes ex_played = true.
Proof. exact ex_played_completes. Qed.
Print Assumptions C09_example_played_session_completes.

Theorem C09_example_passed_out_session_completes :
  completes ex_passed_out = true.
Proof. exact ex_passed_out_completes. Qed.
Print Assumptions C09_example_passed_out_session_completes.

Theorem C09_example_model_is_the_real_run :
  tie_session ex_played ex_played_observed = 0.
Proof. exact ex_played_model_is_the_real_run. Qed.
Print Assumptions C09_example_model_is_the_real_run.

