(* C09 - A session with four conforming clients always runs to completion (every schedule).
   Only statements, each closed by [exact]; proofs are in the files imported below. *)
From BE Require Import Model.Session Model.SessionTie Spec.SessionSpec Proofs.Kahn Proofs.Session Proofs.SessionExamples Proofs.SessionPassOut Proofs.Wire.
From Coq Require Import ZArith.
Local Open Scope nat_scope.
Local Open Scope list_scope.
(* FULL STATEMENT (not proved in this form): for every non-empty board list, every arrival order seating four clients and every
   conforming script, every maximal run of the network ends with every process returned.  What is proved: for EVERY input, all
   schedules agree (below); that the canonical schedule completes is evaluated by vm_compute for each session exercised by the
   check and for the examples below - hence the suffix _partial on the combined statement. *)
(* every channel of the session network has one reader and one writer, for every input and every message that might arrive *)
Theorem C09_ownership :
  forall x, wf_state msg (rd x) (wr x) cw (init_state x).
Proof. exact session_wf. Qed.
Print Assumptions C09_ownership.

(* confluence: a run that has not finished can always be extended to the final state of any terminating run, with the same total number of steps *)
Theorem C09_any_schedule_can_be_completed :
  forall x l f l' s',
  srun l (init_state x) = Some f -> sfinal f -> srun l' (init_state x) = Some s' ->
  exists l'', srun l'' s' = Some f /\ length l' + length l'' = length l.
Proof. exact session_any_run_extends. Qed.
Print Assumptions C09_any_schedule_can_be_completed.

(* every maximal run, under every scheduler, ends in the same state after the same number of steps *)
Theorem C09_all_maximal_runs_agree :
  forall x l f l' s',
  srun l (init_state x) = Some f -> sfinal f -> srun l' (init_state x) = Some s' -> sfinal s' ->
  s' = f /\ length l' = length l.
Proof. exact session_maximal_runs_agree. Qed.
Print Assumptions C09_all_maximal_runs_agree.

Theorem C09_no_run_is_longer :
  forall x l f l' s',
  srun l (init_state x) = Some f -> sfinal f -> srun l' (init_state x) = Some s' -> length l' <= length l.
Proof. exact session_no_run_is_longer. Qed.
Print Assumptions C09_no_run_is_longer.

Theorem C09_canonical_run_is_a_run :
  forall fuel x s sched,
  run_session fuel x = (s, sched, true) -> srun sched (init_state x) = Some s /\ sfinal s.
Proof. exact canonical_run_sound. Qed.
Print Assumptions C09_canonical_run_is_a_run.

(* if the canonical run of a session reaches a final state, every schedule of that session reaches exactly that state: no deadlock, no lost wake-up, however long a thread is delayed *)
Theorem C09_every_schedule_completes_partial :
  forall fuel x s sched,
  run_session fuel x = (s, sched, true) ->
  forall l' s', srun l' (init_state x) = Some s' ->
    (exists l'', srun l'' s' = Some s /\ length l' + length l'' = length sched) /\ (sfinal s' -> s' = s).
Proof. exact every_schedule_reaches_canonical. Qed.
Print Assumptions C09_every_schedule_completes_partial.

(* FULL, symbolic and unbounded, for one infinite family: ANY non-empty list of boards (arbitrary deals, dealers, vulnerabilities, ids), four clients arriving N, E, S, W, everybody passing: a schedule exists that drives the network to the state where every process has returned, with a log of one record per board *)
Theorem C09_passed_out_sessions_complete :
  forall boards ns ew,
  boards <> [] -> no_quote ns -> no_quote ew ->
  exists l f, srun l (init_state (passout_session boards ns ew)) = Some f /\
              Kahn.all_doneb msg f = true /\
              exists recs, log_events 4 f = LOpen :: map LRec recs ++ [LClose] /\ length recs = length boards.
Proof. exact passout_session_completes. Qed.
Print Assumptions C09_passed_out_sessions_complete.

(* hence EVERY schedule of such a session completes, in the same way and within the same number of steps *)
Theorem C09_passed_out_sessions_every_schedule :
  forall boards ns ew,
  boards <> [] -> no_quote ns -> no_quote ew ->
  exists f n, Kahn.all_doneb msg f = true /\
    forall l' s', srun l' (init_state (passout_session boards ns ew)) = Some s' ->
      length l' <= n /\ (sfinal s' -> s' = f).
Proof. exact passout_session_every_schedule. Qed.
Print Assumptions C09_passed_out_sessions_every_schedule.

(* non-vacuity: a two-board session taken from a real run *)
Theorem C09_example_played_session_completes :
  completes ex_played = true.
Proof. exact ex_played_completes. Qed.
Print Assumptions C09_example_played_session_completes.

Theorem C09_example_passed_out_session_completes :
  completes ex_passed_out = true.
Proof. exact ex_passed_out_completes. Qed.
Print Assumptions C09_example_passed_out_session_completes.

Theorem C09_example_model_is_the_real_run :
  tie_session ex_played ex_played_observed = 0.
Proof. exact ex_played_model_is_the_real_run. Qed.
Print Assumptions C09_example_model_is_the_real_run.

