(* C18 - PBN export is read back by the PBN parser, one game per board.
   Only statements, each closed by [exact]; proofs are in the files imported below. *)
From BE Require Import Model.Json Model.Schema Model.Pbn Model.JsonFramingHand Model.SchemasHand Gen.Regexes Proofs.Json Proofs.Pbn Proofs.Pins Proofs.JsonPins Gen.PbnFns Proofs.PbnGen Proofs.PbnGenCor.
From BE Require Gen.JsonFraming Gen.Schemas.
From Coq Require Import ZArith.
Local Open Scope string_scope.
Local Open Scope nat_scope.
Local Open Scope list_scope.

(* any text: every line written has at most 255 characters *)
Theorem C18_write_line_le_255 :
  forall s l, In l (write_line s) -> String.length l <= 255.
Proof. exact write_line_le_255. Qed.
Print Assumptions C18_write_line_le_255.

Theorem C18_write_line_ends_lines :
  forall s l, In l (write_line s) -> ends_with_lf l = true.
Proof. exact write_line_ends_lines. Qed.
Print Assumptions C18_write_line_ends_lines.

Theorem C18_write_line_keeps_text :
  forall s, drop_lf (sconcat (write_line s)) = drop_lf s.
Proof. exact write_line_keeps_text. Qed.
Print Assumptions C18_write_line_keeps_text.

(* every line of every exported file, for any results *)
Theorem C18_lines_le_255 :
  forall h rs text l, write_file h rs = Some text -> In l (lines text) -> String.length l <= 255.
Proof. exact every_written_line_le_255. Qed.
Print Assumptions C18_lines_le_255.

Theorem C18_export_defined :
  forall h rs, Forall result_ok rs -> exists text, write_file h rs = Some text.
Proof. exact export_defined. Qed.
Print Assumptions C18_export_defined.

(* every sequence of results whose tag pairs fit on a line is read back as the fifteen tags with the written values, game by game *)
Theorem C18_roundtrip :
  forall h rs text, Forall result_ok rs -> write_file h rs = Some text ->
  exists tss, map_opt tags15 rs = Some tss /\ parse_all text = Some tss.
Proof. exact export_roundtrip. Qed.
Print Assumptions C18_roundtrip.

(* consecutive results are separate games *)
Theorem C18_separate_games :
  forall h rs text gs, Forall result_ok rs -> write_file h rs = Some text ->
  parse_all text = Some gs -> length gs = length rs.
Proof. exact export_one_game_per_result. Qed.
Print Assumptions C18_separate_games.

(* deal, dealer, vulnerability and board number are recovered as board settings *)
Theorem C18_as_settings :
  forall h rs text, Forall result_ok rs -> write_file h rs = Some text ->
  exists ss, parse_board_settings text = Some (Some ss) /\ Forall2 result_matches rs ss.
Proof. exact export_as_settings. Qed.
Print Assumptions C18_as_settings.

Theorem C18_regex_pins :
  from_file "parser.py" regexes = pinned_pbn.
Proof. exact pins_pbn. Qed.
Print Assumptions C18_regex_pins.

(* write_board_result REGENERATED from the text of pbn_handler/writer.py on every run (harness/gen_pbnw.py) equals the hand model, for every result *)
Theorem C18_generated_write_board_result_is_hand_model :
  forall x, g_write_board_result x = write_board_result x.
Proof. exact g_write_board_result_eq. Qed.
Print Assumptions C18_generated_write_board_result_is_hand_model.

(* write_line regenerated: the hand model, or the IndexError on the empty string *)
Theorem C18_generated_write_line :
  forall s,
  g_write_line s = match s with EmptyString => None | String _ _ => Some (write_line s) end.
Proof. exact g_write_line_spec. Qed.
Print Assumptions C18_generated_write_line.

(* write_tag_pair regenerated: the hand model, or the assertion on the first letter of the tag *)
Theorem C18_generated_write_tag_pair :
  forall tag content,
  g_write_tag_pair tag content =
  match tag with
  | String a _ => if is_upper a then Some (write_tag_pair tag content) else None
  | EmptyString => None end.
Proof. exact g_write_tag_pair_eq. Qed.
Print Assumptions C18_generated_write_tag_pair.

Theorem C18_generated_write_header :
  g_write_header = Some write_header.
Proof. exact g_write_header_eq. Qed.
Print Assumptions C18_generated_write_header.

Theorem C18_generated_export_is_hand_model :
  forall h rs, g_write_file h rs = write_file h rs.
Proof. exact g_write_file_eq. Qed.
Print Assumptions C18_generated_export_is_hand_model.

(* the property, for the regenerated writer *)
Theorem C18_lines_le_255_generated :
  forall h rs text l, g_write_file h rs = Some text -> In l (lines text) -> String.length l <= 255.
Proof. exact g_lines_le_255. Qed.
Print Assumptions C18_lines_le_255_generated.

Theorem C18_roundtrip_generated :
  forall h rs text, Forall result_ok rs -> g_write_file h rs = Some text ->
  exists tss, map_opt tags15 rs = Some tss /\ parse_all text = Some tss.
Proof. exact g_export_roundtrip. Qed.
Print Assumptions C18_roundtrip_generated.

Theorem C18_separate_games_generated :
  forall h rs text gs, Forall result_ok rs -> g_write_file h rs = Some text ->
  parse_all text = Some gs -> length gs = length rs.
Proof. exact g_export_one_game_per_result. Qed.
Print Assumptions C18_separate_games_generated.

Theorem C18_as_settings_generated :
  forall h rs text, Forall result_ok rs -> g_write_file h rs = Some text ->
  exists ss, parse_board_settings text = Some (Some ss) /\ Forall2 result_matches rs ss.
Proof. exact g_export_as_settings. Qed.
Print Assumptions C18_as_settings_generated.

(* non-vacuity: two results, one passed out *)
Theorem C18_example_results :
  Forall result_ok [ex_result1; ex_result2].
Proof. exact ex_results_ok. Qed.
Print Assumptions C18_example_results.

Theorem C18_example_read_back :
  match write_file true [ex_result1; ex_result2] with
  | Some text => parse_all text = map_opt tags15 [ex_result1; ex_result2] /\ List.length (lines text) = 34 /\
      option_map (option_map (map (fun s => (ps_board_id s, ps_dealer s, ps_vul s,
                                            map (fun p => List.length (ps_deal s p)) all_seats)))) (parse_board_settings text) =
      Some (Some [("5", East, VNS, [13; 13; 13; 13]); ("16", West, VBoth, [13; 0; 13; 0])])
  | None => False end.
Proof. exact ex_export_read_back. Qed.
Print Assumptions C18_example_read_back.

Theorem C18_example_long_line :
  map String.length (write_line (sconcat (repeat "0123456789" 60))) = [255; 255; 93].
Proof. exact ex_long_line. Qed.
Print Assumptions C18_example_long_line.

