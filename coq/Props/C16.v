(* C16 - IMP conversion is the official scale, odd and monotone, for every difference. *)
From BE Require Import Model.Score Spec.Duplicate Gen.ScoreFns Proofs.C16 Proofs.ScoreGen Proofs.ScoreGenCor Proofs.ScoreConstsPin.
From BE Require Gen.ScoreConsts Model.ScoreConstsHand.
Open Scope Z_scope.

Theorem C16_tuple_is_official_scale : k_imps_list = official_imp_bounds.
Proof. exact imps_list_is_official. Qed.
Print Assumptions C16_tuple_is_official_scale.
Theorem C16_official : forall d, point_difference_to_imps d = official_imps d.
Proof. exact imps_official. Qed.
Print Assumptions C16_official.
Theorem C16_range : forall d, -24 <= point_difference_to_imps d <= 24.
Proof. exact imps_range. Qed.
Print Assumptions C16_range.
Theorem C16_monotone : forall d e, d <= e -> point_difference_to_imps d <= point_difference_to_imps e.
Proof. exact imps_monotone. Qed.
Print Assumptions C16_monotone.
Theorem C16_odd : forall d, point_difference_to_imps (- d) = - point_difference_to_imps d.
Proof. exact imps_odd. Qed.
Print Assumptions C16_odd.
Theorem C16_zero_below_20 : forall d, -20 < d < 20 -> point_difference_to_imps d = 0.
Proof. exact imps_zero_below_20. Qed.
Print Assumptions C16_zero_below_20.
Theorem C16_24_from_4000 : forall d, 4000 <= d -> point_difference_to_imps d = 24.
Proof. exact imps_24_from_4000. Qed.
Print Assumptions C16_24_from_4000.
Theorem C16_two_scores : forall a b, score_to_imp a b = official_imps (a + b).
Proof. exact two_scores. Qed.
Print Assumptions C16_two_scores.

(* ---- the same for the functions REGENERATED from the text of score.py on every run (harness/gen_score.py -> Gen/ScoreFns.v) ---- *)
Theorem C16_generated_model_is_hand_model : forall d, g_point_difference_to_imps d = point_difference_to_imps d.
Proof. exact g_imps_eq. Qed.
Print Assumptions C16_generated_model_is_hand_model.
Theorem C16_official_generated : forall d, g_point_difference_to_imps d = official_imps d.
Proof. exact g_imps_official. Qed.
Print Assumptions C16_official_generated.
Theorem C16_range_generated : forall d, -24 <= g_point_difference_to_imps d <= 24.
Proof. exact g_imps_range. Qed.
Theorem C16_monotone_generated : forall d e, d <= e -> g_point_difference_to_imps d <= g_point_difference_to_imps e.
Proof. exact g_imps_monotone. Qed.
Theorem C16_odd_generated : forall d, g_point_difference_to_imps (- d) = - g_point_difference_to_imps d.
Proof. exact g_imps_odd. Qed.
Theorem C16_two_scores_generated : forall a b, g_score_to_imp a b = official_imps (a + b).
Proof. exact g_two_scores. Qed.
Print Assumptions C16_two_scores_generated.

(* every number of score.py, re-read from the source on this run, is the number the model uses *)
Theorem C16_source_constants_are_the_modelled_ones :
  Gen.ScoreConsts.k_minor = Model.ScoreConstsHand.k_minor /\
  Gen.ScoreConsts.k_major = Model.ScoreConstsHand.k_major /\
  Gen.ScoreConsts.k_nt = Model.ScoreConstsHand.k_nt /\
  Gen.ScoreConsts.k_make = Model.ScoreConstsHand.k_make /\
  Gen.ScoreConsts.k_make_x = Model.ScoreConstsHand.k_make_x /\
  Gen.ScoreConsts.k_make_xx = Model.ScoreConstsHand.k_make_xx /\
  Gen.ScoreConsts.k_game = Model.ScoreConstsHand.k_game /\
  Gen.ScoreConsts.k_game_vul = Model.ScoreConstsHand.k_game_vul /\
  Gen.ScoreConsts.k_small_slam = Model.ScoreConstsHand.k_small_slam /\
  Gen.ScoreConsts.k_small_slam_vul = Model.ScoreConstsHand.k_small_slam_vul /\
  Gen.ScoreConsts.k_grand_slam = Model.ScoreConstsHand.k_grand_slam /\
  Gen.ScoreConsts.k_grand_slam_vul = Model.ScoreConstsHand.k_grand_slam_vul /\
  Gen.ScoreConsts.k_overtrick_x = Model.ScoreConstsHand.k_overtrick_x /\
  Gen.ScoreConsts.k_overtrick_x_vul = Model.ScoreConstsHand.k_overtrick_x_vul /\
  Gen.ScoreConsts.k_overtrick_xx = Model.ScoreConstsHand.k_overtrick_xx /\
  Gen.ScoreConsts.k_overtrick_xx_vul = Model.ScoreConstsHand.k_overtrick_xx_vul /\
  Gen.ScoreConsts.k_down = Model.ScoreConstsHand.k_down /\
  Gen.ScoreConsts.k_down_vul = Model.ScoreConstsHand.k_down_vul /\
  Gen.ScoreConsts.k_down_x = Model.ScoreConstsHand.k_down_x /\
  Gen.ScoreConsts.k_down_x_vul = Model.ScoreConstsHand.k_down_x_vul /\
  Gen.ScoreConsts.k_down_xx = Model.ScoreConstsHand.k_down_xx /\
  Gen.ScoreConsts.k_down_xx_vul = Model.ScoreConstsHand.k_down_xx_vul /\
  Gen.ScoreConsts.k_imps_list = Model.ScoreConstsHand.k_imps_list.
Proof. exact score_constants_pinned. Qed.
Print Assumptions C16_source_constants_are_the_modelled_ones.
