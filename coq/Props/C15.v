(* C15 - Card, call, contract, seat and vulnerability notations are exact inverses.
   Complete finite domains; statements only. *)
From BE Require Import Model.Basics Model.NotationRows Spec.Notation Gen.NotationGraph Proofs.C15.
Local Open Scope nat_scope.

(* tie: the models equal the implementation on every point of every domain (kernel-checked tables) *)
Theorem C15_models_are_implementation :
  m_cards = g_cards /\ m_ranks = g_ranks /\ m_card_cmp = g_card_cmp /\ m_calls = g_calls /\ m_seats = g_seats /\
  m_is_partner = g_is_partner /\ m_seat_is_vul = g_seat_is_vul /\ m_vuls = g_vuls /\ m_vul_inputs = g_vul_inputs /\
  m_suits = g_suits /\ m_pairs = g_pairs /\ m_contracts = g_contracts /\ m_passed_out = g_passed_out.
Proof. exact (conj tie_cards (conj tie_ranks (conj tie_card_cmp (conj tie_calls (conj tie_seats (conj tie_is_partner
  (conj tie_seat_is_vul (conj tie_vuls (conj tie_vul_inputs (conj tie_suits (conj tie_pairs (conj tie_contracts tie_passed_out)))))))))))). Qed.
Print Assumptions C15_models_are_implementation.

(* the property checked on the implementation's own tables by the independent checker of Spec/Notation.v *)
Theorem C15_implementation_tables_satisfy_property :
  cards_bad g_cards = [] /\ ranks_bad g_ranks = [] /\ card_cmp_bad g_card_cmp = [] /\ calls_bad g_calls = [] /\
  seats_bad g_seats = [] /\ vuls_bad g_vuls = [] /\ vul_inputs_bad g_vul_inputs = [] /\ suits_bad g_suits = [] /\
  pairs_bad g_pairs = [] /\ contracts_bad g_contracts = [] /\ passed_out_bad g_passed_out = [].
Proof. exact graph_ok. Qed.
Print Assumptions C15_implementation_tables_satisfy_property.

Theorem C15_card_roundtrips : forall c,
  card_of_str (card_str c) = Some c /\ card_of_idx (card_idx c) = Some c /\ card_idx c < 52.
Proof. exact (fun c => conj (card_str_roundtrip c) (conj (card_idx_roundtrip c) (card_idx_range c))). Qed.
Print Assumptions C15_card_roundtrips.
Theorem C15_card_index_onto : forall k, k < 52 -> exists c, card_of_idx k = Some c /\ card_idx c = k.
Proof. exact card_of_idx_inv. Qed.
Theorem C15_injective_cards : forall a b, (card_str a = card_str b -> a = b) /\ (card_idx a = card_idx b -> a = b).
Proof. exact (fun a b => conj (card_str_injective a b) (card_idx_injective a b)). Qed.
Theorem C15_card_order_is_index_order : forall a b,
  card_lt a b = (card_idx a <? card_idx b) /\ card_le a b = (card_idx a <=? card_idx b) /\
  card_gt a b = (card_idx b <? card_idx a) /\ card_ge a b = (card_idx b <=? card_idx a) /\
  (card_beq a b = true <-> card_idx a = card_idx b).
Proof. exact card_order_is_index_order. Qed.
Print Assumptions C15_card_order_is_index_order.

Theorem C15_call_roundtrips : forall c,
  call_of_str (call_str c) = Some c /\ call_of_idx (call_idx c) = Some c /\ call_idx c < 38.
Proof. exact (fun c => conj (call_str_roundtrip c) (conj (call_idx_roundtrip c) (call_idx_range c))). Qed.
Print Assumptions C15_call_roundtrips.
Theorem C15_call_level_denomination : forall l s,
  call_level (Bid l s) = Some l /\ call_strain (Bid l s) = Some s /\ call_idx (Bid l s) = (level_val l - 1) * 5 + strain_val s - 1.
Proof. exact call_level_strain_roundtrip. Qed.
Theorem C15_injective_calls : forall a b, (call_str a = call_str b -> a = b) /\ (call_idx a = call_idx b -> a = b).
Proof. exact (fun a b => conj (call_str_injective a b) (call_idx_injective a b)). Qed.
Print Assumptions C15_injective_calls.

Theorem C15_seat_names : forall p,
  seat_of_str (seat_str p) = Some p /\ seat_of_formal (formal_name p) = Some p /\ seat_of_val (seat_val p) = Some p.
Proof. exact seat_names. Qed.
Theorem C15_injective_seats : forall a b, (seat_str a = seat_str b -> a = b) /\ (formal_name a = formal_name b -> a = b).
Proof. exact (fun a b => conj (seat_str_injective a b) (formal_name_injective a b)). Qed.
Print Assumptions C15_injective_seats.

Theorem C15_vul_spellings : forall v, vul_of_str (vul_str v) = Some v /\ vul_of_str (vul_pbn v) = Some v.
Proof. exact vul_spellings. Qed.
Theorem C15_vul_accepted_inputs :
  map vul_of_str ["None"; "Love"; "-"; "Both"; "All"; "NS"; "EW"]%string
  = [Some VNone; Some VNone; Some VNone; Some VBoth; Some VBoth; Some VNS; Some VEW].
Proof. exact vul_accepted_inputs. Qed.
Theorem C15_injective_vuls : forall a b, (vul_str a = vul_str b -> a = b) /\ (vul_pbn a = vul_pbn b -> a = b).
Proof. exact (fun a b => conj (vul_str_injective a b) (vul_pbn_injective a b)). Qed.
Print Assumptions C15_injective_vuls.

Theorem C15_contract_text : forall l s x xx v d,
  exists k', contract_of_str (contract_str (mkcontract (Some (l, s)) x xx v d)) v d = Some k' /\
             same_contract (mkcontract (Some (l, s)) x xx v d) k'.
Proof. exact contract_text_roundtrip. Qed.
Print Assumptions C15_contract_text.
Theorem C15_contract_text_passed_out : forall v x xx,
  contract_of_str (contract_str (mkcontract None x xx v None)) v None = Some (mkcontract None false false v None).
Proof. exact contract_text_passed_out. Qed.
Print Assumptions C15_contract_text_passed_out.
