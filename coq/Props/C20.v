(* C20 - Admission seats one conforming client per seat and turns the others away.
   Only statements, each closed by [exact]; proofs are in the files imported below. *)
From BE Require Import Model.Session Model.SessionTie Spec.SessionSpec Proofs.Kahn Proofs.Session Proofs.SessionExamples Model.Conform Proofs.SessionConform Proofs.SessionPassOut Proofs.Wire Proofs.SessionAdmission Proofs.SessionArrivals.
From BE Require Import Gen.Skeleton Proofs.SkeletonPin.
From Coq Require Import ZArith.
Local Open Scope string_scope.
Local Open Scope nat_scope.
Local Open Scope list_scope.

(* every channel of the session network has one reader and one writer, for every input and every message that might arrive *)
Theorem C20_ownership :
  forall x, wf_state msg (rd x) (wr x) cw (init_state x).
Proof. exact session_wf. Qed.
Print Assumptions C20_ownership.

(* confluence: a run that has not finished can always be extended to the final state of any terminating run, with the same total number of steps *)
Theorem C20_any_schedule_can_be_completed :
  forall x l f l' s',
  srun l (init_state x) = Some f -> sfinal f -> srun l' (init_state x) = Some s' ->
  exists l'', srun l'' s' = Some f /\ length l' + length l'' = length l.
Proof. exact session_any_run_extends. Qed.
Print Assumptions C20_any_schedule_can_be_completed.

(* every maximal run, under every scheduler, ends in the same state after the same number of steps *)
Theorem C20_all_maximal_runs_agree :
  forall x l f l' s',
  srun l (init_state x) = Some f -> sfinal f -> srun l' (init_state x) = Some s' -> sfinal s' ->
  s' = f /\ length l' = length l.
Proof. exact session_maximal_runs_agree. Qed.
Print Assumptions C20_all_maximal_runs_agree.

Theorem C20_no_run_is_longer :
  forall x l f l' s',
  srun l (init_state x) = Some f -> sfinal f -> srun l' (init_state x) = Some s' -> length l' <= length l.
Proof. exact session_no_run_is_longer. Qed.
Print Assumptions C20_no_run_is_longer.

Theorem C20_canonical_run_is_a_run :
  forall fuel x s sched,
  run_session fuel x = (s, sched, true) -> srun sched (init_state x) = Some s /\ sfinal s.
Proof. exact canonical_run_sound. Qed.
Print Assumptions C20_canonical_run_is_a_run.

(* the synchronisation skeleton of server.py, re-extracted from the source on this run, is the one the session model was written against *)
Theorem C20_server_skeleton_is_the_modelled_one :
  server_skeleton = pinned_server_skeleton.
Proof. exact server_skeleton_pinned. Qed.
Print Assumptions C20_server_skeleton_is_the_modelled_one.

(* a request is turned away exactly for a wrong protocol version, a seat already taken, or a team name different from the seated partner's *)
Theorem C20_rejected_iff :
  forall tbl team p ver,
  admission_error tbl team p ver <> None <->
  (ver <> 18 \/ tbl p <> None \/ (exists t', tbl (partner p) = Some t' /\ t' <> team)).
Proof. exact rejected_iff. Qed.
Print Assumptions C20_rejected_iff.

(* whatever arrives later, a seated client keeps its seat and team (a rejected request leaves the table unchanged) *)
Theorem C20_monotone :
  forall reqs tbl p t, tbl p = Some t -> seat_requests reqs tbl p = Some t.
Proof. exact seated_keeps_seats. Qed.
Print Assumptions C20_monotone.

Theorem C20_partners_share :
  forall reqs tbl,
  (forall p t t', tbl p = Some t -> tbl (partner p) = Some t' -> t = t') ->
  forall p t t', seat_requests reqs tbl p = Some t -> seat_requests reqs tbl (partner p) = Some t' -> t = t'.
Proof. exact partners_share. Qed.
Print Assumptions C20_partners_share.

(* if every seat is eventually offered an acceptable request, all four seats are taken *)
Theorem C20_completes :
  forall reqs, acceptable_eventually reqs -> all_seated (seat_requests reqs (fun _ => None)) = true.
Proof. exact all_seated_eventually. Qed.
Print Assumptions C20_completes.

(* the table reached seats, in every seat, exactly the FIRST request for it that was acceptable when it was looked at; every other request for that seat that was looked at was turned away *)
Theorem C20_first_acceptable_request_per_seat :
  forall reqs, all_seated (seat_requests reqs empty_table) = true ->
  forall p, exists j a,
    nth_error reqs j = Some a /\ a_seat a = p /\ j < looked_at reqs empty_table /\
    admission_error (table_before reqs j) (a_team a) (a_seat a) (a_version a) = None /\
    seat_requests reqs empty_table p = Some (a_team a) /\
    conn_map reqs p = j /\
    (forall j' a', nth_error reqs j' = Some a' -> a_seat a' = p -> j' < looked_at reqs empty_table -> j' <> j ->
       admission_error (table_before reqs j') (a_team a') (a_seat a') (a_version a') <> None).
Proof. exact table_seats_first_acceptable. Qed.
Print Assumptions C20_first_acceptable_request_per_seat.

(* FULL, symbolic and unbounded, at the level of the thread network: for EVERY list of requests (any seats, teams, versions, order, length; no hypothesis) there is a schedule after which main has run the accept loop over exactly the requests it looks at and every connection is in the state its outcome prescribes *)
Theorem C20_admission_network_any :
  forall x : session,
  let reqs := s_arrivals x in
  let n := nconn x in
  reach (init_state x) (fun f =>
    shape n f /\
    pr f 0 = Some (wrap (s_interrupt x) n
                     (admission n (seq (looked_at reqs empty_table) (n - looked_at reqs empty_table))
                        (final_table reqs) (conn_map reqs) (after_admission n (s_boards x)))) /\
    forall j a, nth_error reqs j = Some a ->
      loc n f j = final_view n (length (s_boards x)) j a (script_of x j) (outcome_of reqs empty_table j)).
Proof. exact admission_phase_any. Qed.
Print Assumptions C20_admission_network_any.

(* when the requests fill the table: every request looked at and turned away got exactly its error line and was closed, its thread returned, its client failed; every seated one got exactly its seated line; the requests after the table was full were never looked at *)
Theorem C20_admission_network :
  forall x : session,
  let reqs := s_arrivals x in
  let n := nconn x in
  let nb := length (s_boards x) in
  wf_requests reqs ->
  all_seated (seat_requests reqs empty_table) = true ->
  reach (init_state x) (fun f =>
    pr f 0 = Some (wrap (s_interrupt x) n (after_admission n (s_boards x) (seat_requests reqs empty_table) (conn_map reqs))) /\
    (forall j a, nth_error reqs j = Some a ->
       (forall e, j < looked_at reqs empty_table ->
                  admission_error (table_before reqs j) (a_team a) (a_seat a) (a_version a) = Some e ->
                  loc n f j = turned_view a e) /\
       (j < looked_at reqs empty_table ->
        admission_error (table_before reqs j) (a_team a) (a_seat a) (a_version a) = None ->
        loc n f j = seated_view n nb j a (script_of x j)) /\
       (looked_at reqs empty_table <= j -> loc n f j = waiting_view n nb j a (script_of x j))) /\
    shape n f).
Proof. exact admission_phase. Qed.
Print Assumptions C20_admission_network.

(* and then all four are told both team names (the names of the table) and the first board is about to start - for any boards and scripts *)
Theorem C20_seating_network :
  forall x : session,
  let reqs := s_arrivals x in
  let n := nconn x in
  let nb := length (s_boards x) in
  let T := seat_requests reqs empty_table in
  wf_requests reqs ->
  all_seated T = true ->
  reach (init_state x) (fun f =>
    pr f 0 = Some (wrap_open (s_interrupt x) n (boards_loop n (conn_map reqs) (names_of T) (s_boards x) 1)) /\
    (forall j a, nth_error reqs j = Some a ->
       (forall e, j < looked_at reqs empty_table ->
                  admission_error (table_before reqs j) (a_team a) (a_seat a) (a_version a) = Some e ->
                  loc n f j = turned_view a e) /\
       (j < looked_at reqs empty_table ->
        admission_error (table_before reqs j) (a_team a) (a_seat a) (a_version a) = None ->
        loc n f j = started_view n nb j a (script_of x j) (names_of T North) (names_of T East)) /\
       (looked_at reqs empty_table <= j -> loc n f j = waiting_view n nb j a (script_of x j))) /\
    gshape n [MLog LOpen] 1 f).
Proof. exact seating_phase. Qed.
Print Assumptions C20_seating_network.

(* and the whole session that follows: with conforming seated clients a run exists to a final state where every turned-away connection holds exactly [its error line; CLOSED], every late one was never answered, and the seated four played every board *)
Theorem C20_whole_session_any_arrivals :
  forall x : session,
  let reqs := s_arrivals x in
  let n := nconn x in
  let nb := length (s_boards x) in
  let T := seat_requests reqs empty_table in
  s_boards x <> [] -> s_interrupt x = None -> wf_requests reqs -> all_seated T = true ->
  conforming (s_boards x) (seated_scripts x) = true ->
  exists l f, srun l (init_state x) = Some f /\ sfinal f /\
    (* main has returned *)
    pr f 0 = Some Ret /\
    (* the log *)
    (exists recs, log_events n f = LOpen :: map LRec recs ++ [LClose] /\
                  map Some recs = recs_from (names_of T) (seated_scripts x) 0 (s_boards x)) /\
    (* the four seated connections *)
    (forall p, pr f (S (conn_map reqs p)) = Some Ret /\ pr f (S (n + conn_map reqs p)) = Some Ret /\
               chan f (tr_down n (conn_map reqs p)) =
               down_view (s_boards x) (names_of T North) (names_of T East) (seated_scripts x) p) /\
    (* every request is seated (then it is the connection of its seat), turned away or too late *)
    (forall j a, nth_error reqs j = Some a ->
       (j < looked_at reqs empty_table ->
        admission_error (table_before reqs j) (a_team a) (a_seat a) (a_version a) = None -> j = conn_map reqs (a_seat a)) /\
       (forall e, j < looked_at reqs empty_table ->
                  admission_error (table_before reqs j) (a_team a) (a_seat a) (a_version a) = Some e ->
                  loc n f j = turned_view a e) /\
       (looked_at reqs empty_table <= j -> loc n f j = waiting_view n nb j a (script_of x j))).
Proof. exact conforming_session_any_arrivals. Qed.
Print Assumptions C20_whole_session_any_arrivals.

(* under EVERY schedule *)
Theorem C20_whole_session_every_schedule :
  forall x : session,
  let reqs := s_arrivals x in
  let T := seat_requests reqs empty_table in
  s_boards x <> [] -> s_interrupt x = None -> wf_requests reqs -> all_seated T = true ->
  conforming (s_boards x) (seated_scripts x) = true ->
  exists f N, sfinal f /\ arrivals_outcome x f /\
    forall l' s', srun l' (init_state x) = Some s' ->
      length l' <= N /\ (sfinal s' -> s' = f /\ length l' = N).
Proof. exact conforming_session_any_arrivals_every_schedule. Qed.
Print Assumptions C20_whole_session_every_schedule.

(* with the confluence theorem above all maximal runs end in one final state, a continuation of the state reached by that schedule (transcripts are append-only) *)
Theorem C20_independent_of_timing_partial :
  forall fuel x s sched,
  run_session fuel x = (s, sched, true) ->
  forall l' s', srun l' (init_state x) = Some s' ->
    (exists l'', srun l'' s' = Some s /\ length l' + length l'' = length sched) /\ (sfinal s' -> s' = s).
Proof. exact every_schedule_reaches_canonical. Qed.
Print Assumptions C20_independent_of_timing_partial.

(* non-vacuity: eight requests - wrong version, duplicate seat, partner mismatch, one too late *)
Theorem C20_example_premises :
  wf_requests reqs8 /\ all_seated (seat_requests reqs8 empty_table) = true /\ looked_at reqs8 empty_table = 7 /\
  map (outcome_of reqs8 empty_table) (seq 0 8) =
    [ Turned "ERROR: Protocol version is not 18 but 17."; Seated; Turned "ERROR: Player North is already seated.";
      Turned "ERROR: Team name ""Tigers"" is not same as partner's team name ""Lions""."; Seated; Seated; Seated; Waiting ] /\
  map (conn_map reqs8) all_seats = [1; 4; 5; 6] /\
  map (seat_requests reqs8 empty_table) all_seats = [Some "Lions"; Some "Bears"; Some "Lions"; Some "Bears"].
Proof. exact premises_satisfiable. Qed.
Print Assumptions C20_example_premises.

Theorem C20_example_admission_instance :
  forall boards scripts intr,
  let x := mkSession boards reqs8 scripts intr in
  reach (init_state x) (fun f =>
    pr f 0 = Some (wrap intr 8 (after_admission 8 boards (seat_requests reqs8 empty_table) (conn_map reqs8))) /\
    loc 8 f 0 = turned_view (mkArr North "Lions" 17) "ERROR: Protocol version is not 18 but 17." /\
    loc 8 f 1 = seated_view 8 (length boards) 1 (mkArr North "Lions" 18) (script_of x 1) /\
    loc 8 f 2 = turned_view (mkArr North "Tigers" 18) "ERROR: Player North is already seated." /\
    loc 8 f 3 = turned_view (mkArr South "Tigers" 18) "ERROR: Team name ""Tigers"" is not same as partner's team name ""Lions""." /\
    loc 8 f 6 = seated_view 8 (length boards) 6 (mkArr West "Bears" 18) (script_of x 6) /\
    loc 8 f 7 = waiting_view 8 (length boards) 7 (mkArr East "Owls" 18) (script_of x 7)).
Proof. exact admission_instance. Qed.
Print Assumptions C20_example_admission_instance.

(* non-vacuity: eight requests, four turned away *)
Theorem C20_example_model_is_the_real_run :
  tie_session ex_admission ex_admission_observed = 0.
Proof. exact ex_admission_model_is_the_real_run. Qed.
Print Assumptions C20_example_model_is_the_real_run.

Theorem C20_example_real_run_is_the_reference :
  spec_ok ex_admission_spec_input = 0.
Proof. exact ex_admission_real_run_is_the_reference. Qed.
Print Assumptions C20_example_real_run_is_the_reference.

