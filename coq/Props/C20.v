(* C20 - Admission seats one conforming client per seat and turns the others away.
   Only statements, each closed by [exact]; proofs are in the files imported below. *)
From BE Require Import Model.Session Model.SessionTie Spec.SessionSpec Proofs.Kahn Proofs.Session Proofs.SessionExamples.
From Coq Require Import ZArith.
Local Open Scope nat_scope.
Local Open Scope list_scope.

(* every channel of the session network has one reader and one writer, for every input and every message that might arrive *)
Theorem C20_ownership :
  forall x, wf_state msg (rd x) (wr x) cw (init_state x).
Proof. exact session_wf. Qed.
Print Assumptions C20_ownership.

(* confluence: a run that has not finished can always be extended to the final state of any terminating run, with the same total number of steps *)
Theorem C20_any_schedule_can_be_completed :
  forall x l f l' s',
  srun l (init_state x) = Some f -> sfinal f -> srun l' (init_state x) = Some s' ->
  exists l'', srun l'' s' = Some f /\ length l' + length l'' = length l.
Proof. exact session_any_run_extends. Qed.
Print Assumptions C20_any_schedule_can_be_completed.

(* every maximal run, under every scheduler, ends in the same state after the same number of steps *)
Theorem C20_all_maximal_runs_agree :
  forall x l f l' s',
  srun l (init_state x) = Some f -> sfinal f -> srun l' (init_state x) = Some s' -> sfinal s' ->
  s' = f /\ length l' = length l.
Proof. exact session_maximal_runs_agree. Qed.
Print Assumptions C20_all_maximal_runs_agree.

Theorem C20_no_run_is_longer :
  forall x l f l' s',
  srun l (init_state x) = Some f -> sfinal f -> srun l' (init_state x) = Some s' -> length l' <= length l.
Proof. exact session_no_run_is_longer. Qed.
Print Assumptions C20_no_run_is_longer.

Theorem C20_canonical_run_is_a_run :
  forall fuel x s sched,
  run_session fuel x = (s, sched, true) -> srun sched (init_state x) = Some s /\ sfinal s.
Proof. exact canonical_run_sound. Qed.
Print Assumptions C20_canonical_run_is_a_run.

(* a request is turned away exactly for a wrong protocol version, a seat already taken, or a team name different from the seated partner's *)
Theorem C20_rejected_iff :
  forall tbl team p ver,
  admission_error tbl team p ver <> None <->
  (ver <> 18 \/ tbl p <> None \/ (exists t', tbl (partner p) = Some t' /\ t' <> team)).
Proof. exact rejected_iff. Qed.
Print Assumptions C20_rejected_iff.

(* whatever arrives later, a seated client keeps its seat and team (a rejected request leaves the table unchanged) *)
Theorem C20_monotone :
  forall reqs tbl p t, tbl p = Some t -> seat_requests reqs tbl p = Some t.
Proof. exact seated_keeps_seats. Qed.
Print Assumptions C20_monotone.

Theorem C20_partners_share :
  forall reqs tbl,
  (forall p t t', tbl p = Some t -> tbl (partner p) = Some t' -> t = t') ->
  forall p t t', seat_requests reqs tbl p = Some t -> seat_requests reqs tbl (partner p) = Some t' -> t = t'.
Proof. exact partners_share. Qed.
Print Assumptions C20_partners_share.

(* if every seat is eventually offered an acceptable request, all four seats are taken *)
Theorem C20_completes :
  forall reqs, acceptable_eventually reqs -> all_seated (seat_requests reqs (fun _ => None)) = true.
Proof. exact all_seated_eventually. Qed.
Print Assumptions C20_completes.

Theorem C20_independent_of_timing_partial :
  forall fuel x s sched,
  run_session fuel x = (s, sched, true) ->
  forall l' s', srun l' (init_state x) = Some s' ->
    (exists l'', srun l'' s' = Some s /\ length l' + length l'' = length sched) /\ (sfinal s' -> s' = s).
Proof. exact every_schedule_reaches_canonical. Qed.
Print Assumptions C20_independent_of_timing_partial.

(* non-vacuity: eight requests, four turned away *)
Theorem C20_example_model_is_the_real_run :
  tie_session ex_admission ex_admission_observed = 0.
Proof. exact ex_admission_model_is_the_real_run. Qed.
Print Assumptions C20_example_model_is_the_real_run.

Theorem C20_example_real_run_is_the_reference :
  spec_ok ex_admission_spec_input = 0.
Proof. exact ex_admission_real_run_is_the_reference. Qed.
Print Assumptions C20_example_real_run_is_the_reference.

