(* C06 - The playable-card set is exactly the follow-suit rule.
   Only statements, each closed by [exact]; proofs are in the files imported below. *)
From BE Require Import Model.Play Spec.PlayLaws Gen.PlayFns Proofs.Play Proofs.PlayGen Proofs.PlayGenCor.
Local Open Scope nat_scope.

Theorem C06_available_spec :
  forall hand led c, In c (available hand led) <-> may_play hand led c.
Proof. exact available_spec. Qed.
Print Assumptions C06_available_spec.

Theorem C06_leading :
  forall hand, available hand None = hand.
Proof. exact available_leading. Qed.
Print Assumptions C06_leading.

Theorem C06_follow :
  forall hand f, (exists c, In c hand /\ csuit c = csuit f) ->
  forall c, In c (available hand (Some f)) <-> (In c hand /\ csuit c = csuit f).
Proof. exact available_follow. Qed.
Print Assumptions C06_follow.

Theorem C06_void :
  forall hand f, (forall c, In c hand -> csuit c <> csuit f) -> available hand (Some f) = hand.
Proof. exact available_void. Qed.
Print Assumptions C06_void.

Theorem C06_nonempty :
  forall hand led, hand <> [] -> available hand led <> [].
Proof. exact available_nonempty. Qed.
Print Assumptions C06_nonempty.

Theorem C06_subset :
  forall hand led c, In c (available hand led) -> In c hand.
Proof. exact available_subset. Qed.
Print Assumptions C06_subset.

Theorem C06_current :
  forall s hand, current_available s hand = available hand (hd_error (trick s)).
Proof. exact current_available_is_available. Qed.
Print Assumptions C06_current.

(* available_cards regenerated from playing_phase.py on every run *)
Theorem C06_generated_available_is_hand_model :
  forall hand first, g_available hand first = available hand first.
Proof. exact g_available_eq. Qed.
Print Assumptions C06_generated_available_is_hand_model.

Theorem C06_generated_current_available :
  forall s hand, g_current_available s hand = Some (current_available s hand).
Proof. exact g_current_available_eq. Qed.
Print Assumptions C06_generated_current_available.

Theorem C06_generated_hands_available :
  forall s p, g_hands_available s p = Some (current_available (hbase s) (hands s p)).
Proof. exact g_hands_available_eq. Qed.
Print Assumptions C06_generated_hands_available.

Theorem C06_generated_observer_available :
  forall s,
  g_obs_available_in_hand s = Some (current_available (obase s) (ohand s)).
Proof. exact g_obs_available_in_hand_eq. Qed.
Print Assumptions C06_generated_observer_available.

Theorem C06_generated_observer_dummy_available :
  forall s,
  g_obs_available_in_dummy s = option_map (current_available (obase s)) (odummy s).
Proof. exact g_obs_available_in_dummy_eq. Qed.
Print Assumptions C06_generated_observer_dummy_available.

(* the property, for the regenerated function *)
Theorem C06_available_spec_generated :
  forall hand led c, In c (g_available hand led) <-> may_play hand led c.
Proof. exact g_available_spec. Qed.
Print Assumptions C06_available_spec_generated.

(* random.choice(list(set)) as "some index" *)
Theorem C06_random_play_in_set :
  forall (l : list card) i d, l <> [] -> In (nth (i mod length l) l d) l.
Proof. exact choice_in_set. Qed.
Print Assumptions C06_random_play_in_set.

