(* C19 - Protocol messages mean the same to both ends and framing always terminates.
   Only statements, each closed by [exact]; proofs are in the files imported below. *)
From BE Require Import Model.Wire Proofs.Wire Gen.Regexes Proofs.Pins Gen.Skeleton Proofs.SkeletonPin Gen.WireFns Proofs.WireGen Gen.TextFns Proofs.TextGen.
Local Open Scope string_scope.
Local Open Scope nat_scope.

(* all 38 calls x 4 seats *)
Theorem C19_call :
  forall c p, parse_bid (bid_message c (formal_name p)) (formal_name p) = Some c.
Proof. exact call_roundtrip. Qed.
Print Assumptions C19_call.

(* in any letter case *)
Theorem C19_call_any_case :
  forall c p m, lower m = lower (bid_message c (formal_name p)) -> parse_bid m (formal_name p) = Some c.
Proof. exact call_any_case. Qed.
Print Assumptions C19_call_any_case.

(* with an alert suffix (whitespace+ Alert. whitespace*, any case): understood, and relayed without the suffix *)
Theorem C19_call_with_alert :
  forall c p m sfx, lower m = lower (bid_message c (formal_name p)) -> alert_suffix sfx ->
  server_read_bid (m ++ sfx)%string (formal_name p) = (m, Some c).
Proof. exact call_with_alert. Qed.
Print Assumptions C19_call_with_alert.

Theorem C19_call_relayed_verbatim :
  forall c p m, lower m = lower (bid_message c (formal_name p)) ->
  server_read_bid m (formal_name p) = (m, Some c).
Proof. exact call_without_alert_relayed_verbatim. Qed.
Print Assumptions C19_call_relayed_verbatim.

(* all 52 cards x 4 seats x both notations, any letter case *)
Theorem C19_card :
  forall c p sf m, lower m = lower (play_message p c sf) -> parse_card m p = Some c.
Proof. exact card_roundtrip. Qed.
Print Assumptions C19_card.

(* every hand (any list of cards, voids included), every seat and Dummy *)
Theorem C19_hand :
  forall who h, In who names5 ->
  exists cs, parse_cards_line (cards_line who h) who = Some cs /\ same_cards cs h.
Proof. exact hand_roundtrip. Qed.
Print Assumptions C19_hand.

(* every board number, dealer, vulnerability *)
Theorem C19_header :
  forall n d v, parse_board (board_header n d v) = Some (n, d, v).
Proof. exact header_roundtrip. Qed.
Print Assumptions C19_header.

Theorem C19_numbers :
  forall n, nat_of_digits (string_of_nat n) = n /\ sforall is_digit (string_of_nat n) = true /\ string_of_nat n <> ""%string.
Proof. exact string_of_nat_roundtrip. Qed.
Print Assumptions C19_numbers.

(* team names without a double quote *)
Theorem C19_teams :
  forall ns ew, no_quote ns -> no_quote ew -> parse_team_names (teams_line ns ew) = Some (ns, ew).
Proof. exact teams_roundtrip. Qed.
Print Assumptions C19_teams.

Theorem C19_connect :
  forall team p, no_quote team -> parse_connection_info (connect_line team p 18) = Some (team, p, 18).
Proof. exact connect_roundtrip. Qed.
Print Assumptions C19_connect.

Theorem C19_ready_messages :
  forall e, sforall (fun a => negb (is_ws a) || Ascii.eqb a " "%char) e = true ->
  (forall w, In w (split_char " "%char e) -> w <> ""%string) -> check_message e e = true.
Proof. exact check_message_exact. Qed.
Print Assumptions C19_ready_messages.

Theorem C19_framing_one :
  forall m rest, no_cr m -> receive_message (frame m ++ rest)%string = RMsg m rest.
Proof. exact recv_one. Qed.
Print Assumptions C19_framing_one.

(* any sequence of CR-free messages is received intact and in order *)
Theorem C19_framing :
  forall ms, Forall no_cr ms -> forall fuel, List.length ms < fuel ->
  recv_all fuel (sconcat (map frame ms)) = (ms, true).
Proof. exact recv_all_frames. Qed.
Print Assumptions C19_framing.

(* however the bytes are split in transit *)
Theorem C19_framing_chunked :
  forall ms chunks, Forall no_cr ms -> sconcat chunks = sconcat (map frame ms) ->
  recv_all (S (List.length ms)) (sconcat chunks) = (ms, true).
Proof. exact recv_all_chunked. Qed.
Print Assumptions C19_framing_chunked.

(* end of stream: an error, never a message, never a loop (the reader is structurally recursive on the stream) *)
Theorem C19_eof_between :
  receive_message ""%string = RError.
Proof. exact eof_between. Qed.
Print Assumptions C19_eof_between.

Theorem C19_eof_inside :
  forall m, no_cr m -> receive_message m = RError.
Proof. exact eof_inside. Qed.
Print Assumptions C19_eof_inside.

Theorem C19_eof_after_cr :
  forall m, no_cr m -> receive_message (m ++ String CR "")%string = RError.
Proof. exact eof_after_cr. Qed.
Print Assumptions C19_eof_after_cr.

Theorem C19_eof_anywhere :
  forall ms m cut, Forall no_cr ms -> no_cr m -> cut <= String.length (frame m) -> cut < String.length (frame m) ->
  exists fuel, fst (recv_all fuel (sconcat (map frame ms) ++ substring 0 cut (frame m))%string) = ms /\
               snd (recv_all fuel (sconcat (map frame ms) ++ substring 0 cut (frame m))%string) = (if cut =? 0 then true else false).
Proof. exact eof_anywhere. Qed.
Print Assumptions C19_eof_anywhere.

(* send_message REGENERATED from socket_interface.py on every run (harness/gen_wire.py) equals the hand model *)
Theorem C19_generated_send_is_hand_model :
  forall m, g_send_message m = frame m.
Proof. exact g_send_message_eq. Qed.
Print Assumptions C19_generated_send_is_hand_model.

(* receive_message regenerated (the byte loop on explicit fuel, proved sufficient) equals the hand model on EVERY byte stream - streams that end inside a message, after a CR, or with a CR not followed by LF included *)
Theorem C19_generated_receive_is_hand_model :
  forall s, g_receive_message s = receive_message s.
Proof. exact g_receive_message_eq. Qed.
Print Assumptions C19_generated_receive_is_hand_model.

(* what the regenerated sender frames the regenerated receiver returns, whatever follows *)
Theorem C19_generated_send_receive :
  forall m rest, no_cr m -> g_receive_message (g_send_message m ++ rest) = RMsg m rest.
Proof. exact g_send_receive. Qed.
Print Assumptions C19_generated_send_receive.

(* Server.hand_to_str REGENERATED from server.py on every run (harness/gen_text.py) equals the hand model, for every hand *)
Theorem C19_generated_hand_text_is_hand_model :
  forall h, g_hand_to_str h = hand_to_str h.
Proof. exact g_hand_to_str_eq. Qed.
Print Assumptions C19_generated_hand_text_is_hand_model.

(* the board line built in Server.deal, regenerated *)
Theorem C19_generated_board_header :
  forall n d v, g_board_header n d v = board_header n d v.
Proof. exact g_board_header_eq. Qed.
Print Assumptions C19_generated_board_header.

Theorem C19_generated_cards_line :
  forall (cards : seat -> list card) p, g_cards_line cards p = cards_line (formal_name p) (cards p).
Proof. exact g_cards_line_eq. Qed.
Print Assumptions C19_generated_cards_line.

(* Client.create_bid_message regenerated from client.py *)
Theorem C19_generated_bid_message :
  forall c name, g_bid_message c name = bid_message c name.
Proof. exact g_bid_message_eq. Qed.
Print Assumptions C19_generated_bid_message.

Theorem C19_generated_card_text :
  forall c, g_card_str c = card_rs c.
Proof. exact g_card_str_eq. Qed.
Print Assumptions C19_generated_card_text.

Theorem C19_generated_play_message :
  forall p c, g_play_message_own p c = play_message p c false.
Proof. exact g_play_message_own_eq. Qed.
Print Assumptions C19_generated_play_message.

Theorem C19_generated_dummy_play_message :
  forall p c, g_play_message_dummy p c = play_message p c false.
Proof. exact g_play_message_dummy_eq. Qed.
Print Assumptions C19_generated_dummy_play_message.

Theorem C19_generated_seated_line :
  forall p team, g_seated_line p team = seated_line p team.
Proof. exact g_seated_line_eq. Qed.
Print Assumptions C19_generated_seated_line.

Theorem C19_generated_teams_line :
  forall (names : seat -> option string) ns ew,
  names North = Some ns -> names East = Some ew -> g_teams_line names = teams_line ns ew.
Proof. exact g_teams_line_seated. Qed.
Print Assumptions C19_generated_teams_line.

Theorem C19_generated_connect_line :
  forall team p, g_connect_line team p = connect_line team p k_client_protocol_version.
Proof. exact g_connect_line_eq. Qed.
Print Assumptions C19_generated_connect_line.

Theorem C19_client_protocol_version :
  k_client_protocol_version = 18.
Proof. exact client_protocol_version_18. Qed.
Print Assumptions C19_client_protocol_version.

(* the structure of send_message / receive_message (socket calls, loop, returns), re-extracted from the source on this run, is the one Model/Wire.v mirrors *)
Theorem C19_framing_skeleton_is_the_modelled_one :
  framing_skeleton = pinned_framing_skeleton.
Proof. exact framing_skeleton_pinned. Qed.
Print Assumptions C19_framing_skeleton_is_the_modelled_one.

(* the patterns of the parsers, regenerated from the source on every run, are the ones the matchers of Model/Wire.v mirror *)
Theorem C19_regex_pins :
  (from_file "socket_interface.py" regexes ++ from_file "server.py" regexes ++ from_file "client.py" regexes)%list = pinned_wire.
Proof. exact pins_wire. Qed.
Print Assumptions C19_regex_pins.

(* non-vacuity *)
Theorem C19_example_alert :
  server_read_bid ("nOrTh BIDS 1nt " ++ tab ++ " aLeRt.  ") "North" = ("nOrTh BIDS 1nt", Some (Bid L1 NT)).
Proof. exact ex_alert_read. Qed.
Print Assumptions C19_example_alert.

Theorem C19_example_frames :
  recv_all 4 (sconcat (map frame ["abc"; ""; "d e"])) = (["abc"; ""; "d e"], true).
Proof. exact ex_frames. Qed.
Print Assumptions C19_example_frames.

