"""Shared machinery of the /verif checks: running the implementation, running
Coq, literals, evidence, verdicts.  See DESIGN.md section 2."""
import fcntl
import hashlib
import json
import os
import random
import re
import shutil
import subprocess
import sys
import time

VERIF = os.path.dirname(os.path.dirname(os.path.abspath(__file__)))
REPO = os.environ.get('VERIF_REPO', '/repo')
COQ = os.path.join(VERIF, 'coq')
WORK = os.path.join(VERIF, 'work')
PY = '/venv/bin/python'
GUARD = 'BRIDGE_ENV_VERIF'
# the generated files that belong to the development (harness/gen.py translators and harness/graphs.py graphs)
GEN_FILES = {'ScoreConsts.v', 'Enums.v', 'Regexes.v', 'Skeleton.v', 'Schemas.v', 'JsonFraming.v', 'ScoreFns.v', 'AuctionFns.v', 'PlayFns.v', 'PbnFns.v', 'JsonFns.v', 'WireFns.v', 'TextFns.v', 'HandsFns.v', 'ScoreGraph.v', 'NotationGraph.v'}


def impl_env():
    env = dict(os.environ)
    env['PYTHONPATH'] = REPO + os.pathsep + os.path.join(VERIF, 'harness')
    env['PYTHONHASHSEED'] = '0'
    env['PYTHONDONTWRITEBYTECODE'] = '1'
    env[GUARD] = '1'
    env['VERIF_REPO'] = REPO
    return env


def run_impl(driver, payload, timeout=900):
    """Run harness/drivers/<driver>.py in a fresh interpreter against /repo.
    JSON in on stdin, JSON out on the last line of stdout."""
    path = os.path.join(VERIF, 'harness', 'drivers', driver + '.py')
    p = subprocess.run([PY, path], input=json.dumps(payload), text=True,
                       capture_output=True, env=impl_env(), timeout=timeout,
                       cwd=WORK if os.path.isdir(WORK) else VERIF)
    if p.returncode != 0:
        raise ImplCrash(driver, p.returncode, p.stdout[-2000:], p.stderr[-4000:])
    lines = [l for l in p.stdout.splitlines() if l.startswith('{') or l.startswith('[')]
    if not lines:
        raise ImplCrash(driver, 0, p.stdout[-2000:], p.stderr[-4000:])
    return json.loads(lines[-1])


class ImplCrash(Exception):
    def __init__(self, driver, rc, out, err):
        super().__init__(f'driver {driver} rc={rc}\n{out}\n{err}')
        self.driver, self.rc, self.out, self.err = driver, rc, out, err


# ---------------------------------------------------------------- locking
class Lock:
    def __init__(self, shared=False):
        self.shared = shared

    def __enter__(self):
        self.f = open(os.path.join(VERIF, '.lock'), 'w')
        fcntl.flock(self.f, fcntl.LOCK_SH if self.shared else fcntl.LOCK_EX)
        return self

    def __exit__(self, *a):
        fcntl.flock(self.f, fcntl.LOCK_UN)
        self.f.close()


def write_if_changed(path, text):
    try:
        with open(path) as f:
            if f.read() == text:
                return False
    except FileNotFoundError:
        pass
    os.makedirs(os.path.dirname(path), exist_ok=True)
    tmp = path + '.tmp%d' % os.getpid()
    with open(tmp, 'w') as f:
        f.write(text)
    os.replace(tmp, path)
    return True


# ---------------------------------------------------------------- Coq literals
def cnat(n):
    assert isinstance(n, int) and 0 <= n < 100000, n
    return str(n)


def cZ(n):
    n = int(n)
    return f'({n})%Z' if n < 0 else f'{n}%Z'


def cbool(b):
    return 'true' if b else 'false'


def clist(items, per_line=0):
    items = list(items)
    return '[' + '; '.join(items) + ']'


def copt(x, f=lambda v: v):
    return 'None' if x is None else f'(Some {f(x)})'


def cpair(*xs):
    return '(' + ', '.join(xs) + ')'


def cstr(s):
    """A Coq string term for a Python str (UTF-8 bytes)."""
    b = s.encode('utf-8') if isinstance(s, str) else bytes(s)
    if all((32 <= x <= 126) for x in b):
        return '"' + b.decode('ascii').replace('"', '""') + '"%string'
    return '(bs [' + ';'.join(str(x) for x in b) + '])'


# ---------------------------------------------------------------- running Coq
COQ_FLAGS = ['-Q', COQ, 'BE', '-w', '-notation-overridden,-deprecated-hint-without-locality,-deprecated-instance-without-locality,-abstract-large-number']


def coqc(path, timeout=600):
    p = subprocess.run(['timeout', str(timeout), 'coqc'] + COQ_FLAGS + [path],
                       capture_output=True, text=True, cwd=COQ)
    return p.returncode, p.stdout, p.stderr


def parse_eval(out):
    """Split coqc output into the values printed by successive Eval commands."""
    vals = []
    cur = None
    for line in out.splitlines():
        if line.startswith('     = '):
            if cur is not None:
                vals.append(cur)
            cur = line[7:]
        elif cur is not None:
            if line.startswith('     : '):
                vals.append(cur)
                cur = None
            else:
                cur += ' ' + line.strip()
    if cur is not None:
        vals.append(cur)
    return [re.sub(r'\s+', ' ', v).strip() for v in vals]


def parse_nat_list(s):
    s = s.strip()
    if s == 'nil':
        return []
    m = re.fullmatch(r'\[(.*)\]', s)
    if not m:
        raise ValueError('not a list: ' + s[:200])
    body = m.group(1).strip()
    if not body:
        return []
    return [int(x.strip().replace('%nat', '')) for x in body.split(';')]


class CoqEvalError(Exception):
    pass


def coq_cases(prop, name, imports, body, evals, timeout=900):
    """Write coq/Cases/<prop>/<name>.v = imports + body + one Eval per entry of
    `evals` (Coq terms of type list nat); returns the parsed lists."""
    d = os.path.join(COQ, 'Cases', prop)
    os.makedirs(d, exist_ok=True)
    path = os.path.join(d, name + '.v')
    text = imports + '\nFrom Coq Require Import List String. Import ListNotations.\n' + body + '\n' + '\n'.join(
        f'Eval vm_compute in ({e}).' for e in evals) + '\n'
    with open(path, 'w') as f:
        f.write(text)
    with Lock(shared=True):
        rc, out, err = coqc(path, timeout)
    if rc != 0:
        raise CoqEvalError(f'{path}: rc={rc}\n{out[-1500:]}\n{err[-3000:]}')
    vals = parse_eval(out)
    if len(vals) != len(evals):
        raise CoqEvalError(f'{path}: expected {len(evals)} values, got {len(vals)}: {out[-2000:]}')
    return [parse_nat_list(v) for v in vals]


def clean_cases(prop):
    shutil.rmtree(os.path.join(COQ, 'Cases', prop), ignore_errors=True)


# ---------------------------------------------------------------- make
def make(targets, timeout=3000, jobs=16):
    """Build .vo targets (paths relative to coq/).  Returns (ok, log)."""
    with Lock():
        coq_makefile()
        p = subprocess.run(['timeout', str(timeout), 'make', '-C', COQ, f'-j{jobs}', '-k'] + targets,
                           capture_output=True, text=True)
    return p.returncode == 0, p.stdout + p.stderr


def coq_makefile():
    """_CoqProject lists the generated files and the .v files TRACKED by git (work-in-progress files lying around in the
    directories are not part of the development and must not be built by `make all`)."""
    files = []
    tracked = None
    try:
        p = subprocess.run(['git', '-C', VERIF, 'ls-files', 'coq'], capture_output=True, text=True)
        if p.returncode == 0 and p.stdout.strip():
            tracked = {l[len('coq/'):] for l in p.stdout.splitlines() if l.endswith('.v')}
    except OSError:
        pass
    for sub in ('Gen', 'Model', 'Spec', 'Proofs', 'Props', 'Legacy'):
        d = os.path.join(COQ, sub)
        if os.path.isdir(d):
            for f in sorted(os.listdir(d)):
                rel = os.path.join(sub, f)
                if f.endswith('.v') and ((sub == 'Gen' and f in GEN_FILES) or (sub != 'Gen' and (tracked is None or rel in tracked))):
                    files.append(rel)
    proj = open(os.path.join(COQ, '_CoqProject.in')).read() + '\n'.join(files) + '\n'
    changed = write_if_changed(os.path.join(COQ, '_CoqProject'), proj)
    if changed or not os.path.exists(os.path.join(COQ, 'Makefile')):
        subprocess.run(['coq_makefile', '-f', '_CoqProject', '-o', 'Makefile'], cwd=COQ, check=True,
                       capture_output=True)


def dep_cone(target_v):
    """Transitive .v dependencies (inside coq/) of a .v file, via coqdep."""
    seen, todo = [], [target_v]
    while todo:
        v = todo.pop()
        if v in seen:
            continue
        seen.append(v)
        p = subprocess.run(['coqdep', '-Q', '.', 'BE', v], cwd=COQ, capture_output=True, text=True)
        for line in p.stdout.splitlines():
            if ':' not in line:
                continue
            lhs, rhs = line.split(':', 1)
            if v[:-2] + '.vo' not in lhs.split():
                continue
            for w in rhs.split():
                if w.endswith('.vo') and not w.startswith('/'):
                    todo.append(w[:-3] + '.v')
    return sorted(seen)


THM_RE = re.compile(r'^\s*(?:Local\s+|Global\s+)?(Theorem|Lemma|Example|Corollary|Fact|Proposition)\s+([A-Za-z0-9_\']+)', re.M)


def count_obligations(files):
    names = []
    for f in files:
        try:
            txt = open(os.path.join(COQ, f)).read()
        except FileNotFoundError:
            continue
        names += [f'{f}:{m.group(2)}' for m in THM_RE.finditer(txt)]
    return names


def print_assumptions(make_log_or_file):
    """Extract `Print Assumptions` output from a compile log."""
    return make_log_or_file


# ---------------------------------------------------------------- misc
def case_hash(x):
    return hashlib.sha1(json.dumps(x, sort_keys=True, default=str).encode()).hexdigest()[:16]


def rng(seed, salt=''):
    return random.Random(f'{seed}:{salt}')
