"""Translator for the FUNCTIONS of bridge_env/score.py: Python `ast` -> Gallina (coq/Gen/ScoreFns.v).
Reads the source TEXT only (never imports or evaluates it) and fails closed: every statement or
expression form outside the subset below raises Untranslatable with file and line.

Subset.  Statements: local `x = e`, `x: T = e`, `x op= e`; `return e`; `raise` (-> None); `assert`, `pass`
(skipped); `if/elif/else` - a branch that always returns/raises gives `if c then <it> else <rest>`,
branches that only assign give `let '(v1, v2) := if c then .. else .. in`; and the one bounded-scan `while`
idiom of scan_loop.  Expressions: int/bool literals, locals, the module constants (k_*), `+ - *`, unary
`-`, `not`, `and`/`or`, one-operator comparisons, `abs`, `a if c else b`, `_T[e]` on a module tuple,
`bid.level/.suit`, `.is_minor()/.is_major()`, `contract.x/.xx/.final_bid/.is_passed_out()/.is_vul()`,
`bid in (Bid.Pass, ..)`, and calls (positional/keyword) of functions translated earlier in the file.
An expression that can raise carries option binds (E.binds); a function with any becomes `option Z`."""
import ast

import gen
from gen import Untranslatable

REL = 'bridge_env/score.py'
WANTED = ('calc_bid_score', 'calc_score', 'point_difference_to_imps', 'score_to_imp')
ANN = {'int': 'Z', 'bool': 'bool', 'Bid': 'bid', 'Contract': 'contract'}      # annotation -> type
IMPORTED = {'Bid': 'bid', 'Contract': 'contract'}                             # class -> module it must come from
NONBIDS = ('Pass', 'X', 'XX')                                                 # Bid members that are not level+suit bids
RESERVED = set('as at cofix else end exists exists2 fix for forall fun if IF in let match mod return Set Prop '
               'SProp Type then using where with Some None true false negb Z bool option level strain '
               'zlevel is_minor is_major tuple_get py_get contract_is_vul imps_scan is_passed_out cx cxx '
               'final_bid'.split())
PRELUDE = '''(* this file: harness/gen_score.py, one Definition per function of the source, in source order *)
From BE Require Import Model.Score Gen.ScoreConsts.
Local Open Scope Z_scope.
(* fixed prelude - Python tuple indexing: t[i] with i < 0 means t[len(t) + i]; None = IndexError *)
Definition py_get (t : list Z) (i : Z) : option Z :=
  if i <? 0 then tuple_get t (Z.of_nat (length t) + i) else tuple_get t i.
'''


class _Partial(Exception):
    """The function can raise: translate it again with result type `option Z`."""


class E:
    """Translated expression: pure Gallina `term` (a pair (level, strain) of terms for type 'bid'), its type,
    and pending option binds [(pattern, option term)] in evaluation order; a None among them = Python raises."""
    def __init__(self, term, ty, binds=()):
        self.term, self.ty, self.binds = term, ty, list(binds)


def top(t):
    """Drop one redundant outer pair of parentheses."""
    if t.startswith('(') and t.endswith(')'):
        depth = 0
        for i, ch in enumerate(t):
            depth += (ch == '(') - (ch == ')')
            if depth == 0 and i < len(t) - 1:
                return t
        return t[1:-1]
    return t


def wrap(binds, body):
    for pat, o in reversed(binds):
        body = f'match {o} with Some {pat} => {body} | None => None end'
    return body


def close(e):
    """The option-valued term of an expression together with its binds."""
    if e.binds and e.binds[-1][0] == e.term:
        return wrap(e.binds[:-1], e.binds[-1][1])
    return wrap(e.binds, f'Some {e.term}')


def terminates(ss):
    """Every path through the statement list ends in return/raise."""
    last = ss[-1] if ss else None
    return isinstance(last, (ast.Return, ast.Raise)) or \
        (isinstance(last, ast.If) and terminates(last.body) and terminates(last.orelse))


def has_exit(ss):
    return any(isinstance(s, (ast.Return, ast.Raise)) or (isinstance(s, ast.If) and has_exit(s.body + s.orelse))
               for s in ss)


def assigned(ss, acc):
    for s in ss:
        if isinstance(s, (ast.Assign, ast.AnnAssign, ast.AugAssign)):
            t = s.targets[0] if isinstance(s, ast.Assign) else s.target
            if isinstance(t, ast.Name) and t.id not in acc:
                acc.append(t.id)
        elif isinstance(s, ast.If):
            assigned(s.body + s.orelse, acc)
        elif isinstance(s, ast.While):
            assigned(s.body, acc)
    return acc


class Translator:
    def __init__(self, consts, imports):
        self.consts, self.imports, self.fns = consts, imports, {}     # fns: name -> ([(param, type)], partial)

    def bad(self, node, msg):
        raise Untranslatable(f'{REL}:{getattr(node, "lineno", "?")}: {msg} [{ast.unparse(node)[:60]!r}]')

    def fresh(self, base="r"):
        self.n += 1
        return f"{base}'{self.n}"

    def need_partial(self, node, fin):
        if fin is not None:
            self.bad(node, 'possibly-raising code inside a conditional assignment block is outside the subset')
        if not self.partial:
            raise _Partial()

    def cls(self, node, name):
        if self.imports.get(name) != IMPORTED[name]:
            self.bad(node, f'{name} is not imported from .{IMPORTED[name]}')

    # ---------------------------------------------------------------- functions
    def function(self, fd):
        a = fd.args
        if fd.decorator_list or a.posonlyargs or a.kwonlyargs or a.vararg or a.kwarg or a.defaults \
                or any(fd.name in d for d in (self.fns, self.consts, self.imports)):
            self.bad(fd, 'decorators, defaults, special parameters or a redefinition')
        if not (isinstance(fd.returns, ast.Name) and fd.returns.id == 'int'):
            self.bad(fd, 'return annotation is not int')
        params = []
        for p in a.args:
            if not (isinstance(p.annotation, ast.Name) and p.annotation.id in ANN):
                self.bad(p, 'parameter annotation outside int/bool/Bid/Contract')
            if p.annotation.id in IMPORTED:
                self.cls(p, p.annotation.id)
            params.append((self.local(p, p.arg), ANN[p.annotation.id]))
        body = fd.body[1:] if isinstance(fd.body[0], ast.Expr) and isinstance(fd.body[0].value, ast.Constant) \
            and isinstance(fd.body[0].value.value, str) else fd.body
        for self.partial in (False, True):
            self.n = 0
            try:
                term = self.seq(body, dict(params), {}, None, '  ', fd)
                break
            except _Partial:
                continue
        self.fns[fd.name] = (params, self.partial)
        bs = ' '.join(f"({p}'l : Basics.level) ({p}'s : Basics.strain)" if t == 'bid' else
                      f'({p} : {"Basics.contract" if t == "contract" else t})' for p, t in params)
        return f'Definition g_{fd.name} {bs} : {"option Z" if self.partial else "Z"} :=\n{term}.'

    def local(self, node, name):
        if name in RESERVED or name in self.consts or name in self.fns or name in IMPORTED or name[:2] in ('k_', 'g_'):
            self.bad(node, f'local name {name} clashes with a global or a Coq keyword')
        return name

    # ---------------------------------------------------------------- statements
    def seq(self, ss, env, known, fin, ind, at):
        """Gallina for: run ss, then fin(env).  fin None: ss must end in return/raise on every path.
        env: local -> type; known: local -> int literal it certainly holds."""
        if not ss:
            if fin is None:
                self.bad(at, 'control can reach the end of the function without return')
            return ind + fin(env)
        s, rest = ss[0], ss[1:]
        go = lambda env2, known2: self.seq(rest, env2, known2, fin, ind, s)
        drop = lambda vs: {k: v for k, v in known.items() if k not in vs}
        if isinstance(s, (ast.Assert, ast.Pass)):      # the asserts of score.py hold for a real bid; -O removes them
            return go(env, known)
        if isinstance(s, (ast.Return, ast.Raise)):
            if rest or fin is not None:
                self.bad(s, 'unreachable code after, or an exit inside a block that also falls through')
            if isinstance(s, ast.Raise):
                self.need_partial(s, fin)
                return ind + 'None'
            if s.value is None:
                self.bad(s, 'return without a value')
            e = self.expr(s.value, env, 'Z')
            if e.binds:
                self.need_partial(s, fin)
            return ind + (close(e) if self.partial else top(e.term))
        if isinstance(s, (ast.Assign, ast.AnnAssign, ast.AugAssign)):
            t = s.targets[0] if isinstance(s, ast.Assign) and len(s.targets) == 1 else getattr(s, 'target', None)
            if not isinstance(t, ast.Name) or s.value is None:
                self.bad(s, 'assignment target is not one local name')
            v, val = self.local(s, t.id), s.value
            if isinstance(s, ast.AugAssign):
                val = ast.copy_location(ast.BinOp(ast.Name(v, ast.Load(), lineno=s.lineno), s.op, s.value), s)
            e = self.expr(val, env)
            if e.ty not in ('Z', 'bool') or env.get(v, e.ty) != e.ty:
                self.bad(s, f'local {v} must keep one type, Z or bool')
            if isinstance(s, ast.AnnAssign) and not (isinstance(s.annotation, ast.Name) and ANN.get(s.annotation.id) == e.ty):
                self.bad(s, 'annotation does not match the value')
            k2 = drop([v])
            if isinstance(val, ast.Constant) and type(val.value) is int:
                k2[v] = val.value
            return self.bound(e, s, fin, ind, lambda i: f'{i}let {v} := {top(e.term)} in\n' + self.seq(rest, {**env, v: e.ty}, k2, fin, i, s))
        if isinstance(s, ast.While):
            v, term = self.scan_loop(s, env, known)
            return f'{ind}let {v} := {term} in\n' + go(env, drop([v]))
        if isinstance(s, ast.If):
            c = self.expr(s.test, env, 'bool')
            tb, te = terminates(s.body), terminates(s.orelse)
            if tb or te:
                if fin is not None or (tb and te and rest):
                    self.bad(s, 'unreachable code after, or an exit inside a block that also falls through')
                both = lambda i: f'{i}if {top(c.term)} then\n' + self.seq(s.body + ([] if tb else rest), env, known, None, i + '  ', s) + \
                    f'\n{i}else\n' + self.seq(s.orelse + ([] if te else rest), env, known, None, i + '  ', s)
                return self.bound(c, s, fin, ind, both)
            if has_exit(s.body + s.orelse):
                self.bad(s, 'a branch that returns/raises on some paths only is outside the subset')
            if fin is not None and not rest:          # tail of an assignment block: both branches end in its tuple
                return self.bound(c, s, fin, ind, lambda i: f'{i}if {top(c.term)} then\n' + self.seq(s.body, env, known, fin, i + '  ', s)
                                  + f'\n{i}else\n' + self.seq(s.orelse, env, known, fin, i + '  ', s))
            vs, tys = assigned([s], []), {}
            if not vs:
                return go(env, known)

            def tup(env2):
                for v in vs:
                    if v not in env2 or tys.setdefault(v, env2[v]) != env2[v]:
                        self.bad(s, f'{v} may be unbound or of two types after this if')
                return vs[0] if len(vs) == 1 else '(' + ', '.join(vs) + ')'
            a = self.seq(s.body, env, known, tup, ind + '    ', s)
            b = self.seq(s.orelse, env, known, tup, ind + '    ', s)
            pat = vs[0] if len(vs) == 1 else "'(" + ', '.join(vs) + ')'
            return self.bound(c, s, fin, ind, lambda i: f'{i}let {pat} :=\n{i}  if {top(c.term)} then\n{a}\n{i}  else\n{b} in\n'
                              + self.seq(rest, {**env, **tys}, drop(vs), fin, i, s))
        self.bad(s, f'statement {type(s).__name__} is outside the subset')

    def bound(self, e, node, fin, ind, k):
        """Statement-level bind of e's pending options around the text k(indent)."""
        if not e.binds:
            return k(ind)
        self.need_partial(node, fin)
        pat, o = e.binds[0]
        inner = self.bound(E(e.term, e.ty, e.binds[1:]), node, fin, ind + '  ', k)
        return f'{ind}match {o} with None => None | Some {pat} =>\n{inner}\n{ind}end'

    def scan_loop(self, s, env, known):
        """The idiom   while v < N: (if e < _T[v]: break); v += 1   entered with v == 0, N <= len(_T), e pure and
        independent of v   ==>   v := imps_scan e k_t N  (count of leading thresholds <= e among the first N)."""
        t, ok = s.test, False
        if not s.orelse and len(s.body) == 2 and isinstance(t, ast.Compare) and len(t.ops) == 1 and isinstance(t.ops[0], ast.Lt) \
                and isinstance(t.left, ast.Name) and isinstance(t.comparators[0], ast.Constant) and type(t.comparators[0].value) is int:
            v, n, (br, inc) = t.left.id, t.comparators[0].value, s.body
            c = br.test if isinstance(br, ast.If) else None
            sub = c.comparators[0] if isinstance(c, ast.Compare) and len(c.ops) == 1 and isinstance(c.ops[0], ast.Lt) else None
            ok = not getattr(br, 'orelse', 1) and len(br.body) == 1 and isinstance(br.body[0], ast.Break) \
                and isinstance(sub, ast.Subscript) and isinstance(sub.value, ast.Name) and isinstance(sub.slice, ast.Name) and sub.slice.id == v \
                and isinstance(inc, ast.AugAssign) and isinstance(inc.op, ast.Add) and isinstance(inc.target, ast.Name) and inc.target.id == v \
                and isinstance(inc.value, ast.Constant) and type(inc.value.value) is int and inc.value.value == 1
        if not ok:
            self.bad(s, 'while loop is not the bounded threshold-scan idiom')
        tname = sub.value.id
        size = self.consts.get(tname, ('?',))
        if env.get(v) != 'Z' or known.get(v) != 0 or tname in env or size[0] != 'tuple' or not 0 <= n <= size[1]:
            self.bad(s, f'scan idiom needs {v} == 0 on entry and a bound within the module tuple {tname}')
        e = self.expr(c.left, env, 'Z')
        if e.binds or any(isinstance(x, ast.Name) and x.id == v for x in ast.walk(c.left)):
            self.bad(s, 'scanned value must be pure and independent of the loop variable')
        return v, f'imps_scan {e.term} k{tname.lower()} {n}%nat'

    # ---------------------------------------------------------------- expressions
    def expr(self, n, env, want=None):
        e = self.expr1(n, env)
        if want is not None and e.ty != want:
            self.bad(n, f'expected a {want} expression, found {e.ty}')
        return e

    def expr1(self, n, env):
        if isinstance(n, ast.Constant) and type(n.value) is bool:
            return E('true' if n.value else 'false', 'bool')
        if isinstance(n, ast.Constant) and type(n.value) is int:
            return E(str(n.value), 'Z')
        if isinstance(n, ast.Name):
            if n.id in env:
                return E((n.id + "'l", n.id + "'s") if env[n.id] == 'bid' else n.id, env[n.id])
            if self.consts.get(n.id) == ('Z',):
                return E('k' + n.id.lower(), 'Z')
            self.bad(n, 'not a bound local or an integer module constant')
        if isinstance(n, ast.UnaryOp) and isinstance(n.op, (ast.USub, ast.Not)):
            neg = isinstance(n.op, ast.USub)
            a = self.expr(n.operand, env, 'Z' if neg else 'bool')
            return E(f'(- {a.term})' if neg else f'(negb {a.term})', a.ty, a.binds)
        if isinstance(n, ast.BinOp) and isinstance(n.op, (ast.Add, ast.Sub, ast.Mult)):
            a, b = self.expr(n.left, env, 'Z'), self.expr(n.right, env, 'Z')
            op = {ast.Add: '+', ast.Sub: '-', ast.Mult: '*'}[type(n.op)]
            return E(f'({a.term} {op} {b.term})', 'Z', a.binds + b.binds)
        if isinstance(n, ast.BoolOp):
            es = [self.expr(v, env, 'bool') for v in n.values]
            if any(e.binds for e in es[1:]):
                self.bad(n, 'possibly-raising operand after a short-circuit operator')
            return E('(' + (' || ' if isinstance(n.op, ast.Or) else ' && ').join(e.term for e in es) + ')', 'bool', es[0].binds)
        if isinstance(n, ast.Compare) and len(n.ops) == 1:
            return self.compare(n, n.ops[0], n.left, n.comparators[0], env)
        if isinstance(n, ast.IfExp):
            c, a = self.expr(n.test, env, 'bool'), self.expr(n.body, env)
            b = self.expr(n.orelse, env, a.ty)
            if a.ty not in ('Z', 'bool'):
                self.bad(n, 'conditional expression of a type other than Z/bool')
            if not (a.binds or b.binds):
                return E(f'(if {top(c.term)} then {top(a.term)} else {top(b.term)})', a.ty, c.binds)
            r = self.fresh()            # only the chosen branch may raise: the branches stay closed option terms
            return E(r, a.ty, c.binds + [(r, f'(if {top(c.term)} then {close(a)} else {close(b)})')])
        if isinstance(n, ast.Subscript) and isinstance(n.value, ast.Name) and n.value.id not in env \
                and self.consts.get(n.value.id, ('?',))[0] == 'tuple':
            i, r = self.expr(n.slice, env, 'Z'), self.fresh()
            return E(r, 'Z', i.binds + [(r, f'py_get k{n.value.id.lower()} {i.term}')])
        if isinstance(n, ast.Attribute):
            o = self.expr(n.value, env)
            if o.ty == 'bid' and n.attr in ('level', 'suit'):
                return E(f'(zlevel {o.term[0]})', 'Z', o.binds) if n.attr == 'level' else E(o.term[1], 'strain', o.binds)
            if o.ty == 'contract' and n.attr in ('x', 'xx'):
                return E(f'(c{n.attr} {o.term})', 'bool', o.binds)
            if o.ty == 'contract' and n.attr == 'final_bid':        # None (or a non-bid) where a real bid is needed: raises
                b = self.fresh('b')
                l, s = b + 'l', b + 's'
                return E((l, s), 'bid', o.binds + [(f'({l}, {s})', f'final_bid {o.term}')])
            self.bad(n, f'attribute {n.attr} of a {o.ty} is outside the subset')
        if isinstance(n, ast.Call):
            return self.call(n, env)
        self.bad(n, f'expression {type(n).__name__} is outside the subset')

    def compare(self, n, op, l, r, env):
        if isinstance(op, (ast.In, ast.NotIn)):
            a = self.expr(l, env, 'bid')
            if a.binds or not isinstance(r, (ast.Tuple, ast.List, ast.Set)):
                self.bad(n, 'membership test outside the subset')
            for x in r.elts:      # a parameter of type Bid is a level+suit bid by typing: it is none of the other members
                if not (isinstance(x, ast.Attribute) and isinstance(x.value, ast.Name) and x.value.id == 'Bid'
                        and 'Bid' not in env and x.attr in NONBIDS):
                    self.bad(x, 'membership in anything but Bid.Pass/Bid.X/Bid.XX')
                self.cls(x, 'Bid')
            return E('false' if isinstance(op, ast.In) else 'true', 'bool')
        a, b = self.expr(l, env, 'Z'), self.expr(r, env, 'Z')
        fmt = {ast.Lt: '({0} <? {1})', ast.LtE: '({0} <=? {1})', ast.Gt: '({1} <? {0})', ast.GtE: '({1} <=? {0})',
               ast.Eq: '({0} =? {1})', ast.NotEq: '(negb ({0} =? {1}))'}.get(type(op))
        if fmt is None:
            self.bad(n, f'comparison {type(op).__name__} is outside the subset')
        return E(fmt.format(a.term, b.term), 'bool', a.binds + b.binds)     # a > b is written b <? a

    def call(self, n, env):
        f = n.func
        if isinstance(f, ast.Attribute) and not n.args and not n.keywords:
            o = self.expr(f.value, env)
            if o.ty == 'strain' and f.attr in ('is_minor', 'is_major'):
                return E(f'({f.attr} {o.term})', 'bool', o.binds)
            if o.ty == 'contract' and f.attr == 'is_passed_out':
                return E(f'(is_passed_out {o.term})', 'bool', o.binds)
            if o.ty == 'contract' and f.attr == 'is_vul':             # raises when the declarer is needed and unknown
                r = self.fresh()
                return E(r, 'bool', o.binds + [(r, f'contract_is_vul {o.term}')])
        if isinstance(f, ast.Name) and f.id == 'abs' and len(n.args) == 1 and not n.keywords \
                and not any('abs' in d for d in (env, self.fns, self.consts, self.imports)):      # the builtin
            a = self.expr(n.args[0], env, 'Z')
            return E(f'(Z.abs {a.term})', 'Z', a.binds)
        if isinstance(f, ast.Name) and f.id in self.fns and f.id not in env:
            params, partial = self.fns[f.id]
            if len(n.args) > len(params) or any(k.arg is None for k in n.keywords):
                self.bad(n, 'argument list outside the subset')
            given, binds = {}, []
            for name, a in [(params[i][0], a) for i, a in enumerate(n.args)] + [(k.arg, k.value) for k in n.keywords]:
                if name in given or name not in dict(params):
                    self.bad(n, f'argument {name} repeated or unknown')
                given[name] = self.expr(a, env, dict(params)[name])
                binds += given[name].binds                            # evaluation order = source order
            if len(given) != len(params):
                self.bad(n, 'missing argument')
            terms = [x for p, t in params for x in (given[p].term if t == 'bid' else [given[p].term])]
            app = f'g_{f.id} ' + ' '.join(terms)
            if not partial:
                return E(f'({app})', 'Z', binds)
            r = self.fresh()
            return E(r, 'Z', binds + [(r, app)])
        self.bad(n, 'call outside the subset')


def gen_score_fns():
    tree = gen.parse(REL)
    consts, imports, fds = {}, {}, []
    for i, node in enumerate(tree.body):
        if isinstance(node, ast.ImportFrom) and not fds:
            for a in node.names:
                imports[a.asname or a.name] = node.module if a.name == (a.asname or a.name) and node.level == 1 else None
        elif isinstance(node, ast.Assign) and len(node.targets) == 1 and isinstance(node.targets[0], ast.Name) \
                and node.targets[0].id not in consts and node.targets[0].id not in imports and not fds:
            if isinstance(node.value, ast.Tuple):
                for x in node.value.elts:
                    gen.const_int(x, f'{REL}:{node.lineno}')
                consts[node.targets[0].id] = ('tuple', len(node.value.elts))
            else:
                gen.const_int(node.value, f'{REL}:{node.lineno}')
                consts[node.targets[0].id] = ('Z',)
        elif isinstance(node, ast.FunctionDef):
            fds.append(node)
        elif not (i == 0 and isinstance(node, ast.Expr) and isinstance(node.value, ast.Constant)):
            raise Untranslatable(f'{REL}:{node.lineno}: module-level statement outside the subset')
    members = [m for m, _ in gen.enum_members('bridge_env/bid.py', 'Bid')]
    if any(m not in members for m in NONBIDS):
        raise Untranslatable(f'bridge_env/bid.py: Bid lacks one of {NONBIDS}')
    tr = Translator(consts, imports)
    defs = [tr.function(fd) for fd in fds]
    for f in WANTED:
        if f not in tr.fns:
            raise Untranslatable(f'{REL}: function {f} not found')
    return 'ScoreFns.v', (gen.HEADER % REL) + PRELUDE + '\n'.join(defs) + '\n'
