"""Translator for the two framing methods of class MessageInterface of bridge_env/network_bridge/socket_interface.py:
Python `ast` -> Gallina (coq/Gen/WireFns.v).  Reads the source TEXT only (never imports or evaluates it) and fails
closed: anything outside the subset below raises Untranslatable with file and line.  Proofs/WireGen.v proves the generated
functions equal to the framing part of the hand-written model Model/Wire.v (frame, recv_from / receive_message).

What is translated.
  send_message(self, message: str) -> None   ->  g_send_message (v_message : string) : string
      the bytes handed to `self.connection_socket.sendall`, in order (several calls: their concatenation).
  receive_message(self) -> str               ->  g_receive_message_loop<N> (one Fixpoint per `while`),
                                                 g_receive_message_run (s'in : string) : option recv_result,
                                                 g_receive_message (s'in : string) : recv_result
      s'in is the byte stream not yet read.  RMsg m rest: the method returns m and leaves rest unread; RError: the
      method raises.  g_receive_message_run is None only when a loop runs out of fuel; g_receive_message answers RError
      in that case, and Proofs/WireGen.v proves that it never happens (the fuel is always enough).

Modelling assumptions (stated, not checked).
  - The socket is a byte stream, a Coq `string` (one ascii = one byte).  The stream given to g_receive_message is
    everything that will ever arrive: `self.connection_socket.recv(1)` takes one byte from its front (py_recv1) and
    returns b'' exactly when it is empty (the peer has closed).  The blocking case "no byte yet, but not closed" is
    outside this model, and so are socket errors (OSError, timeouts).
  - `self.connection_socket.sendall(x)` appends x to the output and returns; a failing sendall is outside the model.
  - A Python `str` is modelled by its UTF-8 bytes, so `.encode('utf-8')` and `.decode('utf-8')` are the identity.
    Input that is not valid UTF-8 (decode raises UnicodeDecodeError) and strings with lone surrogates (encode raises)
    are outside the model.  Consequences the translator enforces: equality of two str is equality of their bytes
    (allowed); `len` of a str is NOT the number of bytes (refused; `len` of bytes is allowed); a str and a bytes value
    are never mixed (comparison, concatenation, argument) - that is a refusal, not a silent False / TypeError.
  - The `logger.<level>(..)` calls have no effect on the result (logging swallows the errors of its handlers); their
    arguments may only mention literals and bound locals, so evaluating them cannot raise or touch the socket.

Subset.
Module: docstring, imports, `logger = getLogger(__file__)` (once; getLogger from logging), class definitions.  The names
  logger, socket, Exception (and the other names of BUILTINS) are bound nowhere else at module level.
Class MessageInterface: no bases, keywords or decorators; its members are its docstring and function definitions, each
  name once; no attribute hooks (__getattr__, __getattribute__, __setattr__, __slots__) and no member called
  connection_socket; `__init__` is the pinned text `self.connection_socket = connection_socket` with the parameter
  annotated socket.socket (and `import socket` at module level): self.connection_socket is the socket.  The other members
  (the parse_* static methods) are not called by the two methods and are not looked at.
The two methods: undecorated, parameters and result annotation exactly as above.
Statements, both methods: the docstring; `logger.<debug|info|warning|error|critical>(..)` expression statements
  (skipped); `x = e`, `x: T = e`, `x += e` on a local or parameter (a `let`; a name never changes its type); `pass`.
send_message only (straight-line): `self.connection_socket.sendall(<bytes>)` (`let o'N := .. in`: the chunk is named
  where it is sent).  No control flow, no raise, no return.
receive_message only:
  `x = self.connection_socket.recv(1)` - the whole right-hand side, the literal 1, no flags
      (`let '(v_x, s'in) := py_recv1 s'in in`); recv anywhere else, or with another size, is refused (recv(n) may return
      fewer than n bytes: not a function of the stream);
  `if <test>: .. [elif/else: ..]` (what follows the `if` is continued in every branch that falls through);
  `while <test>:` without else, whose body reads the socket: a Fixpoint on fuel
      `g_receive_message_loopN fuel s'in <carried locals> <other locals read>` : option (py_exit (stream * carried)),
      Broke = left by `break` (or by a false test), Raised = a `raise`, None = fuel 0; called with fuel
      `S (String.length s'in)`.  The translation is sound for any fuel (a `Some` is the outcome of the Python loop); that
      the fuel is enough for every stream is part of the equality proved in Proofs/WireGen.v.  Locals first bound in a
      loop body are local to one iteration (a later use is refused as unbound).  `break`, `continue` inside a loop;
  `raise <builtin exception class>(..)` whose arguments do not mention self (-> RError); `return <str>` outside loops
      (-> RMsg <str> s'in); a path that ends without return, and a statement after break/continue/raise/return in
      the same block, are refused.
  Any other statement (for, try, with, assert, del, global, attribute or subscript stores, calls, ..) is refused.
Expressions, typed str / bytes / nat / bool: str and bytes literals (the bytes of the literal; a str literal as its
  UTF-8 bytes); non-negative int literals; True / False; parameters and locals; f-strings whose interpolations are str
  expressions without conversion or format; `a + b` (two str, two bytes or two nat); `<str>.encode('utf-8')`,
  `<bytes>.decode('utf-8')` (also without argument: the default is utf-8; any other codec or an errors= argument is
  refused); `len(<bytes>)`.
Tests: bool expressions; `not`, `and`, `or`; one-operator comparisons == != of two str or two bytes (String.eqb),
  == != < <= > >= of two nat; a str or bytes value used as a test is `it is not empty`.
Every literal, comparison operator, operand order and the order of the statements come from the source AST."""
import ast
import os

import gen
from gen import Untranslatable

REL = 'bridge_env/network_bridge/socket_interface.py'
CLASS = 'MessageInterface'
SOCK = 'connection_socket'
SEND, RECV = 'send_message', 'receive_message'
INIT_PIN = ('self, connection_socket: socket.socket', 'self.connection_socket = connection_socket')
SIGNATURES = {SEND: ('self, message: str', 'None'), RECV: ('self', 'str')}
LOG_LEVELS = ('debug', 'info', 'warning', 'error', 'critical')
EXCEPTIONS = ('Exception', 'ConnectionError', 'ConnectionResetError', 'ConnectionAbortedError', 'BrokenPipeError',
              'EOFError', 'IOError', 'OSError', 'RuntimeError', 'ValueError')
BUILTINS = ('len', 'True', 'False', 'None', 'str', 'bytes') + EXCEPTIONS
HOOKS = ('__getattr__', '__getattribute__', '__setattr__', '__delattr__', '__slots__', '__init_subclass__', '__new__',
         '__class_getitem__', SOCK)
COQTY = {'str': 'string', 'bytes': 'string', 'nat': 'nat', 'bool': 'bool'}
ANN = {'str': 'str', 'bytes': 'bytes', 'int': 'nat', 'bool': 'bool'}
STREAM = "s'in"

PRELUDE = '''(* this file: harness/gen_wire.py.  The two framing methods of MessageInterface.
   g_send_message m: the bytes handed to self.connection_socket.sendall.  g_receive_message s: the outcome of
   receive_message when s is the byte stream still to come (RMsg message unread-rest | RError = it raises).
   v_<name>: the Python parameter or local <name>; s'in: the bytes not yet read; o'N: a chunk handed to sendall.
   A str is its UTF-8 bytes: .encode('utf-8') / .decode('utf-8') are the identity (see the header of gen_wire.py). *)
From Coq Require Import List Arith Bool String Ascii.
From BE Require Import Model.CaseLib Model.Wire.
Import ListNotations.
Local Open Scope string_scope.
Local Open Scope nat_scope.
Local Infix "+++" := String.append (right associativity, at level 60).
(* fixed prelude - how a loop is left: by break (with the unread stream and the loop-carried locals) or by a raise *)
Inductive py_exit (A : Type) : Type := Broke (st : A) | Raised.
Arguments Broke {A} st.
Arguments Raised {A}.
(* fixed prelude - socket.recv(1) on the bytes still to come: (what recv returns, what stays unread); b'' = closed *)
Definition py_recv1 (s : string) : string * string :=
  match s with EmptyString => (EmptyString, EmptyString) | String a r => (String a EmptyString, r) end.
(* fixed prelude - truth value of a str / bytes: not empty *)
Definition py_nonempty (s : string) : bool := match s with EmptyString => false | String _ _ => true end.
'''

_SRC = {}            # override for sensitivity studies: relative path -> file to read instead of the one under the repository


def parse(rel):
    if rel in _SRC:
        try:
            return ast.parse(open(_SRC[rel]).read())
        except (OSError, SyntaxError, ValueError) as e:
            raise Untranslatable(f'{rel}: {e}')
    return gen.parse(rel)


def is_doc(s):
    return isinstance(s, ast.Expr) and isinstance(s.value, ast.Constant) and isinstance(s.value.value, str)


def self_attr(n):
    """The name a of `self.a`, else None."""
    if isinstance(n, ast.Attribute) and isinstance(n.value, ast.Name) and n.value.id == 'self':
        return n.attr
    return None


def sock_call(n):
    """The method name m of a call `self.connection_socket.m(..)`, else None."""
    if isinstance(n, ast.Call) and isinstance(n.func, ast.Attribute) and self_attr(n.func.value) == SOCK:
        return n.func.attr
    return None


def assigned(ss, acc):
    """Names assigned anywhere in the statements ss (nested blocks included), in order of first occurrence."""
    for s in ss:
        if isinstance(s, (ast.Assign, ast.AnnAssign, ast.AugAssign)):
            for t in (s.targets if isinstance(s, ast.Assign) else [s.target]):
                if isinstance(t, ast.Name) and t.id not in acc:
                    acc.append(t.id)
        elif isinstance(s, (ast.If, ast.While)):
            assigned(s.body + s.orelse, acc)
    return acc


def tup(names):
    """The tuple of the stream and the locals `names` (a term, and also a pattern)."""
    return '(' + ', '.join([STREAM] + ['v_' + v for v in names]) + ')'


class E:
    """Translated expression: Gallina term, type (str / bytes / nat / bool)."""
    def __init__(self, term, ty):
        self.term, self.ty = term, ty


class K:
    """What surrounds a block of statements: `nxt(env, ind)` is the text for falling off its end; `brk` / `cont` for
    break / continue (None outside a loop); `raised` the term of a raise; `ret(e)` the term of `return e` (None where a
    return is refused)."""
    def __init__(self, nxt, brk, cont, raised, ret):
        self.nxt, self.brk, self.cont, self.raised, self.ret = nxt, brk, cont, raised, ret

    def then(self, nxt):
        return K(nxt, self.brk, self.cont, self.raised, self.ret)


class Translator:
    def __init__(self, tree):
        self.tree = tree
        self.n = self.loops = 0
        self.out = []
        self.structure()

    def bad(self, node, msg):
        raise Untranslatable(f'{REL}:{getattr(node, "lineno", "?")}: {msg} [{ast.unparse(node)[:70]!r}]')

    def fresh(self, base='o'):
        self.n += 1
        return f"{base}'{self.n}"

    # ---------------------------------------------------------------- the module and the class
    def structure(self):
        self.globals, classes, logger = set(), {}, 0

        def bind(node, name):
            if name in self.globals or name in BUILTINS or name == 'self':
                self.bad(node, f'{name} is bound twice at module level (or rebinds a builtin the subset uses)')
            self.globals.add(name)
        imports = {}
        for i, node in enumerate(self.tree.body):
            if isinstance(node, ast.Import):
                for a in node.names:
                    bind(node, (a.asname or a.name).split('.')[0])
                    imports[a.asname or a.name] = ('import', a.name)
            elif isinstance(node, ast.ImportFrom):
                for a in node.names:
                    if a.name == '*':
                        self.bad(node, 'star import')
                    bind(node, a.asname or a.name)
                    imports[a.asname or a.name] = (node.level, node.module, a.name)
            elif isinstance(node, ast.ClassDef):
                bind(node, node.name)
                classes[node.name] = node
            elif isinstance(node, ast.Assign) and ast.unparse(node) == 'logger = getLogger(__file__)':
                bind(node, 'logger')
                logger += 1
            elif not (i == 0 and is_doc(node)):
                self.bad(node, 'module-level statement outside the subset')
        if logger != 1 or imports.get('getLogger') != (0, 'logging', 'getLogger'):
            raise Untranslatable(f'{REL}: `logger = getLogger(__file__)` with getLogger from logging not found')
        if imports.get('socket') != ('import', 'socket'):
            raise Untranslatable(f'{REL}: `import socket` not found')
        if CLASS not in classes:
            raise Untranslatable(f'{REL}: class {CLASS} not found')
        c = classes[CLASS]
        if c.bases or c.keywords or c.decorator_list:
            self.bad(c, f'class {CLASS} has bases, keywords or decorators')
        for other in classes.values():            # class bodies run at import: nothing else may touch the class
            for n in ast.walk(other):
                if other is not c and isinstance(n, ast.Name) and n.id in (CLASS, 'logger') and not isinstance(n.ctx, ast.Load):
                    self.bad(n, f'{n.id} is rebound inside class {other.name}')
                if other is not c and isinstance(n, ast.Attribute) and isinstance(n.value, ast.Name) and n.value.id == CLASS \
                        and not isinstance(n.ctx, ast.Load):
                    self.bad(n, f'an attribute of {CLASS} is assigned inside class {other.name}')
        stores = [n for n in ast.walk(self.tree) if isinstance(n, ast.Attribute) and n.attr == SOCK and not isinstance(n.ctx, ast.Load)]
        if len(stores) != 1:
            self.bad(stores[1] if stores else c, f'the attribute {SOCK} is assigned outside {CLASS}.__init__ (or not at all)')
        self.members = {}
        for m in c.body:
            if is_doc(m):
                continue
            if not isinstance(m, ast.FunctionDef) or m.name in self.members or m.name in HOOKS:
                self.bad(m, 'class-level statement outside the subset (not a def, a member defined twice, or an attribute hook)')
            self.members[m.name] = m
        for name in ('__init__', SEND, RECV):
            if name not in self.members:
                raise Untranslatable(f'{REL}: {CLASS}.{name} not found')
        init = self.members['__init__']
        body = [s for s in init.body if not is_doc(s)]
        if init.decorator_list or ast.unparse(init.args) != INIT_PIN[0] or \
                [ast.dump(s) for s in body] != [ast.dump(s) for s in ast.parse(INIT_PIN[1]).body]:
            self.bad(init, f'{CLASS}.__init__ is not the pinned text')
        for name, (params, result) in SIGNATURES.items():
            fd = self.members[name]
            if fd.decorator_list or ast.unparse(fd.args) != params or fd.returns is None or ast.unparse(fd.returns) != result:
                self.bad(fd, f'{CLASS}.{name}: decorators, parameters or result annotation are not `({params}) -> {result}`')

    def local(self, node, name):
        if name in BUILTINS or name in self.globals or name == 'self':
            self.bad(node, f'local name {name} rebinds a global, a builtin or self')
        if not name.isidentifier() or not name.isascii():
            self.bad(node, f'local name {name} is outside the subset')
        return name

    def body_of(self, fd):
        body = fd.body[1:] if is_doc(fd.body[0]) else fd.body
        if not body:
            self.bad(fd, 'empty body')
        for n in ast.walk(fd):
            if isinstance(n, (ast.Global, ast.Nonlocal, ast.Lambda, ast.FunctionDef, ast.AsyncFunctionDef, ast.ClassDef,
                              ast.NamedExpr, ast.Yield, ast.YieldFrom, ast.Await, ast.ListComp, ast.SetComp, ast.DictComp,
                              ast.GeneratorExp)) and n is not fd:
                self.bad(n, f'{type(n).__name__} is outside the subset')
        return body

    # ---------------------------------------------------------------- the two methods
    def run(self):
        self.send()
        self.receive()
        return self.out

    def send(self):
        fd = self.members[SEND]
        self.cur, self.mode, self.n = SEND, 'send', 0
        env = {self.local(fd, 'message'): 'str'}
        outs = []

        def fin(env2, ind):
            return ind + ('""%string' if not outs else ' +++ '.join(outs))
        k = K(fin, None, None, None, None)
        self.outs = outs
        term = self.block(self.body_of(fd), env, k, '  ')
        self.out.append(f'(* {CLASS}.{SEND}: the bytes handed to sendall *)\n'
                        f'Definition g_send_message (v_message : string) : string :=\n{term}.')

    def receive(self):
        fd = self.members[RECV]
        self.cur, self.mode, self.n = RECV, 'recv', 0

        def fin(env2, ind):
            self.bad(fd, 'a path through the method ends without return (the result would be None, not a str)')
        k = K(fin, None, None, 'Some RError', lambda e: f'Some (RMsg {e.term} {STREAM})')
        term = self.block(self.body_of(fd), {}, k, '  ')
        self.out.append(f'(* {CLASS}.{RECV} on the bytes still to come; None = a loop ran out of fuel *)\n'
                        f'Definition g_receive_message_run ({STREAM} : string) : option recv_result :=\n{term}.')
        self.out.append(f'(* the None branch is dead: Proofs/WireGen.v proves g_receive_message_run s = Some _ for every s *)\n'
                        f'Definition g_receive_message ({STREAM} : string) : recv_result :=\n'
                        f'  match g_receive_message_run {STREAM} with Some r => r | None => RError end.')

    # ---------------------------------------------------------------- statements
    def block(self, ss, env, k, ind):
        """Gallina text for: run the statements ss, then k.nxt."""
        if not ss:
            return k.nxt(env, ind)
        s, rest = ss[0], ss[1:]
        after = k.then(lambda env2, ind2: self.block(rest, env2, k, ind2))
        if isinstance(s, (ast.Break, ast.Continue, ast.Raise, ast.Return)):
            if rest:
                self.bad(rest[0], 'unreachable statement')
            return self.exit_stmt(s, env, k, ind)
        if isinstance(s, ast.Pass):
            return self.block(rest, env, k, ind)
        if isinstance(s, ast.Expr) and isinstance(s.value, ast.Call):
            return self.call_stmt(s.value, rest, env, k, ind)
        if isinstance(s, (ast.Assign, ast.AnnAssign, ast.AugAssign)):
            return self.assign(s, rest, env, k, ind)
        if self.mode == 'recv' and isinstance(s, ast.If):
            c = self.test(s.test, env)
            return f'{ind}if {c} then\n' + self.block(s.body, dict(env), after, ind + '  ') + \
                f'\n{ind}else\n' + self.block(s.orelse, dict(env), after, ind + ('' if rest or not s.orelse else '  '))
        if self.mode == 'recv' and isinstance(s, ast.While):
            return self.while_stmt(s, env, after, ind)
        self.bad(s, f'statement {type(s).__name__} is outside the subset' + (' of send_message' if self.mode == 'send' else ''))

    def exit_stmt(self, s, env, k, ind):
        if isinstance(s, ast.Break):
            if k.brk is None:
                self.bad(s, 'break outside a loop')
            return ind + k.brk(env)
        if isinstance(s, ast.Continue):
            if k.cont is None:
                self.bad(s, 'continue outside a loop')
            return ind + k.cont(env)
        if isinstance(s, ast.Raise):
            if k.raised is None:
                self.bad(s, 'raise is outside the subset of send_message')
            x = s.exc
            if s.cause is not None or not (isinstance(x, ast.Call) and isinstance(x.func, ast.Name) and x.func.id in EXCEPTIONS
                                           and x.func.id not in env):
                self.bad(s, 'raise other than `raise <builtin exception class>(..)`')
            for n in ast.walk(x):
                if isinstance(n, ast.Name) and n.id == 'self':
                    self.bad(s, 'the arguments of the exception mention self')
            return ind + k.raised
        if k.ret is None:
            self.bad(s, 'return is outside the subset here (send_message, or inside a loop)')
        if s.value is None:
            self.bad(s, 'return without a value')
        return ind + k.ret(self.expr(s.value, env, 'str'))

    def call_stmt(self, n, rest, env, k, ind):
        f = n.func
        if isinstance(f, ast.Attribute) and isinstance(f.value, ast.Name) and f.value.id == 'logger' and \
                'logger' not in env and f.attr in LOG_LEVELS:
            if not n.args or n.keywords:
                self.bad(n, 'logger call without a message, or with keywords')
            for a in n.args:
                for x in ast.walk(a):
                    if isinstance(x, ast.Name):
                        if x.id not in env:
                            self.bad(n, f'the logger call reads {x.id}, which is not a bound local')
                    elif not (isinstance(x, (ast.Constant, ast.JoinedStr, ast.Load)) or
                              (isinstance(x, ast.FormattedValue) and x.conversion == -1 and x.format_spec is None)):
                        self.bad(n, 'the arguments of a logger call may only be literals, bound locals and plain f-strings')
            return self.block(rest, env, k, ind)                                  # skipped: no effect on the result
        if sock_call(n) == 'sendall' and self.mode == 'send':
            if len(n.args) != 1 or n.keywords or isinstance(n.args[0], ast.Starred):
                self.bad(n, 'sendall takes one argument')
            e = self.expr(n.args[0], env, 'bytes')
            o = self.fresh()                   # named here: a later assignment to a local must not change what was sent
            self.outs.append(o)
            return f'{ind}let {o} := {e.term} in\n' + self.block(rest, env, k, ind)
        self.bad(n, 'statement call outside the subset (not a logger call' +
                 (', not self.connection_socket.sendall)' if self.mode == 'send' else '; recv must be assigned to a local)'))

    def assign(self, s, rest, env, k, ind):
        t = s.targets[0] if isinstance(s, ast.Assign) and len(s.targets) == 1 else getattr(s, 'target', None)
        if not isinstance(t, ast.Name) or s.value is None:
            self.bad(s, 'assignment target is not one local name')
        v, val = self.local(s, t.id), s.value
        if sock_call(val) is not None:
            if self.mode != 'recv' or isinstance(s, ast.AugAssign) or sock_call(val) != 'recv':
                self.bad(s, 'socket call outside the subset (only `x = self.connection_socket.recv(1)` in receive_message)')
            if len(val.args) != 1 or val.keywords or not (isinstance(val.args[0], ast.Constant) and
                                                          type(val.args[0].value) is int and val.args[0].value == 1):
                self.bad(s, 'recv with a size other than the literal 1 (or with flags) is not a function of the stream')
            term, ty, pat = f'py_recv1 {STREAM}', 'bytes', f"'(v_{v}, {STREAM})"
        else:
            if isinstance(s, ast.AugAssign):
                if v not in env:
                    self.bad(s, f'{v} is not bound')
                val = ast.copy_location(ast.BinOp(ast.copy_location(ast.Name(v, ast.Load()), s), s.op, s.value), s)
            e = self.expr(val, env)
            term, ty, pat = e.term, e.ty, f'v_{v}'
        if env.get(v, ty) != ty:
            self.bad(s, f'local {v} must keep one type')
        if isinstance(s, ast.AnnAssign) and not (isinstance(s.annotation, ast.Name) and ANN.get(s.annotation.id) == ty):
            self.bad(s, 'annotation does not match the value')
        return f'{ind}let {pat} := {term} in\n' + self.block(rest, {**env, v: ty}, k, ind)

    def while_stmt(self, s, env, k, ind):
        if s.orelse:
            self.bad(s, 'while .. else is outside the subset')
        if not any(sock_call(n) == 'recv' for x in s.body for n in ast.walk(x)):
            self.bad(s, 'the loop body does not read the socket: no fuel known')
        carried = [v for v in assigned(s.body, []) if v in env]
        read = [n.id for x in [s.test] + s.body for n in ast.walk(x) if isinstance(n, ast.Name) and n.id in env]
        params = carried + [v for v in env if v in read and v not in carried]
        self.loops += 1
        name = f'g_receive_message_loop{self.loops}'
        tty = ' * '.join(['string'] + [COQTY[env[v]] for v in carried])

        def check(env2):
            for v in carried:
                if env2[v] != env[v]:
                    self.bad(s, f'{v} changes its type in the loop')

        def again(env2, ind2=''):
            check(env2)
            return ind2 + ' '.join([name, 'fuel', STREAM] + ['v_' + p for p in params])

        def leave(env2):
            check(env2)
            return f'Some (Broke {tup(carried)})'
        inner = K(again, leave, again, 'Some Raised', None)
        c = self.test(s.test, env)
        body = self.block(s.body, dict(env), inner, '      ')
        if c != 'true':
            body = f'    if {c} then\n{body}\n    else {leave(env)}'
        binder = ' '.join([f'({STREAM} : string)'] + [f'(v_{p} : {COQTY[env[p]]})' for p in params])
        self.out.append(f'(* {CLASS}.{self.cur}: the while loop of line {s.lineno}; None = fuel 0 = not finished;\n'
                        f'   Broke (unread stream{"".join(", " + v for v in carried)}) = left by break; Raised = an exception *)\n'
                        f'Fixpoint {name} (fuel : nat) {binder} {{struct fuel}} : option (py_exit ({tty})) :=\n'
                        f'  match fuel with\n  | O => None\n  | S fuel =>\n{body}\n  end.')
        call = ' '.join([name, f'(S (String.length {STREAM}))', STREAM] + ['v_' + p for p in params])
        return f'{ind}match {call} with\n{ind}| None => None\n{ind}| Some Raised => {k.raised}\n' \
               f'{ind}| Some (Broke {tup(carried)}) =>\n' + k.nxt(env, ind + '  ') + f'\n{ind}end'

    # ---------------------------------------------------------------- expressions
    def test(self, n, env):
        """A Python test: a bool expression, or the truth value of a str / bytes."""
        if isinstance(n, ast.UnaryOp) and isinstance(n.op, ast.Not):
            return f'(negb {self.test(n.operand, env)})'
        if isinstance(n, ast.BoolOp):
            return '(' + (' || ' if isinstance(n.op, ast.Or) else ' && ').join(self.test(v, env) for v in n.values) + ')'
        e = self.expr(n, env)
        if e.ty == 'bool':
            return e.term
        if e.ty in ('str', 'bytes'):
            return f'(py_nonempty {e.term})'
        self.bad(n, f'truth value of a {e.ty} is outside the subset')

    def expr(self, n, env, want=None):
        e = self.expr1(n, env)
        if want is not None and e.ty != want:
            self.bad(n, f'expected a {want} expression, found {e.ty}')
        return e

    def expr1(self, n, env):
        if isinstance(n, ast.Constant):
            if type(n.value) is bool:
                return E('true' if n.value else 'false', 'bool')
            if type(n.value) is int and 0 <= n.value < 100000:
                return E(str(n.value), 'nat')
            if type(n.value) is str:
                try:
                    return E(gen.coq_str(n.value), 'str')
                except UnicodeEncodeError:
                    self.bad(n, 'str literal that has no UTF-8 encoding')
            if type(n.value) is bytes:
                return E(gen.coq_str(n.value), 'bytes')
            self.bad(n, 'literal outside the subset')
        if isinstance(n, ast.JoinedStr):
            parts = []
            for v in n.values:
                if isinstance(v, ast.Constant) and type(v.value) is str:
                    parts.append(self.expr1(v, env).term)
                elif isinstance(v, ast.FormattedValue) and v.conversion == -1 and v.format_spec is None:
                    parts.append(self.expr(v.value, env, 'str').term)             # format(s, '') of a str is s
                else:
                    self.bad(n, 'f-string part with a conversion or a format is outside the subset')
            return E('(' + ' +++ '.join(parts) + ')' if len(parts) > 1 else parts[0] if parts else '""%string', 'str')
        if isinstance(n, ast.Name):
            if n.id in env:
                return E('v_' + n.id, env[n.id])
            self.bad(n, 'not a bound local or parameter')
        if isinstance(n, ast.UnaryOp) and isinstance(n.op, ast.Not) or isinstance(n, ast.BoolOp):
            return E(self.test(n, env), 'bool') if self.all_bool(n, env) else \
                self.bad(n, '`not` / `and` / `or` as a value needs bool operands')
        if isinstance(n, ast.BinOp) and isinstance(n.op, ast.Add):
            a = self.expr(n.left, env)
            b = self.expr(n.right, env, a.ty)
            if a.ty in ('str', 'bytes'):
                return E(f'({a.term} +++ {b.term})', a.ty)
            if a.ty == 'nat':
                return E(f'({a.term} + {b.term})', 'nat')
            self.bad(n, f'+ of {a.ty} is outside the subset')
        if isinstance(n, ast.Compare) and len(n.ops) == 1:
            a = self.expr(n.left, env)
            b = self.expr(n.comparators[0], env, a.ty)
            op = type(n.ops[0])
            if a.ty in ('str', 'bytes'):
                fmt = {ast.Eq: '(String.eqb {0} {1})', ast.NotEq: '(negb (String.eqb {0} {1}))'}.get(op)
            elif a.ty == 'nat':
                fmt = {ast.Lt: '({0} <? {1})', ast.LtE: '({0} <=? {1})', ast.Gt: '({1} <? {0})', ast.GtE: '({1} <=? {0})',
                       ast.Eq: '({0} =? {1})', ast.NotEq: '(negb ({0} =? {1}))'}.get(op)       # a > b is written b <? a
            else:
                fmt = None
            if fmt is None:
                self.bad(n, f'comparison {op.__name__} of {a.ty} is outside the subset')
            return E(fmt.format(a.term, b.term), 'bool')
        if isinstance(n, ast.Call):
            return self.call(n, env)
        self.bad(n, f'expression {type(n).__name__} is outside the subset')

    def all_bool(self, n, env):
        if isinstance(n, ast.UnaryOp) and isinstance(n.op, ast.Not):
            return True                                   # `not x` is a bool whatever x is
        return all(self.expr(v, env).ty == 'bool' for v in n.values)

    def call(self, n, env):
        f = n.func
        if sock_call(n) is not None:
            self.bad(n, 'socket call inside an expression (only `x = self.connection_socket.recv(1)` as a statement)')
        if any(isinstance(a, ast.Starred) for a in n.args) or n.keywords:
            self.bad(n, 'argument list outside the subset')
        if isinstance(f, ast.Name) and f.id == 'len' and 'len' not in env and len(n.args) == 1:
            a = self.expr(n.args[0], env)
            if a.ty != 'bytes':
                self.bad(n, f'len of a {a.ty} is outside the subset (the length of a str is not its number of bytes)')
            return E(f'(String.length {a.term})', 'nat')
        if isinstance(f, ast.Attribute) and f.attr in ('encode', 'decode'):
            o = self.expr(f.value, env, 'str' if f.attr == 'encode' else 'bytes')
            if len(n.args) > 1 or (n.args and not (isinstance(n.args[0], ast.Constant) and n.args[0].value == 'utf-8')):
                self.bad(n, f'{f.attr} with a codec other than the literal \'utf-8\' (or with an errors argument)')
            return E(o.term, 'bytes' if f.attr == 'encode' else 'str')           # a str is its UTF-8 bytes
        self.bad(n, 'call outside the subset')


def gen_wire_fns(path=None):
    """Translate socket_interface.py of the repository (or the file `path`, for sensitivity studies).  Returns
    (file name under coq/Gen, text), like the other translators; `write()` stores it."""
    _SRC.clear()
    if path is not None:
        _SRC[REL] = path
    try:
        defs = Translator(parse(REL)).run()
    finally:
        _SRC.clear()
    head = f'(* GENERATED by harness/gen_wire.py from {REL} -- do not edit *)\n'
    return 'WireFns.v', head + PRELUDE + '\n'.join(defs) + '\n'


def write(path=None, out=None):
    import lib
    name, text = gen_wire_fns(path)
    out = out or os.path.join(gen.GEN, name)
    return out, lib.write_if_changed(out, text)


if __name__ == '__main__':
    o, changed = write()
    print(f'{o}: ' + ('rewritten' if changed else 'unchanged'))
