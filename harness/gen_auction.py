"""Translator for the auction state machine, class BiddingPhase of bridge_env/bidding_phase.py:
Python `ast` -> Gallina (coq/Gen/AuctionFns.v).  Reads the source TEXT only (never imports or evaluates it)
and fails closed: anything outside the subset below raises Untranslatable with file and line.

Object state.  Each private attribute `self.__x` is one field of the record `astate` of Model/Auction.v, through
the table FIELDS and nothing else; an attribute outside the table is refused.  A method is a function of the
state `s`; every store to an attribute (or into the container it holds) is a record rebuild
`mkA <the ten other fields of the state before> <new value>`, threaded in source order, and every read is the
projection of the state current at that point - so moving a test after a store changes the term.  The translator keeps
the current state field by field (Env.st), i.e. it resolves `field (mkA t1 .. t11)` to `t_i` as it goes, and writes the
record out where a state is needed as a value: at a return, a raise, and at the call of a join point.  (Emitting each
rebuild as `let s' := mkA (dealer s) .. in` is equivalent but makes Coq's conversion test exponential on the chains
`dealer s'9 = dealer s'9`.)  `__init__` has no incoming state: its stores fill the eleven fields of one `mkA`.

Subset.  Statements: stores `self.__x = e` (also annotated; tuple form `a, b = e1, e2`, right-hand sides first),
`self.__declarer_check[e1][e2] = e`, `self.__available_bid[e] = 0|1`, `[:e] = 0`, `[-k:] = 0`; `X.append(e)` on the
history and on one player's history; `local = Contract(..)`; `return`; `raise` (take_bid: `(state, Raises)`; contract:
`None`); `assert`/`pass`/docstrings skipped; `if/elif/else`, with early exits on some paths: a branch that always
exits has the following statements appended to the other; otherwise the following statements become one local
function `j'N` (a join point) called at the end of every path that falls through.
Tests: `e is None`/`is not None` on an Optional value is a `match` whose Some-branch binds the content (that is how
`self.__active_player.pair` is typed after `if self.has_done(): raise`; a use with no such test in force becomes
`match .. with None => <raise> | Some v => ..` around the statement); a chain `bid is Bid.Pass/X/XX ... else` is one
`match` on the call, whose last branch is `Bid l st` when the three non-bids are all excluded; `not`, `and`, `or`;
comparisons of naturals; `self.has_done()` is inlined from its own source.
Expressions: enum members, `.next_player .pair .is_partner(..) .suit .idx`, `len(h)`, `h[-k]` (only under a test
`len(h) >= n`, n >= k, still in force), `v[i]` compared with 0/1, the nested dict, dict/list displays of __init__,
`np.ones(n)`/`np.zeros(n)`, `Contract(..)` with positional/keyword arguments and the dataclass defaults.
The library properties relied on (Bid.idx/.suit, Player.next_player/.left/.pair/.is_partner, the Contract dataclass,
the enum member lists) are pinned: their source must be exactly the text modelled in Model/Basics.v."""
import ast
import re

import gen
from gen import Untranslatable

REL = 'bridge_env/bidding_phase.py'
CLASS = 'BiddingPhase'
# attribute -> (record field, type, annotation it must carry in __init__); the order is that of mkA's arguments
FIELDS = [('__dealer', 'dealer', 'seat', 'Player'),
          ('__vul', 'avul', 'vul', 'Vul'),
          ('__active_player', 'active', 'oseat', 'Optional[Player]'),
          ('__last_bidder', 'last_bidder', 'oseat', 'Optional[Player]'),
          ('__last_bid', 'last_bid', 'obid', 'Optional[Bid]'),
          ('__called_x', 'called_x', 'bool', 'bool'),
          ('__called_xx', 'called_xx', 'bool', 'bool'),
          ('__bid_history', 'rhist', 'calls', 'List[Bid]'),
          ('__players_bid_history', 'rphist', 'phist', 'Dict[Player, List[Bid]]'),
          ('__declarer_check', 'decl_tab', 'tab', 'Dict[Pair, Dict[Suit, Optional[Player]]]'),
          ('__available_bid', 'avail', 'vec', 'np.ndarray')]
TABLE = {a: (f, t, ann) for a, f, t, ann in FIELDS}
METHODS = ('__init__', 'has_done', 'take_bid', 'contract')
IMPORTS = {'Bid': ('bid',), 'Contract': ('contract',), 'Player': ('player',), 'Pair': ('pair',), 'Vul': ('vul',),
           'Suit': ('card', 'suit')}
# enum class -> (file, Coq type, member -> constructor); the member list (names and values, in order) is pinned
BIDS = [(s + str(l), (l - 1) * 5 + i + 1) for l in range(1, 8) for i, s in enumerate(('C', 'D', 'H', 'S', 'NT'))]
ENUMS = {'Player': ('bridge_env/player.py', 'seat', [('N', 1), ('E', 2), ('S', 3), ('W', 4)],
                    {'N': 'North', 'E': 'East', 'S': 'South', 'W': 'West'}),
         'Pair': ('bridge_env/pair.py', 'side', [('NS', 1), ('EW', 2)], {'NS': 'NS', 'EW': 'EW'}),
         'Vul': ('bridge_env/vul.py', 'vul', [('NONE', 1), ('NS', 2), ('EW', 3), ('BOTH', 4)],
                 {'NONE': 'VNone', 'NS': 'VNS', 'EW': 'VEW', 'BOTH': 'VBoth'}),
         'Suit': ('bridge_env/suit.py', 'strain', [('C', 1), ('D', 2), ('H', 3), ('S', 4), ('NT', 5)],
                  {'C': '(Tr Cl)', 'D': '(Tr Di)', 'H': '(Tr He)', 'S': '(Tr Sp)', 'NT': 'NT'}),
         'Bid': ('bridge_env/bid.py', 'call', BIDS + [('Pass', 36), ('X', 37), ('XX', 38)],
                 {'Pass': 'Pass', 'X': 'Dbl', 'XX': 'Rdbl'}),
         'BiddingPhaseState': (REL, 'outcome', [('ILLEGAL', -1), ('ONGOING', 1), ('FINISHED', 2)],
                               {'ILLEGAL': 'Illegal', 'ONGOING': 'Ongoing', 'FINISHED': 'Finished'})}
NONBIDS = ('Pass', 'X', 'XX')
# library members relied on: (file, class, name) -> (parameters, body); Model/Basics.v models exactly this text
PINS = {('bridge_env/bid.py', 'Bid', 'idx'): ('self', 'return self.value - 1'),
        ('bridge_env/bid.py', 'Bid', 'suit'): ('self', 'if self.value >= 36:\n    return None\nreturn Suit(self.idx % 5 + 1)'),
        ('bridge_env/player.py', 'Player', 'next_player'): ('self', 'return self.left'),
        ('bridge_env/player.py', 'Player', 'left'): ('self', 'return Player(self.value % 4 + 1)'),
        ('bridge_env/player.py', 'Player', 'pair'): ('self', 'return Pair((self.value + 1) % 2 + 1)'),
        ('bridge_env/player.py', 'Player', 'is_partner'): ('self, player', 'return player.value % 2 == self.value % 2'),
        ('bridge_env/contract.py', 'Contract', '__post_init__'):
            ('self', "if self.final_bid == Bid.X or self.final_bid == Bid.XX:\n    raise ValueError('last_bid is a bid or Pass')")}
CONTRACT = [('final_bid', 'Optional[Bid]', None, 'obid'), ('x', 'bool', 'False', 'bool'), ('xx', 'bool', 'False', 'bool'),
            ('vul', 'Vul', 'Vul.NONE', 'vul'), ('declarer', 'Optional[Player]', 'None', 'oseat')]
NONE = object()          # knowledge "this Optional attribute is None"
PRELUDE = '''(* this file: harness/gen_auction.py, one Definition per translated method of the class, in source order.
   s: the object state on entry; j'N: the statements after an if (a join point), as a function of the state s'N there *)
From BE Require Import Model.Auction.
Local Open Scope nat_scope.
(* fixed prelude - numpy: v[-k:] = 0 for a literal k > 0 clears the last min(k, len v) slots *)
Definition py_zero_suffix (k : nat) (v : list bool) : list bool :=
  (firstn (length v - k) v ++ repeat false (length v - (length v - k)))%list.
'''


class V:
    """Translated expression: Gallina term and type.  known: content of an Optional known to be Some (or NONE);
    field: the record field it was read from; real: (l, st) for a call known to be a level+strain bid;
    const: the literal (enum member name or natural) it denotes."""
    def __init__(self, term, ty, known=None, field=None, real=None, const=None):
        self.term, self.ty, self.known, self.field, self.real, self.const = term, ty, known, field, real, const


class C:
    """Translated test.  kind 'bool': term.  kind 'opt': `scrut is None` (then = None-branch unless flipped), binding the
    content in the other branch (pat) and, for a bare attribute, recording it (field).  kind 'call': `var is Bid.member`."""
    def __init__(self, kind, term=None, scrut=None, field=None, oty=None, var=None, member=None, flip=False):
        self.kind, self.term, self.scrut, self.field, self.oty, self.var, self.member, self.flip = \
            kind, term, scrut, field, oty, var, member, flip


class Env:
    def __init__(self, base, st, know, locs, lens, scope, isinit=False):
        self.base = base            # Coq variable that is the current state while no store has happened (None in __init__)
        self.st = st                # the current state, field by field: field -> term (in __init__: the fields stored so far)
        self.know = know            # Optional field -> content term | NONE, while no store to it intervenes
        self.locs = locs            # Python local -> V
        self.lens = lens            # list field -> lower bound on its length established by a test in force
        self.scope = scope          # Coq identifiers bound here
        self.isinit = isinit

    @staticmethod
    def at(var, locs, scope):
        """The state is the Coq variable var."""
        return Env(var, {f: f'({f} {var})' for _, f, _, _ in FIELDS}, {}, locs, {}, scope | {var})

    def fork(self):
        return Env(self.base, dict(self.st), dict(self.know), dict(self.locs), dict(self.lens), set(self.scope), self.isinit)

    def state(self):
        """The current state as a term: the variable it still is, or the record of its fields."""
        if self.base is not None:
            return self.base
        return '(mkA ' + ' '.join(self.st[f] for _, f, _, _ in FIELDS) + ')'


def ind(text, n=2):
    return '\n'.join(' ' * n + l for l in text.split('\n'))


def terminates(ss):
    """Every path through the statement list ends in return/raise."""
    last = ss[-1] if ss else None
    return isinstance(last, (ast.Return, ast.Raise)) or \
        (isinstance(last, ast.If) and terminates(last.body) and terminates(last.orelse))


def is_doc(s):
    return isinstance(s, ast.Expr) and isinstance(s.value, ast.Constant) and isinstance(s.value.value, str)


def self_attr(n):
    """The attribute name of `self.<name>`, else None."""
    if isinstance(n, ast.Attribute) and isinstance(n.value, ast.Name) and n.value.id == 'self':
        return n.attr
    return None


class Translator:
    def __init__(self, imports, numpy_as):
        self.imports, self.numpy_as = imports, numpy_as
        self.inline = {}              # method -> the expression it returns (has_done)
        self.pinned = set()
        self.contract_fields = None

    def bad(self, node, msg):
        raise Untranslatable(f'{REL}:{getattr(node, "lineno", "?")}: {msg} [{ast.unparse(node)[:70]!r}]')

    def fresh(self, base, env=None):
        self.n += 1
        name = f"{base}'{self.n}"
        if env is not None:
            env.scope.add(name)
        return name

    # ---------------------------------------------------------------- pins on the library
    def pin(self, key, node):
        if key in self.pinned:
            return
        rel, cls, name = key
        params, body = PINS[key]
        for c in gen.parse(rel).body:
            if isinstance(c, ast.ClassDef) and c.name == cls:
                found = [m for m in c.body if isinstance(m, ast.FunctionDef) and m.name == name]
                if len(found) != 1:
                    break
                m = found[0]
                got = [s for s in m.body if not is_doc(s)]
                decos = [ast.unparse(d) for d in m.decorator_list]
                want_deco = [] if name in ('is_partner', '__post_init__') else ['property']
                if ast.unparse(m.args) == params and decos == want_deco and \
                        gen.alpha_dump(got) == gen.alpha_dump(ast.parse(body).body):
                    self.pinned.add(key)
                    return
                break
        self.bad(node, f'{rel}: {cls}.{name} is not the text modelled in Model/Basics.v')

    def enum(self, cls, node):
        """The class name `cls` denotes the pinned enum of that name."""
        if cls not in ENUMS:
            self.bad(node, f'{cls} is not a known enum')
        rel, ty, members, ctor = ENUMS[cls]
        if cls != 'BiddingPhaseState' and self.imports.get(cls) not in IMPORTS[cls]:
            self.bad(node, f'{cls} is not imported from its module')
        if ('enum', cls) not in self.pinned:
            if self.imports.get(cls) == 'card':              # card.py must pass on suit.Suit
                ok = any(isinstance(x, ast.ImportFrom) and x.module == 'suit' and x.level == 1 and
                         any(a.name == 'Suit' and a.asname is None for a in x.names) for x in gen.parse('bridge_env/card.py').body)
                if not ok:
                    self.bad(node, 'bridge_env/card.py does not import Suit from .suit')
            if any(isinstance(c, ast.ClassDef) and c.name == cls and
                   any(isinstance(m, ast.FunctionDef) and m.name in ('__eq__', '__ne__', '__hash__') for m in c.body)
                   for c in gen.parse(rel).body):
                self.bad(node, f'{rel}: {cls} defines its own equality (`is` and `==` are identified)')
            if gen.enum_members(rel, cls) != members:
                self.bad(node, f'{rel}: the members of {cls} are not those modelled in Model/Basics.v')
            self.pinned.add(('enum', cls))
        return ty, ctor

    def contract_cls(self, node):
        if self.imports.get('Contract') not in IMPORTS['Contract']:
            self.bad(node, 'Contract is not imported from .contract')
        if self.contract_fields is None:
            for c in gen.parse('bridge_env/contract.py').body:
                if isinstance(c, ast.ClassDef) and c.name == 'Contract':
                    got = [(s.target.id, ast.unparse(s.annotation), None if s.value is None else ast.unparse(s.value))
                           for s in c.body if isinstance(s, ast.AnnAssign) and isinstance(s.target, ast.Name)]
                    if got != [f[:3] for f in CONTRACT] or [ast.unparse(d) for d in c.decorator_list] != ['dataclass(frozen=True)'] \
                            or any(isinstance(s, ast.FunctionDef) and s.name in ('__init__', '__new__') for s in c.body):
                        self.bad(node, 'bridge_env/contract.py: the dataclass Contract is not the one modelled (Basics.contract)')
                    self.pin(('bridge_env/contract.py', 'Contract', '__post_init__'), node)
                    self.contract_fields = CONTRACT
                    return
            self.bad(node, 'bridge_env/contract.py: class Contract not found')

    # ---------------------------------------------------------------- methods
    def method(self, fd):
        self.n, self.name = 0, fd.name
        a = fd.args
        if fd.decorator_list or a.posonlyargs or a.kwonlyargs or a.vararg or a.kwarg or not a.args or a.args[0].arg != 'self' \
                or a.args[0].annotation is not None:
            self.bad(fd, 'decorators or special parameters')
        params = a.args[1:]
        sig = [(p.arg, ast.unparse(p.annotation) if p.annotation else None) for p in params]
        ret = ast.unparse(fd.returns) if fd.returns else None
        body = [s for i, s in enumerate(fd.body) if not (i == 0 and is_doc(s))]
        if fd.name == '__init__':
            if sig != [('dealer', 'Player'), ('vul', 'Vul')] or ret is not None or [ast.unparse(d) for d in a.defaults] != ['Player.N', 'Vul.NONE']:
                self.bad(fd, '__init__ is not (self, dealer: Player = Player.N, vul: Vul = Vul.NONE)')
            d0, v0 = self.member('Player', 'N', fd), self.member('Vul', 'NONE', fd)
            env = Env(None, {}, {}, {'dealer': V('v_dealer', 'seat'), 'vul': V('v_vul', 'vul')}, {}, {'v_dealer', 'v_vul'}, isinit=True)
            term = self.seq(body, env, self.init_done, fd)
            return f'(* the defaults of the two parameters *)\nDefinition g_init_defaults : seat * vul := ({d0.term}, {v0.term}).\n' \
                   f'Definition g_init (v_dealer : seat) (v_vul : vul) : astate :=\n{ind(term)}.'
        if a.defaults:
            self.bad(fd, 'default values')
        env = Env.at('s', {}, set())
        if fd.name == 'has_done':
            if sig or ret != 'bool' or len(body) != 1 or not isinstance(body[0], ast.Return) or body[0].value is None:
                self.bad(fd, 'has_done is not one `return <test>` of type bool')
            self.inline['has_done'] = body[0].value
            term = self.to_bool(self.cond(body[0].value, env, None))
            return f'Definition g_has_done (s : astate) : bool :=\n{ind(term)}.'
        if fd.name == 'take_bid':
            if sig != [('bid', 'Bid')] or ret != 'BiddingPhaseState':
                self.bad(fd, 'take_bid is not (self, bid: Bid) -> BiddingPhaseState')
            self.enum('Bid', fd), self.enum('BiddingPhaseState', fd)
            env.locs['bid'] = V('v_bid', 'call')
            env.scope.add('v_bid')
            return f'Definition g_take_bid (s : astate) (v_bid : call) : astate * outcome :=\n{ind(self.seq(body, env, None, fd))}.'
        if fd.name == 'contract':
            if sig or ret != 'Optional[Contract]':
                self.bad(fd, 'contract is not (self) -> Optional[Contract]')
            return f'Definition g_contract (s : astate) : option contract :=\n{ind(self.seq(body, env, None, fd))}.'
        self.bad(fd, 'a method the translator does not know')

    def init_done(self, env):
        missing = [f for _, f, _, _ in FIELDS if f not in env.st]
        if missing:
            raise Untranslatable(f'{REL}: __init__ does not store {missing}')
        return env.state()[1:-1]

    def raise_term(self, node, env):
        if self.name == 'take_bid':
            return f'({env.state()}, Raises)'
        if self.name == 'contract':
            return 'None'
        self.bad(node, 'this method has no result for an exception')

    # ---------------------------------------------------------------- statements
    def seq(self, ss, env, k, at):
        """Gallina for: run ss from env, then k(env at the end).  k None: every path must end in return/raise."""
        if not ss:
            if k is None:
                self.bad(at, 'control can reach the end of the method without return')
            return k(env)
        s, rest = ss[0], ss[1:]
        if isinstance(s, (ast.Assert, ast.Pass)) or is_doc(s):      # -O removes asserts; a failing one is an exception like the
            return self.seq(rest, env, k, s)                        # one the unguarded use after it would raise
        env = env.fork()
        binds = []
        if isinstance(s, (ast.Return, ast.Raise)):
            if rest:
                self.bad(rest[0], 'unreachable code')
            text = self.ret(s, env, binds) if isinstance(s, ast.Return) else self.raise_term(s, env)
        elif isinstance(s, ast.If):
            text = self.if_(s, rest, env, k, binds)
        else:
            lets, env2 = self.store(s, env, binds)
            text = ''.join(l + '\n' for l in lets) + self.seq(rest, env2, k, s)
        for scrut, pat, exc in reversed(binds):
            text = f'match {scrut} with\n| None => {exc}\n| Some {pat} =>\n{ind(text)}\nend'
        return text

    def ret(self, s, env, binds):
        if self.name == 'take_bid':
            v = self.expr(s.value, env, binds) if s.value is not None else None
            if v is None or v.ty != 'outcome':
                self.bad(s, 'take_bid must return a BiddingPhaseState member')
            return f'({env.state()}, {v.term})'
        if self.name == 'contract':
            if s.value is None or (isinstance(s.value, ast.Constant) and s.value.value is None):
                return 'None'
            v = self.expr(s.value, env, binds)
            if v.ty != 'contract':
                self.bad(s, 'contract must return None or a Contract')
            return f'Some {v.term}'
        self.bad(s, 'return outside the subset')

    def rebuild(self, env, field, term):
        """The state after the store of `term` into `field`: the record rebuilt with the ten other fields as they are."""
        env2 = env.fork()
        env2.st[field] = term
        env2.base = None
        return env2

    def store_field(self, node, env, attr, v):
        field, ty, _ = self.field(node, attr)
        v = self.coerce(v, ty, env, None, node)
        env2 = self.rebuild(env, field, v.term)
        if ty in ('oseat', 'obid'):
            if v.known is None:
                env2.know.pop(field, None)
            else:
                env2.know[field] = v.known
        env2.lens.pop(field, None)
        return env2

    def store(self, s, env, binds):
        lets = []
        if isinstance(s, (ast.Assign, ast.AnnAssign)):
            if s.value is None or (isinstance(s, ast.Assign) and len(s.targets) != 1):
                self.bad(s, 'assignment outside the subset')
            t = s.targets[0] if isinstance(s, ast.Assign) else s.target
            if isinstance(t, ast.Tuple):           # a, b = e1, e2 : right-hand sides first, then the stores left to right
                if not isinstance(s.value, ast.Tuple) or len(s.value.elts) != len(t.elts) or any(self_attr(x) is None for x in t.elts):
                    self.bad(s, 'tuple assignment outside the subset')
                vs = [self.expr(x, env, binds) for x in s.value.elts]
                for x, v in zip(t.elts, vs):
                    env = self.store_field(s, env, self_attr(x), v)
                return lets, env
            attr = self_attr(t)
            if attr is not None:
                field, ty, ann = self.field(s, attr)
                if isinstance(s, ast.AnnAssign) and ast.unparse(s.annotation) != ann:
                    self.bad(s, f'{attr} is annotated otherwise than {ann}')
                if env.isinit and not isinstance(s, ast.AnnAssign):
                    self.bad(s, '__init__ must annotate the attribute it creates')
                if env.isinit and field in env.st:
                    self.bad(s, f'{attr} is stored twice in __init__')
                return lets, self.store_field(s, env, attr, self.expr(s.value, env, binds))
            if isinstance(s, ast.AnnAssign):
                self.bad(s, 'annotated assignment to anything but an attribute')
            if isinstance(t, ast.Name):             # a local; only a Contract (contract())
                v = self.expr(s.value, env, binds)
                if v.ty != 'contract' or t.id in env.locs or t.id in self.imports or t.id in ('self', 'np'):
                    self.bad(s, 'a local must be one new name holding a Contract')
                name = 'v_' + t.id
                env2 = env.fork()
                env2.locs[t.id] = V(name, 'contract')
                env2.scope.add(name)
                return [f'let {name} := {v.term} in'], env2
            if isinstance(t, ast.Subscript):
                return self.store_item(s, t, env, binds, lets)
            self.bad(s, 'assignment target outside the subset')
        if isinstance(s, ast.Expr) and isinstance(s.value, ast.Call) and isinstance(s.value.func, ast.Attribute) \
                and s.value.func.attr == 'append' and len(s.value.args) == 1 and not s.value.keywords:
            r = s.value.func.value
            attr = self_attr(r)
            if attr is not None and self.field(s, attr)[1] == 'calls':          # h.append(e): the history is newest first
                h = self.read(r, attr, env)
                a = self.coerce(self.expr(s.value.args[0], env, binds), 'call', env, binds, s)
                bound = env.lens.get(h.field)
                env2 = self.store_field(s, env, attr, V(f'({a.term} :: {h.term})', 'calls'))
                if bound is not None:
                    env2.lens[h.field] = bound + 1
                return lets, env2
            if isinstance(r, ast.Subscript) and self_attr(r.value) is not None and self.field(s, self_attr(r.value))[1] == 'phist':
                d = self.read(r.value, self_attr(r.value), env)
                key = self.coerce(self.expr(r.slice, env, binds), 'seat', env, binds, s)
                a = self.coerce(self.expr(s.value.args[0], env, binds), 'call', env, binds, s)
                q = self.fresh('q')
                fn = f'(fun {q} => if seat_beq {q} {key.term} then {a.term} :: {d.term} {q} else {d.term} {q})'
                return lets, self.store_field(s, env, self_attr(r.value), V(fn, 'phist'))
        self.bad(s, f'statement {type(s).__name__} is outside the subset')

    def store_item(self, s, t, env, binds, lets):
        attr = self_attr(t.value)
        if attr is not None and self.field(s, attr)[1] == 'vec':
            vec = self.read(t.value, attr, env)
            if not (isinstance(s.value, ast.Constant) and type(s.value.value) is int and s.value.value in (0, 1)):
                self.bad(s, 'a slot of the availability vector is set to something other than the literal 0 or 1')
            bit = 'true' if s.value.value else 'false'
            sl = t.slice
            if isinstance(sl, ast.Slice):
                if sl.step is not None or bit != 'false':
                    self.bad(s, 'slice store outside `v[:e] = 0` / `v[-k:] = 0`')
                if sl.lower is None and sl.upper is not None:              # v[:e] = 0, e a natural (no subtraction: never negative)
                    e = self.coerce(self.expr(sl.upper, env, binds), 'nat', env, binds, s)
                    new = f'(zero_prefix {e.term} {vec.term})'
                elif sl.upper is None and isinstance(sl.lower, ast.UnaryOp) and isinstance(sl.lower.op, ast.USub) \
                        and isinstance(sl.lower.operand, ast.Constant) and type(sl.lower.operand.value) is int and sl.lower.operand.value > 0:
                    new = f'(py_zero_suffix {sl.lower.operand.value} {vec.term})'
                else:
                    self.bad(s, 'slice store outside `v[:e] = 0` / `v[-k:] = 0`')
            else:
                i = self.coerce(self.expr(sl, env, binds), 'nat', env, binds, s)
                new = f'(set_nth {i.term} {bit} {vec.term})'
            return lets, self.store_field(s, env, attr, V(new, 'vec'))
        if isinstance(t.value, ast.Subscript) and self_attr(t.value.value) is not None \
                and self.field(s, self_attr(t.value.value))[1] == 'tab':      # d[e1][e2] = e : value, then e1, then e2
            attr = self_attr(t.value.value)
            v = self.coerce(self.expr(s.value, env, binds), 'oseat', env, binds, s)
            tab = self.read(t.value.value, attr, env)
            k1 = self.coerce(self.expr(t.value.slice, env, binds), 'side', env, binds, s)
            k2 = self.coerce(self.expr(t.slice, env, binds), 'strain', env, binds, s)
            sd, st = self.fresh('sd'), self.fresh('st')
            fn = f'(fun {sd} {st} => if side_beq {sd} {k1.term} && strain_beq {st} {k2.term} then {v.term} else {tab.term} {sd} {st})'
            return lets, self.store_field(s, env, attr, V(fn, 'tab'))
        self.bad(s, 'item store outside the subset')

    # ---------------------------------------------------------------- if
    def if_(self, s, rest, env, k, binds):
        if env.isinit:
            self.bad(s, '__init__ must be straight-line')
        emit, branches = self.decide(s, env, binds)
        term = [terminates(b) for _, b in branches]
        if not rest:
            return emit([self.seq(b, e, k, s) for e, b in branches])
        falls = term.count(False)
        if falls == 0:
            self.bad(rest[0], 'unreachable code')
        if falls == 1:
            return emit([self.seq(b + ([] if t else rest), e, None if t else k, s) for (e, b), t in zip(branches, term)])
        j, ends = self.fresh('j'), []

        def kj(e):
            ends.append(e)
            return f'{j} {e.state()}'
        texts = [self.seq(b, e, None if t else kj, s) for (e, b), t in zip(branches, term)]
        if not ends:
            self.bad(s, 'no path reaches the statements after this if')
        je = Env.at(self.fresh('s'), env.locs, env.scope | {j})
        inscope = lambda t: all(w in env.scope for w in re.findall(r"[A-Za-z_][A-Za-z_0-9']*'\d+|v_\w+|\bs\b", t))
        je.know = {f: v for f, v in ends[0].know.items()
                   if all(f in e.know and e.know[f] == v for e in ends) and (v is NONE or inscope(v))}
        je.lens = {f: min(e.lens[f] for e in ends) for f in ends[0].lens if all(f in e.lens for e in ends)}
        if any(set(e.locs) != set(env.locs) for e in ends):
            self.bad(s, 'a local is created on some path through this if')
        return f'let {j} := fun {je.base} : astate =>\n{ind(self.seq(rest, je, k, s), 4)} in\n' + emit(texts)

    def call_test(self, n, env):
        """(variable V, member) when n is `var is Bid.member` / `var == Bid.member` on a call-typed local, else None."""
        if isinstance(n, ast.Compare) and len(n.ops) == 1 and isinstance(n.ops[0], (ast.Is, ast.Eq)) and isinstance(n.left, ast.Name) \
                and n.left.id in env.locs and env.locs[n.left.id].ty == 'call':
            r = n.comparators[0]
            if isinstance(r, ast.Attribute) and isinstance(r.value, ast.Name) and r.value.id == 'Bid' and 'Bid' not in env.locs \
                    and r.attr in NONBIDS:
                self.enum('Bid', n)
                return n.left.id, r.attr
        return None

    def decide(self, s, env, binds):
        """(emit, [(env, statements)]) for the branches of an if statement; emit(texts) assembles the Gallina."""
        first = self.call_test(s.test, env)
        if first is not None:              # chain  if v is Bid.A .. elif v is Bid.B .. else
            var, chain, node = first[0], [], s
            while True:
                ct = self.call_test(node.test, env)
                chain.append((ct[1], node.body))
                nxt = node.orelse
                if len(nxt) == 1 and isinstance(nxt[0], ast.If):
                    c2 = self.call_test(nxt[0].test, env)
                    if c2 is not None and c2[0] == var and c2[1] not in [m for m, _ in chain]:
                        node = nxt[0]
                        continue
                break
            v = env.locs[var]
            ctor = ENUMS['Bid'][3]
            last_env = env.fork()
            if {m for m, _ in chain} == set(NONBIDS):      # the other members of Bid (pinned) are the level+strain bids
                l, st = self.fresh('l', last_env), self.fresh('st', last_env)
                last_env.locs[var] = V(v.term, 'call', real=(l, st))
                last_pat = f'Bid {l} {st}'
            else:
                last_pat = '_'
            pats = [ctor[m] for m, _ in chain] + [last_pat]
            branches = [(env.fork(), b) for _, b in chain] + [(last_env, nxt)]
            return (lambda ts: f'match {v.term} with\n' + '\n'.join(f'| {p} =>\n{ind(t, 4)}' for p, t in zip(pats, ts)) + '\nend'), branches
        c = self.cond(s.test, env, binds)
        then_env = env.fork()
        for f, n in self.facts(s.test).items():
            then_env.lens[f] = max(then_env.lens.get(f, 0), n)
        if c.kind == 'bool':
            return (lambda ts: f'if {c.term} then\n{ind(ts[0])}\nelse\n{ind(ts[1])}'), [(then_env, s.body), (env.fork(), s.orelse)]
        if c.kind == 'call':
            pat = ENUMS['Bid'][3][c.member]
            bs = [(then_env, s.body), (env.fork(), s.orelse)]
            order = (1, 0) if c.flip else (0, 1)
            return (lambda ts: f'match {c.var} with\n| {pat} =>\n{ind(ts[order[0]], 4)}\n| _ =>\n{ind(ts[order[1]], 4)}\nend'), bs
        none_env, some_env = env.fork(), env.fork()
        if c.oty == 'obid':
            l, st = self.fresh('l', some_env), self.fresh('st', some_env)
            pat, content = f'({l}, {st})', f'({l}, {st})'
        elif c.field is not None:
            pat = content = self.fresh('p', some_env)
        else:
            pat, content = '_', None
        if c.field is not None:
            none_env.know[c.field] = NONE
            some_env.know[c.field] = content
        ne, so = (1, 0) if c.flip else (0, 1)        # position of the None / Some branch among (then, else)
        bs = [None, None]
        bs[ne], bs[so] = (none_env, s.body if ne == 0 else s.orelse), (some_env, s.body if so == 0 else s.orelse)
        return (lambda ts: f'match {c.scrut} with\n| None =>\n{ind(ts[ne], 4)}\n| Some {pat} =>\n{ind(ts[so], 4)}\nend'), bs

    def facts(self, n):
        """list field -> lower bound on its length that holds when the test n is true."""
        if isinstance(n, ast.BoolOp) and isinstance(n.op, ast.And):
            out = {}
            for v in n.values:
                for f, b in self.facts(v).items():
                    out[f] = max(out.get(f, 0), b)
            return out
        if isinstance(n, ast.Compare) and len(n.ops) == 1 and isinstance(n.ops[0], (ast.GtE, ast.Gt)) and isinstance(n.left, ast.Call) \
                and isinstance(n.left.func, ast.Name) and n.left.func.id == 'len' and len(n.left.args) == 1 and not n.left.keywords \
                and self_attr(n.left.args[0]) in TABLE and TABLE[self_attr(n.left.args[0])][1] == 'calls' \
                and isinstance(n.comparators[0], ast.Constant) and type(n.comparators[0].value) is int:
            return {TABLE[self_attr(n.left.args[0])][0]: n.comparators[0].value + isinstance(n.ops[0], ast.Gt)}
        return {}

    # ---------------------------------------------------------------- tests
    def to_bool(self, c):
        if c.kind == 'bool':
            return c.term
        t, f = ('false', 'true') if c.flip else ('true', 'false')
        if c.kind == 'call':
            return f'match {c.var} with {ENUMS["Bid"][3][c.member]} => {t} | _ => {f} end'
        return f'match {c.scrut} with None => {t} | Some _ => {f} end'

    def cond(self, n, env, binds):
        if isinstance(n, ast.UnaryOp) and isinstance(n.op, ast.Not):
            c = self.cond(n.operand, env, binds)
            if c.kind == 'bool':
                return C('bool', term=f'(negb {c.term})')
            c.flip = not c.flip
            return c
        if isinstance(n, ast.BoolOp):                # short-circuit: only the first operand may raise
            terms, e2 = [], env
            for i, v in enumerate(n.values):
                terms.append(self.to_bool(self.cond(v, e2, binds if i == 0 else None)))
                if isinstance(n.op, ast.And):
                    e2 = e2.fork()
                    for f, b in self.facts(v).items():
                        e2.lens[f] = max(e2.lens.get(f, 0), b)
            wrapd = [t if re.fullmatch(r"[\w']+|\(.*\)", t, re.S) else f'({t})' for t in terms]
            return C('bool', term='(' + (' && ' if isinstance(n.op, ast.And) else ' || ').join(wrapd) + ')')
        if isinstance(n, ast.Compare):
            return self.compare(n, env, binds)
        if isinstance(n, ast.Call) and isinstance(n.func, ast.Attribute) and self_attr(n.func) is not None:
            m = self_attr(n.func)                    # a method of the class: only those translated before, inlined
            if m not in self.inline or n.args or n.keywords:
                self.bad(n, 'a method the translator does not know')
            return self.cond(self.inline[m], env, binds)
        v = self.expr(n, env, binds)
        if v.ty != 'bool':
            self.bad(n, f'a test of type {v.ty} is outside the subset')
        return C('bool', term=v.term)

    def compare(self, n, env, binds):
        if len(n.ops) != 1:
            self.bad(n, 'chained comparison')
        op, l, r = n.ops[0], n.left, n.comparators[0]
        neg = isinstance(op, (ast.IsNot, ast.NotEq))
        wrap = lambda t: C('bool', term=f'(negb {t})' if neg else t)
        if isinstance(op, (ast.Is, ast.IsNot, ast.Eq, ast.NotEq)):
            ident = isinstance(op, (ast.Is, ast.IsNot))
            if isinstance(r, ast.Constant) and r.value is None:
                v = self.expr(l, env, binds)
                if v.ty in ('oseat', 'obid'):
                    return C('opt', scrut=v.term, field=v.field, oty=v.ty, flip=neg)
                self.bad(n, f'comparison of a {v.ty} with None')
            ct = self.call_test(ast.Compare(l, [ast.Is()], [r]), env)
            if ct is not None:
                return C('call', var=env.locs[ct[0]].term, member=ct[1], flip=neg)
            a, b = self.expr(l, env, binds), self.expr(r, env, binds)
            if a.ty == 'ocall' and b.ty == 'call' and b.const in NONBIDS:       # h[-k] is Bid.Pass
                return wrap(f'match {a.term} with Some {b.term} => true | _ => false end')
            if a.ty == b.ty and a.ty in ('seat', 'side', 'vul', 'strain'):
                return wrap(f'({a.ty}_beq {a.term} {b.term})')
            if not ident and a.ty == 'bit' and b.ty == 'nat' and b.const in (0, 1):
                return C('bool', term=a.term if (b.const == 1) != neg else f'(negb {a.term})')
            if not ident and a.ty == 'nat' and b.ty == 'nat':
                return wrap(f'({a.term} =? {b.term})')
            self.bad(n, f'comparison of a {a.ty} with a {b.ty}')
        fmt = {ast.Lt: '({0} <? {1})', ast.LtE: '({0} <=? {1})', ast.Gt: '({1} <? {0})', ast.GtE: '({1} <=? {0})'}.get(type(op))
        if fmt is None:
            self.bad(n, f'comparison {type(op).__name__} is outside the subset')
        a, b = self.expr(l, env, binds), self.expr(r, env, binds)
        if a.ty != 'nat' or b.ty != 'nat':
            self.bad(n, 'ordering of anything but naturals')
        return C('bool', term=fmt.format(a.term, b.term))          # a >= b is written b <=? a

    # ---------------------------------------------------------------- expressions
    def field(self, node, attr):
        if attr not in TABLE:
            self.bad(node, f'attribute {attr} is not in the table of record fields')
        return TABLE[attr]

    def read(self, node, attr, env):
        field, ty, _ = self.field(node, attr)
        if field not in env.st:
            self.bad(node, f'{attr} is read before __init__ stores it')
        v = V(env.st[field], ty, field=field)
        if field in env.know:
            k = env.know[field]
            v.known, v.term = k, 'None' if k is NONE else f'(Some {k})'
        return v

    def coerce(self, v, ty, env, binds, node):
        if v.ty == ty:
            return v
        if ty in ('seat', 'bid') and v.ty == 'o' + ty:
            if v.known is NONE:
                self.bad(node, 'an attribute that is None here is used as an object')
            if v.known is not None:
                return V(v.known, ty)
            if v.field is None or binds is None or env.isinit or self.name not in ('take_bid', 'contract'):
                self.bad(node, 'an Optional value is used as an object where no `is None` test covers it')
            if ty == 'seat':
                pat = self.fresh('p', env)
            else:
                pat = f"({self.fresh('l', env)}, {self.fresh('st', env)})"
            binds.append((v.term, pat, self.raise_term(node, env)))      # raises here when None; known from here on
            env.know[v.field] = pat
            return V(pat, ty)
        if ty == 'bid' and v.ty == 'call' and v.real:
            return V(f'({v.real[0]}, {v.real[1]})', 'bid')
        if ty in ('oseat', 'obid') and v.ty == 'none':
            return V('None', ty, known=NONE)
        if ty == 'oseat' and v.ty == 'seat':
            return V(f'(Some {v.term})', ty, known=v.term)
        if ty == 'obid' and (v.ty == 'bid' or (v.ty == 'call' and v.real)):
            b = self.coerce(v, 'bid', env, binds, node)
            return V(f'(Some {b.term})', ty, known=b.term)
        if ty == 'calls' and v.ty == 'nil':
            return V('[]', ty)
        if isinstance(v.ty, tuple) and (ty, v.ty) in (('phist', ('dict', 'Player', 'calls')), ('phist', ('dict', 'Player', 'nil')),
                                                      ('tab', ('dict', 'Pair', ('dict', 'Suit', 'none'))),
                                                      ('tab', ('dict', 'Pair', ('dict', 'Suit', 'oseat')))):
            return V(v.term, ty)
        self.bad(node, f'a {v.ty} where a {ty} is needed')

    def member(self, cls, name, node):
        ty, ctor = self.enum(cls, node)
        if name not in ctor:
            self.bad(node, f'{cls}.{name} is outside the subset')
        return V(ctor[name], ty, const=name)

    def expr(self, n, env, binds):
        if isinstance(n, ast.Constant):
            if n.value is None:
                return V('None', 'none')
            if type(n.value) is bool:
                return V('true' if n.value else 'false', 'bool')
            if type(n.value) is int and n.value >= 0:
                return V(str(n.value), 'nat', const=n.value)
            self.bad(n, 'literal outside the subset')
        if isinstance(n, ast.Name):
            if n.id in env.locs:
                return env.locs[n.id]
            self.bad(n, 'not a parameter or local')
        if isinstance(n, ast.List) and not n.elts:
            return V('[]', 'nil')
        if isinstance(n, ast.DictComp):              # {k: e for k in Enum}, e independent of k: the constant function
            g = n.generators[0]
            if len(n.generators) != 1 or g.ifs or g.is_async or not isinstance(g.target, ast.Name) or not isinstance(n.key, ast.Name) \
                    or n.key.id != g.target.id or not isinstance(g.iter, ast.Name) or g.iter.id not in ('Player', 'Pair', 'Suit') \
                    or g.iter.id in env.locs or g.target.id in env.locs \
                    or any(isinstance(x, ast.Name) and x.id == g.target.id for x in ast.walk(n.value)):
                self.bad(n, 'dict display outside `{k: e for k in Player|Pair|Suit}` with e independent of k')
            self.enum(g.iter.id, n)
            e = self.expr(n.value, env, binds)
            if e.ty not in ('nil', 'calls', 'none', 'oseat') and not isinstance(e.ty, tuple):
                self.bad(n, 'dict display of values outside the subset')
            return V(f'(fun _ => {e.term})', ('dict', g.iter.id, e.ty))
        if isinstance(n, (ast.BoolOp, ast.Compare)) or (isinstance(n, ast.UnaryOp) and isinstance(n.op, ast.Not)):
            return V(self.to_bool(self.cond(n, env, binds)), 'bool')
        if isinstance(n, ast.BinOp) and isinstance(n.op, (ast.Add, ast.Mult)):     # no subtraction: naturals stay naturals
            a = self.coerce(self.expr(n.left, env, binds), 'nat', env, binds, n)
            b = self.coerce(self.expr(n.right, env, binds), 'nat', env, binds, n)
            return V(f'({a.term} {"+" if isinstance(n.op, ast.Add) else "*"} {b.term})', 'nat')
        if isinstance(n, ast.Attribute):
            attr = self_attr(n)
            if attr is not None:
                return self.read(n, attr, env)
            if isinstance(n.value, ast.Name) and n.value.id in ENUMS and n.value.id not in env.locs:
                return self.member(n.value.id, n.attr, n)
            o = self.expr(n.value, env, binds)
            if n.attr in ('next_player', 'pair') and o.ty in ('seat', 'oseat'):
                o = self.coerce(o, 'seat', env, binds, n)
                self.enum('Player', n), self.enum('Pair', n)
                if n.attr == 'next_player':
                    self.pin(('bridge_env/player.py', 'Player', 'next_player'), n), self.pin(('bridge_env/player.py', 'Player', 'left'), n)
                    return V(f'(next {o.term})', 'seat')
                self.pin(('bridge_env/player.py', 'Player', 'pair'), n)
                return V(f'(side_of {o.term})', 'side')
            if n.attr == 'idx' and o.ty == 'call':
                self.enum('Bid', n), self.pin(('bridge_env/bid.py', 'Bid', 'idx'), n)
                if o.const is not None:
                    return V(str(dict(ENUMS['Bid'][2])[o.const] - 1), 'nat')
                return V(f'(call_idx {o.term})', 'nat')
            if n.attr == 'suit' and o.ty in ('call', 'bid', 'obid'):
                self.enum('Bid', n), self.enum('Suit', n), self.pin(('bridge_env/bid.py', 'Bid', 'suit'), n)
                if o.ty == 'call' and not o.real:
                    self.bad(n, 'the suit of a call that may be Pass/X/XX (None) is outside the subset')
                b = self.coerce(o, 'bid', env, binds, n)
                return V(b.term[1:-1].split(', ')[1], 'strain')
            self.bad(n, f'attribute {n.attr} of a {o.ty} is outside the subset')
        if isinstance(n, ast.Subscript):
            return self.subscript(n, env, binds)
        if isinstance(n, ast.Call):
            return self.call(n, env, binds)
        self.bad(n, f'expression {type(n).__name__} is outside the subset')

    def subscript(self, n, env, binds):
        attr = self_attr(n.value)
        if attr is not None:
            o = self.read(n.value, attr, env)
            if o.ty == 'calls':           # h[-k]: the k-th newest; only where a test len(h) >= n >= k is in force
                i = n.slice
                if not (isinstance(i, ast.UnaryOp) and isinstance(i.op, ast.USub) and isinstance(i.operand, ast.Constant)
                        and type(i.operand.value) is int and i.operand.value >= 1):
                    self.bad(n, 'the history is indexed by something other than a negative literal')
                if env.lens.get(o.field, 0) < i.operand.value:
                    self.bad(n, 'the history is indexed where no test `len(..) >= n` shows the index to be in range')
                return V(f'(nth_error {o.term} {i.operand.value - 1})', 'ocall')
            if o.ty == 'vec':             # in range by the invariant length = 38 (Proofs/Auction.v); the model reads false outside
                i = self.coerce(self.expr(n.slice, env, binds), 'nat', env, binds, n)
                return V(f'(nth {i.term} {o.term} false)', 'bit')
            if o.ty == 'phist':
                k = self.coerce(self.expr(n.slice, env, binds), 'seat', env, binds, n)
                return V(f'({o.term} {k.term})', 'calls')
            if o.ty == 'tab':
                k = self.coerce(self.expr(n.slice, env, binds), 'side', env, binds, n)
                return V(f'({o.term} {k.term})', 'row')
            self.bad(n, f'subscript of a {o.ty}')
        if isinstance(n.value, ast.Subscript):
            o = self.subscript(n.value, env, binds)
            if o.ty == 'row':
                k = self.coerce(self.expr(n.slice, env, binds), 'strain', env, binds, n)
                return V(f'({o.term} {k.term})', 'oseat')
        self.bad(n, 'subscript outside the subset')

    def call(self, n, env, binds):
        f = n.func
        if isinstance(f, ast.Attribute) and self_attr(f) is not None:
            return V(self.to_bool(self.cond(n, env, binds)), 'bool')
        if isinstance(f, ast.Attribute) and f.attr == 'is_partner' and len(n.args) == 1 and not n.keywords:
            a = self.coerce(self.expr(f.value, env, binds), 'seat', env, binds, n)
            b = self.coerce(self.expr(n.args[0], env, binds), 'seat', env, binds, n)
            self.enum('Player', n), self.pin(('bridge_env/player.py', 'Player', 'is_partner'), n)
            return V(f'(same_side {a.term} {b.term})', 'bool')
        if isinstance(f, ast.Name) and f.id == 'len' and len(n.args) == 1 and not n.keywords and 'len' not in env.locs \
                and 'len' not in self.imports:
            a = self.expr(n.args[0], env, binds)
            if a.ty != 'calls':
                self.bad(n, 'len of anything but a list of calls')
            return V(f'(length {a.term})', 'nat')
        if isinstance(f, ast.Attribute) and isinstance(f.value, ast.Name) and f.value.id == self.numpy_as and f.value.id not in env.locs \
                and f.attr in ('ones', 'zeros') and len(n.args) == 1 and not n.keywords \
                and isinstance(n.args[0], ast.Constant) and type(n.args[0].value) is int and n.args[0].value >= 0:
            return V(f'(repeat {"true" if f.attr == "ones" else "false"} {n.args[0].value})', 'vec')
        if isinstance(f, ast.Name) and f.id == 'Contract' and 'Contract' not in env.locs:
            self.contract_cls(n)
            names = [c[0] for c in self.contract_fields]
            if len(n.args) > len(names) or any(k.arg is None for k in n.keywords):
                self.bad(n, 'argument list outside the subset')
            given = {}
            for name, a in [(names[i], a) for i, a in enumerate(n.args)] + [(k.arg, k.value) for k in n.keywords]:
                if name in given or name not in names:
                    self.bad(n, f'argument {name} repeated or unknown')
                ty = dict((c[0], c[3]) for c in self.contract_fields)[name]
                given[name] = self.coerce(self.expr(a, env, binds), ty, env, None, n)      # evaluation order = source order
            terms = []
            for name, _, default, ty in self.contract_fields:
                if name in given:
                    terms.append(given[name].term)
                elif default is None:
                    self.bad(n, f'missing argument {name}')
                else:
                    terms.append(self.coerce(self.expr(ast.parse(default, mode='eval').body, Env(None, {}, {}, {}, {}, set()), None),
                                             ty, env, None, n).term)
            return V('(mkcontract ' + ' '.join(terms) + ')', 'contract')
        self.bad(n, 'call outside the subset')


def gen_auction_fns():
    tree = gen.inline_private_helpers(gen.normalise_ifs(gen.parse(REL), 'stmt'), CLASS, set(METHODS))
    imports, numpy_as, cls = {}, None, None
    for i, node in enumerate(tree.body):
        if isinstance(node, ast.ImportFrom):
            for a in node.names:
                imports[a.asname or a.name] = node.module if a.asname is None and node.level == 1 else None
        elif isinstance(node, ast.Import):
            for a in node.names:
                if a.name == 'numpy' and a.asname:
                    numpy_as = a.asname
                imports[a.asname or a.name] = None
        elif isinstance(node, ast.ClassDef):
            if node.name == CLASS:
                cls = node
            elif node.name != 'BiddingPhaseState':
                raise Untranslatable(f'{REL}:{node.lineno}: class {node.name} is outside the subset')
        elif not (i == 0 and is_doc(node)):
            raise Untranslatable(f'{REL}:{node.lineno}: module-level statement outside the subset')
    if cls is None or cls.bases or cls.keywords or cls.decorator_list:
        raise Untranslatable(f'{REL}: class {CLASS} not found, or it has bases or decorators')
    tr = Translator(imports, numpy_as)
    defs, seen = [], []
    for m in cls.body:
        if is_doc(m):
            continue
        if not isinstance(m, ast.FunctionDef):
            raise Untranslatable(f'{REL}:{m.lineno}: class-level statement outside the subset')
        if m.name in METHODS:
            if m.name in seen:
                raise Untranslatable(f'{REL}:{m.lineno}: {m.name} defined twice')
            seen.append(m.name)
            defs.append(tr.method(m))
            continue
        # every other member must be a read-only view: @property def x(self): return self.__attr
        body = [s for s in m.body if not is_doc(s)]
        if [ast.unparse(d) for d in m.decorator_list] != ['property'] or ast.unparse(m.args) != 'self' or m.name in seen or len(body) != 1 \
                or not isinstance(body[0], ast.Return) or self_attr(body[0].value) not in TABLE:
            raise Untranslatable(f'{REL}:{m.lineno}: {m.name} is a method the translator does not know (not a read-only property)')
        seen.append(m.name)
    if [m for m in seen if m in METHODS] != list(METHODS):
        raise Untranslatable(f'{REL}: the methods {METHODS} are not all present, in this order')
    head = f'(* GENERATED by harness/gen_auction.py from {REL} (class {CLASS}) -- do not edit *)\n'
    return 'AuctionFns.v', head + PRELUDE + '\n'.join(defs) + '\n'
