"""Translator for class Hands of bridge_env/hands.py: Python `ast` -> Gallina (coq/Gen/HandsFns.v).  Reads the source TEXT
only (never imports or evaluates it) and fails closed: anything outside the subset below raises Untranslatable with file
and line.  Proofs/HandsGen.v proves the generated functions equal to the hand-written model Model/Hands.v (hand_to_pbn,
to_pbn, to_binary, convert_binary, pack_order / deal_of_shuffle) for ALL arguments.

What is translated.  One Definition per method, callees first; every result is an `option` (None = the method raises):
  __init__               -> g_init (v_north_hand v_east_hand v_south_hand v_west_hand : list card) : py_hands  (stores only)
  __getitem__            -> g_getitem (s : py_hands) (v_item : seat)               : option (list card)
  _convert_hand_to_pbn   -> g_convert_hand_to_pbn (v_hand : list card)             : option string
  to_pbn                 -> g_to_pbn (s : py_hands) (v_dealer : seat)              : option string
                            (the default of `dealer` is the Definition g_to_pbn_default_dealer)
  to_binary              -> g_to_binary (s : py_hands)                             : option (list (seat * list nat))
  to_dict                -> g_to_dict (s : py_hands)                               : option (list (seat * list card))
  convert_binary         -> g_convert_binary (v_binary_hands : list (seat * list nat)) : option py_hands
  generate_random_hands  -> g_generate_random_hands (shuffle : list card -> list card) : option py_hands
Not translated, pinned by their exact source text (decorators, parameters, result annotation, body; any edit is refused):
  __eq__, to_np_binary, convert_np_binary (numpy), convert_pbn, _hand_parser (regular expressions), and the three
  module-level pattern literals HAND_PATTERN, HAND, DEAL_PATTERN (table PATTERNS; they are also in Gen/Regexes.v).

Values.
  The object: the record py_hands of the prelude, one field per attribute (north east south west -> h_north h_east h_south
  h_west : list card; table ATTRS).  Attributes are stored by `__init__` only (`self.<attribute> = <parameter>`, each once);
  `Hands(..)` is g_init with the arguments in the order of the parameters of `__init__` (keywords resolved from the source).
  Set[Card]: a list of cards read as a set, as in Model/Hands.v and Model/Play.v (`len` is `length`: a set is a
  duplicate-free list; `S.add(e)` is `e :: S`; iteration order is the order of the list - Python's is arbitrary, the
  theorems hold for every list, hence for every order); `set(L)` and `list(S)`, `tuple(L)` keep the list.  A set built
  in a method (by `add`, by `set(L)`) has the members of the Python set, possibly repeated: it may be added to, sorted,
  stored and returned; `len`, iteration, `list`, `tuple` are only for sets that come from outside (parameters,
  attributes, results of methods).
  int: nat.  Every integer of the class is a natural number (literals, `len`, `range`, `int(card)`, the entries of the
  binary vectors - negative entries are outside the model, which has `list nat`); subtraction is refused.
  Dict[Player, T]: the list of (key, value) pairs in insertion order; `d[k]` is py_dict_get (None = KeyError), `d[k] = v`
  is py_dict_set (replace in place, else append), a dict display is the stores in source order, from `dict()`.
  List / Tuple: lists; `L[i]` is nth_error (None = IndexError), `L[i] = v` is py_list_set (None = IndexError),
  `L[a:b]` is py_slice a b L = firstn (b - a) (skipn a L) (exact for all natural bounds), `[e] * n` is repeat e n.
  Player: seat; Suit: strain (`card.suit` is a suit, coerced by Tr); Card: card (`card.rank` is rank_val (crank c),
  `int(card)` is card_idx, `Card(r, s)` is py_card - None when the pinned __post_init__ raises).
  `random.shuffle(cards)` replaces the local list by `shuffle cards`, `shuffle` being a parameter of the Definition: the
  theorem about the dealer holds for every function, the model's lemma dealer_deals_a_deal asks for a permutation.

Subset.
Module: the imports of table IMPORTS, the three pattern assignments, class Hands (no bases, no decorators); nothing else.
Statements: docstring; `pass`; `x = e`, `x: T = e` (a `let`; a name keeps one type; a list / set / dict bound to a name
must be fresh - a call, a display, a comprehension, a slice - so that no two names share a mutable object);
`x = a if c else b` (the if statement); `assert <test>` without message (`if .. then .. else None`: an assert is a
guard, as in the model - the code is not run with -O); `return e` (last in
its block; the result annotation is checked); `raise <builtin exception>(..)` (None); `if / elif / else` (the statements
after the if are appended to every branch that falls through); `L.append(e)` (`L ++ [e]`), `S.add(e)` (`e :: S`),
`L[i] = e`, `D[k] = e`, `random.shuffle(L)` on a local that is not a parameter; `for x in <iterable>:` without else /
break / continue / return, over a list, tuple or set expression, `range(a)` / `range(a, b)` or an Enum class (its
members in definition order, from the pinned member list): py_for over the loop-carried locals (those bound before the
loop and assigned or mutated in it; a name first bound in the body is local to one iteration and unbound after the loop;
the loop variable must be a new name; the iterable must not mention a carried name).
Expressions, typed, each raising step a `match .. with None => None | Some x'N => ..` in evaluation order: string and
natural literals; parameters, locals; `self.<attribute>`; `Player.X`, `Suit.X`; `p.next_player` (next), `p.partner`
(partner); `card.rank`, `card.suit`; `len(e)`; `int(e)`; `list()`, `set()`, `dict()`, `list(e)`, `set(e)`, `tuple(e)`;
`sorted(S)` / `sorted(list(S))` of a set of cards, with `reverse=True/False` (sorted_hand of Model/Hands.v: ascending card
index, pinned Card.__lt__ / __int__; reversed: rev of it - cards of a set are distinct, so stability plays no part);
list displays; `[e] * n`; list comprehensions with any number of `for` and `if` clauses (py_comp); `L[i]`, `D[k]`,
`L[a:b]`; `self[e]` (g_getitem); calls of the translated methods through self / cls / Hands; `Hands(..)`;
`Card.rank_int_to_str(e)` (py_rank_int_to_str: rank_str of Model/Basics.v behind the pinned range check),
`Card.int_to_card(e)` (card_of_idx), `Card(r, s)` (a local list / set / dict is handed to a call only in a `return`);
`sep.join(L)` (join of Model/Hands.v); f-strings without conversion or
format whose interpolations are str or Player (seat_str: pinned `__str__`, plain Enum without `__format__`); `a + b` on
naturals; `{k: v, ..}`; `a if c else b` with branches that cannot raise.
Tests (type bool only; truthiness of anything else is refused): `is` / `is not` / `==` / `!=` on two Enum values,
`< <= > >= == !=` on naturals, `== !=` on strings, `not`, `and` / `or` (later operands must not raise).

Pinned (exact source text, refused otherwise): the enums Player and Suit (member lists, plain Enum); Player.__str__,
next_player, left, partner; Card (frozen dataclass rank: int, suit: Suit; __post_init__, __int__, __lt__,
rank_int_to_str, int_to_card); the imports of hands.py; the builtins used are not rebound."""
import ast
import os

import gen
import gen_auction
import gen_play
import gen_pbnw
from gen import Untranslatable

REL = 'bridge_env/hands.py'
CLASS = 'Hands'
# attribute -> field of the record py_hands
ATTRS = [('north', 'h_north'), ('east', 'h_east'), ('south', 'h_south'), ('west', 'h_west')]
NAMES = {'__init__': 'g_init', '__getitem__': 'g_getitem', '_convert_hand_to_pbn': 'g_convert_hand_to_pbn',
         'to_pbn': 'g_to_pbn', 'to_binary': 'g_to_binary', 'to_dict': 'g_to_dict', 'convert_binary': 'g_convert_binary',
         'generate_random_hands': 'g_generate_random_hands'}
ORDER = ('__init__', '__getitem__', '_convert_hand_to_pbn', 'to_pbn', 'to_binary', 'to_dict', 'convert_binary',
         'generate_random_hands')
# the module-level pattern literals, in this order: name -> exact source text of the value
PATTERNS = {'HAND_PATTERN': "r'([2-9TJQKA]*).([2-9TJQKA]*).([2-9TJQKA]*).([2-9TJQKA]*)'",
            'HAND': "r'[2-9TJQKA\\.]{16}|-'",
            'DEAL_PATTERN': "fr'([NESW]):({HAND}) ({HAND}) ({HAND}) ({HAND})'"}
# imports of hands.py: name -> 'import' | ('import', module) for `import module as name` | (level, module)
IMPORTS = {'annotations': (0, '__future__'), 'random': 'import', 're': 'import', 'Dict': (0, 'typing'),
           'List': (0, 'typing'), 'Set': (0, 'typing'), 'Tuple': (0, 'typing'), 'np': ('import', 'numpy'),
           'Card': (1, 'card'), 'Player': (1, 'player'), 'Suit': (1, 'suit')}
BUILTINS = ('len', 'int', 'list', 'set', 'dict', 'tuple', 'sorted', 'range', 'str', 'isinstance')
EXCEPTIONS = gen_play.EXCEPTIONS
ENUMS = {c: gen_auction.ENUMS[c] for c in ('Player', 'Suit')}
ENUM_TY = {'Player': 'seat', 'Suit': 'strain'}
DATACLASSES = {'Card': gen_play.DATACLASSES['Card']}
ANN = {'Player': 'seat', 'Suit': 'strain', 'Card': 'card', 'Set[Card]': 'set:card', 'List[Card]': 'list:card',
       'str': 'str', 'int': 'nat', 'bool': 'bool', 'Hands': 'hands', 'List[str]': 'list:str', 'List[int]': 'list:nat',
       'Tuple[int, ...]': 'tuple:nat', 'Dict[Player, Tuple[int, ...]]': 'dict:seat:tuple:nat',
       'Dict[Player, Set[Card]]': 'dict:seat:set:card'}
BASE_COQ = {'nat': 'nat', 'str': 'string', 'bool': 'bool', 'seat': 'seat', 'strain': 'strain', 'suit': 'suit',
            'card': 'card', 'hands': 'py_hands'}
BEQ = {'seat': 'seat_beq', 'strain': 'strain_beq', 'suit': 'suit_beq'}
# members of Hands that are not translated: name -> (decorators, parameters, result annotation, body), exact text
LOCAL_PINS = {
    '__eq__': ([], 'self, other', 'bool',
               "if not isinstance(other, Hands):\n"
               "    raise TypeError('Hands object is comparable only with Hands object.')\n"
               "return (self.north == other.north) and (self.east == other.east) and (\n"
               "        self.south == other.south) and (self.west == other.west)"),
    'to_np_binary': ([], 'self, dtype: np.dtype=np.int32', 'Dict[Player, np.ndarray]',
                     "binaries = dict()\nfor p in Player:\n    binary = np.zeros(52, dtype=dtype)\n"
                     "    binary[[int(card) for card in self[p]]] = 1\n    binaries[p] = binary\nreturn binaries"),
    'convert_np_binary': (['classmethod'], 'cls, binary_hands: Dict[Player, np.ndarray]', 'Hands',
                          "north_idxes = np.where(binary_hands[Player.N] == 1)[0]\n"
                          "east_idxes = np.where(binary_hands[Player.E] == 1)[0]\n"
                          "south_idxes = np.where(binary_hands[Player.S] == 1)[0]\n"
                          "west_idxes = np.where(binary_hands[Player.W] == 1)[0]\n"
                          "return Hands(\n"
                          "    north_hand={Card.int_to_card(int(idx)) for idx in north_idxes},\n"
                          "    east_hand={Card.int_to_card(int(idx)) for idx in east_idxes},\n"
                          "    south_hand={Card.int_to_card(int(idx)) for idx in south_idxes},\n"
                          "    west_hand={Card.int_to_card(int(idx)) for idx in west_idxes})"),
    'convert_pbn': (['classmethod'], 'cls, pbn_hands: str', 'Hands',
                    "match = re.match(DEAL_PATTERN, pbn_hands)\n"
                    "if not match:\n"
                    "    raise Exception(f'Parse exception. \"{pbn_hands}\" does not match '\n"
                    "                    f'the pattern.')\n"
                    "player = Player[match.group(1)]\n"
                    "hands = dict()\n"
                    "for i in range(2, 2 + 4):\n"
                    "    hands[player] = cls._hand_parser(match.group(i))\n"
                    "    player = player.next_player\n"
                    "return Hands(north_hand=hands[Player.N],\n"
                    "             east_hand=hands[Player.E],\n"
                    "             south_hand=hands[Player.S],\n"
                    "             west_hand=hands[Player.W])"),
    '_hand_parser': (['staticmethod'], 'pbn_hand: str', 'Set[Card]',
                     "cards: Set[Card] = set()\n"
                     "if pbn_hand == '-':\n"
                     "    return cards\n"
                     "match = re.match(HAND_PATTERN, pbn_hand)\n"
                     "if not match:\n"
                     "    raise Exception(f'Parse exception. \"{pbn_hand}\" does not match '\n"
                     "                    f'the pattern.')\n"
                     "mapped_ranks = {Suit.S: match.group(1),\n"
                     "                Suit.H: match.group(2),\n"
                     "                Suit.D: match.group(3),\n"
                     "                Suit.C: match.group(4)}\n"
                     "\n"
                     "for suit, rank in mapped_ranks.items():\n"
                     "    for r in rank:\n"
                     "        cards.add(Card(Card.rank_str_to_int(r), suit))\n"
                     "return cards"),
}
# library members relied on: (file, class, name) -> (decorators, parameters, body); Model/Basics.v models exactly this text
PINS = {k: gen_pbnw.PINS[k] for k in (('bridge_env/player.py', 'Player', 'next_player'),
                                      ('bridge_env/player.py', 'Player', 'left'),
                                      ('bridge_env/player.py', 'Player', '__str__'),
                                      ('bridge_env/card.py', 'Card', '__post_init__'),
                                      ('bridge_env/card.py', 'Card', '__int__'),
                                      ('bridge_env/card.py', 'Card', '__lt__'),
                                      ('bridge_env/card.py', 'Card', 'rank_int_to_str'))}
PINS[('bridge_env/player.py', 'Player', 'partner')] = gen_play.PINS[('bridge_env/player.py', 'Player', 'partner')]
PINS[('bridge_env/card.py', 'Card', 'int_to_card')] = \
    (['classmethod'], 'cls, x: int', "if x < 0 or 51 < x:\n    raise ValueError('card int is from 0 to 51')\n"
                                     "return Card(x % 13 + 2, Suit(x // 13 + 1))")
# what has to be pinned for a use
NEEDS = {
    'seat': [('enum', 'Player')],
    'strain': [('enum', 'Suit')],
    'str:seat': [('enum', 'Player'), ('bridge_env/player.py', 'Player', '__str__')],
    'next_player': [('enum', 'Player'), ('bridge_env/player.py', 'Player', 'next_player'),
                    ('bridge_env/player.py', 'Player', 'left')],
    'partner': [('enum', 'Player'), ('bridge_env/player.py', 'Player', 'partner')],
    'card': [('enum', 'Suit'), ('dc', 'Card')],
    'int:card': [('enum', 'Suit'), ('dc', 'Card'), ('bridge_env/card.py', 'Card', '__int__')],
    'sorted:card': [('enum', 'Suit'), ('dc', 'Card'), ('bridge_env/card.py', 'Card', '__int__'),
                    ('bridge_env/card.py', 'Card', '__lt__')],
    'rank_int_to_str': [('dc', 'Card'), ('bridge_env/card.py', 'Card', 'rank_int_to_str')],
    'int_to_card': [('enum', 'Suit'), ('dc', 'Card'), ('bridge_env/card.py', 'Card', 'int_to_card')],
}

PRELUDE = '''(* this file: harness/gen_hands.py.  One Definition per translated method of class Hands, callees first; None = the
   method raises.  s: the object; v_<name>: the Python parameter or local <name>; x'N: a value bound by a match.
   Sets of cards are lists read as sets, integers are naturals, a dict is the list of its items (see the translator).
   Not translated, pinned by exact text: __eq__, to_np_binary, convert_np_binary, convert_pbn, _hand_parser, the pattern
   literals; pinned in the library: the enums Player and Suit, Player.__str__ / next_player / left / partner, Card (frozen
   dataclass, __post_init__, __int__, __lt__, rank_int_to_str, int_to_card) - as far as the source uses them. *)
From Coq Require Import List Arith Bool String Ascii.
From BE Require Import Model.Hands.
Import ListNotations.
Local Open Scope string_scope.
Local Open Scope nat_scope.
Local Open Scope list_scope.
Local Infix "+++" := String.append (right associativity, at level 60).
(* fixed prelude - the object: one field per attribute *)
Record py_hands := mkHands { h_north : list card; h_east : list card; h_south : list card; h_west : list card }.
(* fixed prelude - `for x in l: body` over the loop-carried locals st; None = the body raises *)
Fixpoint py_for {A S : Type} (body : A -> S -> option S) (l : list A) (st : S) : option S :=
  match l with [] => Some st | x :: r => match body x st with None => None | Some st' => py_for body r st' end end.
(* fixed prelude - a list comprehension: what one element of the (outer) iterable contributes, in order *)
Fixpoint py_comp {A B : Type} (f : A -> option (list B)) (l : list A) : option (list B) :=
  match l with
  | [] => Some []
  | x :: r => match f x with None => None | Some a => match py_comp f r with None => None | Some b => Some (a ++ b) end end
  end.
(* fixed prelude - L[i] = v ; None = IndexError *)
Fixpoint py_list_set {A : Type} (i : nat) (v : A) (l : list A) : option (list A) :=
  match l, i with
  | [], _ => None
  | _ :: r, O => Some (v :: r)
  | x :: r, S i' => match py_list_set i' v r with Some r' => Some (x :: r') | None => None end
  end.
(* fixed prelude - L[a:b] for natural a, b *)
Definition py_slice {A : Type} (a b : nat) (l : list A) : list A := firstn (b - a) (skipn a l).
(* fixed prelude - a dict: its items in insertion order; d[k] (None = KeyError) and d[k] = v *)
Fixpoint py_dict_get {K V : Type} (eqb : K -> K -> bool) (k : K) (d : list (K * V)) : option V :=
  match d with [] => None | (k', v) :: r => if eqb k k' then Some v else py_dict_get eqb k r end.
Fixpoint py_dict_set {K V : Type} (eqb : K -> K -> bool) (k : K) (v : V) (d : list (K * V)) : list (K * V) :=
  match d with
  | [] => [(k, v)]
  | (k', v') :: r => if eqb k k' then (k', v) :: r else (k', v') :: py_dict_set eqb k v r
  end.
(* fixed prelude - Card(rank, suit): the pinned __post_init__ raises unless 2 <= rank <= 14 and the suit is not NT *)
Definition py_card (rank : nat) (su : strain) : option card :=
  match rank_of_val rank, su with Some r, Tr x => Some (mkcard r x) | _, _ => None end.
(* fixed prelude - Card.rank_int_to_str (pinned): raises outside 2..14, else the text rank_str of Model/Basics.v *)
Definition py_rank_int_to_str (n : nat) : option string :=
  match rank_of_val n with Some r => Some (rank_str r) | None => None end.
'''

_SRC = {}            # overrides for sensitivity studies: relative path -> file to read instead of the one under the repository


def parse(rel):
    if rel in _SRC:
        try:
            return ast.parse(open(_SRC[rel]).read())
        except (OSError, SyntaxError, ValueError) as e:
            raise Untranslatable(f'{rel}: {e}')
    return gen.parse(rel)


def is_doc(s):
    return isinstance(s, ast.Expr) and isinstance(s.value, ast.Constant) and isinstance(s.value.value, str)


def self_attr(n):
    if isinstance(n, ast.Attribute) and isinstance(n.value, ast.Name) and n.value.id == 'self':
        return n.attr
    return None


def coqty(ty):
    if ty in BASE_COQ:
        return BASE_COQ[ty]
    if ty == '?':
        return '_'
    kind, _, rest = ty.partition(':')
    if kind in ('list', 'set', 'tuple'):
        return f'list ({coqty(rest)})' if ':' in rest else f'list {coqty(rest)}'
    if kind == 'dict':
        k, _, v = rest.partition(':')
        return f'list ({coqty(k)} * {coqty(v)})'
    raise KeyError(ty)


def elem(ty):
    kind, _, rest = ty.partition(':')
    return rest if kind in ('list', 'set', 'tuple') else None


def mutable(ty):
    return ty.partition(':')[0] in ('list', 'set', 'dict')


def unify(a, b):
    """The common refinement of two types ('?' = not known yet), or None."""
    if a == '?':
        return b
    if b == '?' or a == b:
        return a
    ka, _, ra = a.partition(':')
    kb, _, rb = b.partition(':')
    if ka != kb or not ra or not rb:
        return None
    if ka == 'dict':
        k1, _, v1 = ra.partition(':')
        k2, _, v2 = rb.partition(':')
        k, v = unify(k1, k2), unify(v1, v2)
        return None if k is None or v is None else f'dict:{k}:{v}'
    r = unify(ra, rb)
    return None if r is None else f'{ka}:{r}'


class E:
    """Translated expression: Gallina `term`, its type, the pending option binds [(pattern, option term)] in evaluation
    order (a None among them = Python raises); fresh: the value is a new object (may be bound to a name when mutable);
    stable: an object that no translated method mutates (a parameter, an attribute, the result of a method: may be stored
    in a container, not bound to a second name); fromset: a list that is the elements of a set (no duplicates)."""
    def __init__(self, term, ty, binds=(), fresh=False, fromset=False, stable=False):
        self.term, self.ty, self.binds, self.fresh, self.fromset, self.stable = term, ty, list(binds), fresh, fromset, stable


class Sig:
    def __init__(self, name, kind, params, defaults, ret):
        self.name, self.kind, self.params, self.defaults, self.ret = name, kind, params, defaults, ret


class Translator:
    def __init__(self, tree, raw):
        self.tree, self.raw = tree, raw
        self.imports = {}
        self.pinned, self.n = set(), 0
        self.sigs, self.active, self.out = {}, [], []
        self.used_enums, self.uses_player_names = [], False
        self.shuffled, self.params, self.loopdepth, self.in_return = None, set(), 0, False
        self.structure()

    def bad(self, node, msg):
        raise Untranslatable(f'{REL}:{getattr(node, "lineno", "?")}: {msg} [{ast.unparse(node)[:70]!r}]')

    def fresh(self, base='x'):
        self.n += 1
        return f"{base}'{self.n}"

    # ---------------------------------------------------------------- the module and the class
    def structure(self):
        cls, seen = None, []
        for i, node in enumerate(self.tree.body):
            if isinstance(node, ast.Import):
                for a in node.names:
                    name = a.asname or a.name
                    if name in self.imports:
                        self.bad(node, f'{name} is imported twice')
                    self.imports[name] = 'import' if a.asname is None else ('import', a.name)
            elif isinstance(node, ast.ImportFrom):
                for a in node.names:
                    name = a.asname or a.name
                    if name in self.imports or a.name == '*':
                        self.bad(node, f'{name} is imported twice (or a star import)')
                    self.imports[name] = (node.level, node.module) if a.asname is None else None
            elif isinstance(node, ast.ClassDef):
                if node.name != CLASS or cls is not None or node.bases or node.keywords or node.decorator_list:
                    self.bad(node, f'class {node.name} is outside the subset (or Hands has bases / decorators / is defined twice)')
                cls = node
            elif isinstance(node, ast.Assign) and len(node.targets) == 1 and isinstance(node.targets[0], ast.Name) and \
                    node.targets[0].id in PATTERNS and node.targets[0].id not in seen and \
                    ast.dump(node.value) == ast.dump(ast.parse(PATTERNS[node.targets[0].id], mode='eval').body):
                seen.append(node.targets[0].id)         # (the literals are also in Gen/Regexes.v, pinned by Proofs/Pins.v)
            elif not (i == 0 and is_doc(node)):
                self.bad(node, 'module-level statement outside the subset')
        if cls is None:
            raise Untranslatable(f'{REL}: class {CLASS} not found')
        if seen != list(PATTERNS):
            raise Untranslatable(f'{REL}: the pattern literals {list(PATTERNS)} are not each assigned once, in this order, with the pinned text')
        if self.imports != IMPORTS:
            diff = sorted(set(self.imports.items()) ^ set(IMPORTS.items()), key=str)
            raise Untranslatable(f'{REL}: the imports are not those of the subset: {diff}')
        self.cls = cls
        self.members = {}
        for m in cls.body:
            if is_doc(m):
                continue
            if not isinstance(m, ast.FunctionDef) or m.name in self.members:
                self.bad(m, 'class-level statement outside the subset (or a member defined twice)')
            if m.name not in NAMES and m.name not in LOCAL_PINS:
                self.bad(m, f'{CLASS}.{m.name} is outside the subset')
            self.members[m.name] = m
        for name in list(NAMES) + list(LOCAL_PINS):
            if name not in self.members:
                raise Untranslatable(f'{REL}: {CLASS}.{name} not found')
        # the members that are not translated: exact text, on the tree as it was read (before the normal forms)
        rawcls = [c for c in self.raw.body if isinstance(c, ast.ClassDef) and c.name == CLASS][0]
        for name, (decos, params, ret, body) in LOCAL_PINS.items():
            found = [m for m in rawcls.body if isinstance(m, ast.FunctionDef) and m.name == name]
            if len(found) != 1:
                raise Untranslatable(f'{REL}: {CLASS}.{name} not found (or defined twice)')
            m = found[0]
            if (None if m.returns is None else ast.unparse(m.returns)) != ret:
                self.bad(m, f'{CLASS}.{name} is not the pinned text (result annotation)')
            self.same_text(m, decos, params, body, m, f'{CLASS}.{name} is not the pinned text (it is not translated: any edit is refused)')

    def same_text(self, m, decos, params, body, node, msg):
        got = [s for s in m.body if not is_doc(s)]
        if [ast.unparse(d) for d in m.decorator_list] != decos or ast.unparse(m.args) != params or \
                gen.alpha_dump(got) != gen.alpha_dump(ast.parse(body).body):
            self.bad(node, msg)

    # ---------------------------------------------------------------- pins
    def need(self, kind, node):
        for key in NEEDS[kind]:
            if key in self.pinned:
                continue
            if key[0] == 'enum':
                self.enum(key[1], node)
            elif key[0] == 'dc':
                self.dataclass(key[1], node)
            else:
                self.pin(key, node)
            self.pinned.add(key)

    def find_class(self, rel, cls, node):
        found = [c for c in parse(rel).body if isinstance(c, ast.ClassDef) and c.name == cls]
        if len(found) != 1:
            self.bad(node, f'{rel}: class {cls} not found (or defined twice)')
        return found[0]

    def pin(self, key, node):
        rel, cls, name = key
        decos, params, body = PINS[key]
        found = [m for m in self.find_class(rel, cls, node).body if isinstance(m, ast.FunctionDef) and m.name == name]
        if len(found) != 1:
            self.bad(node, f'{rel}: {cls}.{name} not found (or defined twice)')
        self.same_text(found[0], decos, params, body, node, f'{rel}: {cls}.{name} is not the text the model was written against')

    def enum(self, cls, node):
        rel, _, members, _ = ENUMS[cls]
        if self.imports.get(cls) != IMPORTS[cls]:
            self.bad(node, f'{cls} is not imported from its module')
        c = self.find_class(rel, cls, node)
        if [ast.unparse(b) for b in c.bases] != ['Enum'] or c.keywords or c.decorator_list or \
                any(isinstance(m, ast.FunctionDef) and m.name in ('__eq__', '__ne__', '__hash__', '__format__', '__new__', '__iter__',
                                                                 '__getattribute__', '__getattr__', '_missing_') for m in c.body):
            self.bad(node, f'{rel}: {cls} is not a plain Enum')
        got = [(st.targets[0].id, st.value.value) for st in c.body if isinstance(st, ast.Assign) and len(st.targets) == 1
               and isinstance(st.targets[0], ast.Name) and isinstance(st.value, ast.Constant) and type(st.value.value) in (int, str)]
        if len(got) != sum(isinstance(st, (ast.Assign, ast.AnnAssign, ast.AugAssign)) for st in c.body):
            self.bad(node, f'{rel}: {cls} has a member that is not a literal')
        if got != members:
            self.bad(node, f'{rel}: the members of {cls} are not those modelled in Model/Basics.v')
        ok = [x for x in parse(rel).body if isinstance(x, ast.ImportFrom) and any((a.asname or a.name) == 'Enum' for a in x.names)]
        if len(ok) != 1 or ok[0].module != 'enum' or ok[0].level != 0 or any(a.asname is not None for a in ok[0].names):
            self.bad(node, f'{rel}: Enum is not imported from enum')

    def dataclass(self, cls, node):
        rel, fields = DATACLASSES[cls]
        if self.imports.get(cls) != IMPORTS[cls]:
            self.bad(node, f'{cls} is not imported from its module')
        c = self.find_class(rel, cls, node)
        got = [(s.target.id, ast.unparse(s.annotation), None if s.value is None else ast.unparse(s.value))
               for s in c.body if isinstance(s, ast.AnnAssign) and isinstance(s.target, ast.Name)]
        if got != fields or [ast.unparse(d) for d in c.decorator_list] != ['dataclass(frozen=True)'] or c.bases or c.keywords \
                or any(isinstance(s, ast.FunctionDef) and s.name in ('__init__', '__new__', '__eq__', '__hash__', '__getattr__',
                                                                     '__getattribute__', '__format__', '__index__') for s in c.body):
            self.bad(node, f'{rel}: the dataclass {cls} is not the one modelled in Model/Basics.v')
        self.pin((rel, cls, '__post_init__'), node)

    def use_type(self, ty, node):
        for part in ty.split(':'):
            if part in ('seat', 'strain'):
                self.need(part, node)
            elif part in ('card', 'suit'):
                self.need('card', node)

    def members_of(self, cls, node):
        """The list of members of an Enum class, in definition order, as a named table of the generated file."""
        self.need(ENUM_TY[cls], node)
        if cls not in self.used_enums:
            self.used_enums.append(cls)
        return f'py_{cls}_members'

    # ---------------------------------------------------------------- methods
    def run(self):
        for name in ORDER:
            self.method(name, self.members[name])
        return self.out

    def local(self, node, name):
        if name in BUILTINS or name in self.imports or name in PATTERNS or name in (CLASS, 'self', 'cls') or name in EXCEPTIONS:
            self.bad(node, f'local name {name} rebinds a global, a builtin, self or cls')
        if not name.isidentifier() or not name.isascii():
            self.bad(node, f'local name {name} is outside the subset')
        return name

    def annotation(self, a, node):
        if a is None or ast.unparse(a) not in ANN:
            self.bad(node, 'annotation missing or outside the subset')
        ty = ANN[ast.unparse(a)]
        self.use_type(ty, node)
        return ty

    def method(self, name, fd):
        if name in self.sigs:
            return self.sigs[name]
        if name in self.active:
            self.bad(fd, f'recursion through {name} is outside the subset')
        self.active.append(name)
        saved = self.n, getattr(self, 'cur', None), getattr(self, 'curname', None), self.params, self.loopdepth
        self.n, self.cur, self.curname = 0, None, name
        a = fd.args
        decos = [ast.unparse(d) for d in fd.decorator_list]
        kind = {(): 'self', ('staticmethod',): 'static', ('classmethod',): 'cls'}.get(tuple(decos))
        if kind is None or a.posonlyargs or a.kwonlyargs or a.vararg or a.kwarg or a.kw_defaults:
            self.bad(fd, 'decorators or special parameters outside the subset')
        args = list(a.args)
        if kind != 'static':
            if not args or args[0].arg != kind or args[0].annotation is not None:
                self.bad(fd, f'the first parameter is not {kind}')
            args = args[1:]
        params = [(self.local(p, p.arg), self.annotation(p.annotation, p)) for p in args]
        if len({p for p, _ in params}) != len(params):
            self.bad(fd, 'a parameter name is repeated')
        defaults = {}
        for p, d in zip(args[len(args) - len(a.defaults):], a.defaults):
            e = self.expr(d, {})
            if e.binds or e.ty not in ('seat', 'strain') or unify(e.ty, dict(params)[p.arg]) is None:
                self.bad(d, 'default value outside the subset (an Enum member of the type of the parameter)')
            defaults[p.arg] = e.term
        body = fd.body[1:] if is_doc(fd.body[0]) else fd.body
        if not body:
            self.bad(fd, 'empty body')
        if name == '__init__':
            sig = self.init(fd, params, defaults, body)
        else:
            ret = self.annotation(fd.returns, fd)
            sig = Sig(NAMES[name], kind, params, defaults, ret)
            self.cur = sig
            self.params = {p for p, _ in params}
            self.loopdepth = 0

            def fin(env, ind):
                self.bad(fd, 'the method can fall off its end (returns None) although it is annotated with a result')
            term = self.seq(body, dict(params), fin, '  ')
            binder = ' '.join((['(s : py_hands)'] if kind == 'self' else []) + [f'(v_{p} : {coqty(t)})' for p, t in params] +
                              (['(shuffle : list card -> list card)'] if self.shuffled == name else []))
            for p, t in defaults.items():
                self.out.append(f'(* {CLASS}.{name}: the default of the parameter {p} *)\n'
                                f'Definition {NAMES[name]}_default_{p} : {coqty(dict(params)[p])} := {t}.')
            self.out.append(f'(* {CLASS}.{name} *)\nDefinition {NAMES[name]}{" " if binder else ""}{binder} : option ({coqty(ret)}) :=\n{term}.')
        self.active.pop()
        self.n, self.cur, self.curname, self.params, self.loopdepth = saved
        self.sigs[name] = sig
        return sig

    def init(self, fd, params, defaults, body):
        """__init__: `self.<attribute> = <parameter>`, each attribute of the table once, nothing else."""
        if defaults or not (fd.returns is None or (isinstance(fd.returns, ast.Constant) and fd.returns.value is None)):
            self.bad(fd, '__init__ with defaults or a result annotation')
        field = {}
        for s in body:
            if isinstance(s, ast.Pass):
                continue
            t = s.targets[0] if isinstance(s, ast.Assign) and len(s.targets) == 1 else None
            if t is None or self_attr(t) not in dict(ATTRS) or self_attr(t) in field or not isinstance(s.value, ast.Name) or \
                    s.value.id not in dict(params):
                self.bad(s, '__init__ may only store a parameter in an attribute of the table, each attribute once')
            if dict(params)[s.value.id] != 'set:card':
                self.bad(s, 'the attributes hold sets of cards')
            field[self_attr(t)] = s.value.id
        if set(field) != set(dict(ATTRS)):
            self.bad(fd, '__init__ does not store every attribute of the table')
        binder = ' '.join(f'(v_{p} : {coqty(t)})' for p, t in params)
        self.out.append(f'(* {CLASS}.__init__ *)\nDefinition g_init {binder} : py_hands :=\n  mkHands ' +
                        ' '.join('v_' + field[a] for a, _ in ATTRS) + '.')
        return Sig('g_init', 'init', params, {}, 'hands')

    # ---------------------------------------------------------------- statements
    def seq(self, ss, env, fin, ind):
        """Gallina (an option) for: run ss, then fin(env, indentation).  env: local -> type."""
        if not ss:
            return fin(env, ind)
        s, rest = ss[0], ss[1:]
        if isinstance(s, ast.Pass) or is_doc(s):
            return self.seq(rest, env, fin, ind)
        if isinstance(s, ast.Assert):
            if s.msg is not None:
                self.bad(s, 'assert with a message is outside the subset')
            c = self.expr(s.test, env, 'bool')
            return self.bound(c, ind, lambda i: f'{i}if {c.term} then\n' + self.seq(rest, env, fin, i + '  ') + f'\n{i}else None')
        if isinstance(s, ast.Return):
            if rest:
                self.bad(rest[0], 'statement after a return')
            if self.loopdepth:
                self.bad(s, 'return inside a loop is outside the subset')
            if s.value is None:
                self.bad(s, 'return without a value')
            self.in_return = True                   # nothing runs after the returned expression: it may mention any local
            e = self.expr(s.value, env)
            self.in_return = False
            if unify(e.ty, self.cur.ret) is None or '?' in unify(e.ty, self.cur.ret):
                self.bad(s, f'the returned value is a {e.ty}, the annotation says {self.cur.ret}')
            return self.bound(e, ind, lambda i: f'{i}Some {e.term}')
        if isinstance(s, ast.Raise):
            if rest:
                self.bad(rest[0], 'statement after a raise')
            x = s.exc
            if s.cause is not None or not (isinstance(x, ast.Call) and isinstance(x.func, ast.Name) and x.func.id in EXCEPTIONS
                                            and x.func.id not in env and not x.keywords and
                                            all(isinstance(a, ast.Constant) and type(a.value) is str for a in x.args)):
                self.bad(s, 'raise other than <builtin exception>(<string literals>)')
            return f'{ind}None'
        if isinstance(s, (ast.Assign, ast.AnnAssign)):
            return self.assign(s, rest, env, fin, ind)
        if isinstance(s, ast.Expr) and isinstance(s.value, ast.Call):
            return self.call_stmt(s, rest, env, fin, ind)
        if isinstance(s, ast.If):
            c = self.expr(s.test, env, 'bool')
            after = lambda e, i: self.seq(rest, e, fin, i)
            return self.bound(c, ind, lambda i: f'{i}if {c.term} then\n' + self.seq(s.body, dict(env), after, i + '  ') +
                              f'\n{i}else\n' + self.seq(s.orelse, dict(env), after, i + '  '))
        if isinstance(s, ast.For):
            return self.for_stmt(s, rest, env, fin, ind)
        self.bad(s, f'statement {type(s).__name__} is outside the subset')

    def bound(self, e, ind, k):
        """Statement-level bind of e's pending options around the text k(indent)."""
        if not e.binds:
            return k(ind)
        pat, o = e.binds[0]
        inner = self.bound(E(e.term, e.ty, e.binds[1:]), ind, k)
        return f'{ind}match {o} with None => None | Some {pat} =>\n{inner} end'

    def bind_name(self, s, v, e, env):
        """The environment after `v = e`."""
        if mutable(e.ty) and not e.fresh:
            self.bad(s, f'a {e.ty} bound to a name must be a new object (a second name for a mutable object is outside the subset)')
        ty = e.ty if v not in env else unify(env[v], e.ty)
        if ty is None:
            self.bad(s, f'local {v} must keep one type ({env[v]}, not {e.ty})')
        if v in self.params and mutable(ty):
            self.bad(s, f'rebinding the mutable parameter {v} is outside the subset')
        return {**env, v: ty}

    def assign(self, s, rest, env, fin, ind):
        t = s.targets[0] if isinstance(s, ast.Assign) and len(s.targets) == 1 else getattr(s, 'target', None)
        if s.value is None:
            self.bad(s, 'annotation without a value')
        if isinstance(t, ast.Name):
            v = self.local(s, t.id)
            if isinstance(s.value, ast.IfExp):             # x = a if c else b  is  if c: x = a  else: x = b
                mk = lambda val: ast.copy_location(ast.Assign(targets=[t], value=val, type_comment=None), s)
                new = ast.copy_location(ast.If(test=s.value.test, body=[mk(s.value.body)], orelse=[mk(s.value.orelse)]), s)
                return self.seq([ast.fix_missing_locations(new)] + rest, env, fin, ind)
            e = self.expr(s.value, env)
            if isinstance(s, ast.AnnAssign):
                want = self.annotation(s.annotation, s)
                u = unify(e.ty, want)
                if u is None or not s.simple:
                    self.bad(s, f'the annotation says {want}, the value is a {e.ty}')
                e = E(e.term, u, e.binds, e.fresh, e.fromset)
            env2 = self.bind_name(s, v, e, env)
            return self.bound(e, ind, lambda i: f'{i}let v_{v} := {e.term} in\n' + self.seq(rest, env2, fin, i))
        if isinstance(t, ast.Subscript) and isinstance(t.value, ast.Name) and isinstance(s, ast.Assign):
            v = self.mutated(s, t.value.id, env)
            val = self.expr(s.value, env)                   # Python: the right-hand side first, then the index
            idx = self.expr(t.slice, env)
            if mutable(val.ty) and not (val.fresh or val.stable):
                self.bad(s, 'a mutable object stored in a container must be a new object')
            kind = env[v].partition(':')[0]
            if kind == 'list' and idx.ty == 'nat':
                ty = unify(env[v], 'list:' + val.ty)
                if ty is None:
                    self.bad(s, f'a {val.ty} stored in a {env[v]}')
                x = self.fresh()
                both = E('', '', val.binds + idx.binds + [(x, f'py_list_set {idx.term} {val.term} v_{v}')])
                return self.bound(both, ind, lambda i: f'{i}let v_{v} := {x} in\n' + self.seq(rest, {**env, v: ty}, fin, i))
            if kind == 'dict':
                ty = unify(env[v], f'dict:{idx.ty}:{val.ty}')
                if ty is None or idx.ty not in BEQ:
                    self.bad(s, f'a {val.ty} stored under a {idx.ty} in a {env[v]}')
                both = E('', '', val.binds + idx.binds)
                return self.bound(both, ind, lambda i: f'{i}let v_{v} := py_dict_set {BEQ[idx.ty]} {idx.term} {val.term} v_{v} in\n' +
                                  self.seq(rest, {**env, v: ty}, fin, i))
            self.bad(s, f'item store into a {env[v]} with a {idx.ty} index is outside the subset')
        self.bad(s, 'assignment target outside the subset (a local name, or an item of a local list / dict)')

    def mutated(self, node, v, env):
        if v not in env or v in self.params or not mutable(env[v]):
            self.bad(node, f'{v} is not a local list / set / dict (parameters and attributes are not mutated)')
        return v

    def call_stmt(self, s, rest, env, fin, ind):
        n = s.value
        f = n.func
        if n.keywords or len(n.args) != 1 or isinstance(n.args[0], ast.Starred) or not isinstance(f, ast.Attribute) or \
                not isinstance(f.value, ast.Name):
            self.bad(s, 'statement call outside the subset')
        if f.value.id == 'random' and f.attr == 'shuffle' and 'random' not in env and isinstance(n.args[0], ast.Name):
            v = self.mutated(s, n.args[0].id, env)
            if unify(env[v], 'list:card') is None:
                self.bad(s, 'random.shuffle of anything but a list of cards is outside the subset')
            if self.loopdepth or self.shuffled is not None:
                self.bad(s, 'more than one random.shuffle (or one in a loop) is outside the subset')
            self.shuffled = self.curname
            return f'{ind}let v_{v} := shuffle v_{v} in\n' + self.seq(rest, {**env, v: 'list:card'}, fin, ind)
        v = self.mutated(s, f.value.id, env)
        e = self.expr(n.args[0], env)
        if mutable(e.ty) and not (e.fresh or e.stable):
            self.bad(s, 'a mutable object stored in a container must be a new object')
        kind = env[v].partition(':')[0]
        if f.attr == 'append' and kind == 'list':
            ty, new = unify(env[v], 'list:' + e.ty), f'v_{v} ++ [{e.term}]'
        elif f.attr == 'add' and kind == 'set':
            ty, new = unify(env[v], 'set:' + e.ty), f'{e.term} :: v_{v}'
        else:
            self.bad(s, f'{f.attr} on a {env[v]} is outside the subset')
        if ty is None:
            self.bad(s, f'a {e.ty} put into a {env[v]}')
        return self.bound(e, ind, lambda i: f'{i}let v_{v} := {new} in\n' + self.seq(rest, {**env, v: ty}, fin, i))

    def assigned(self, ss, acc):
        """Names assigned or mutated in a statement list, in order of first occurrence."""
        def add(v):
            if v not in acc:
                acc.append(v)
        for s in ss:
            if isinstance(s, (ast.Assign, ast.AnnAssign, ast.AugAssign)):
                for t in (s.targets if isinstance(s, ast.Assign) else [s.target]):
                    while isinstance(t, ast.Subscript):
                        t = t.value
                    if isinstance(t, ast.Name):
                        add(t.id)
                    else:
                        self.bad(s, 'assignment target outside the subset')
            elif isinstance(s, ast.Expr) and isinstance(s.value, ast.Call):
                f = s.value.func
                if isinstance(f, ast.Attribute) and isinstance(f.value, ast.Name):
                    if f.value.id == 'random' and s.value.args and isinstance(s.value.args[0], ast.Name):
                        add(s.value.args[0].id)
                    else:
                        add(f.value.id)
            elif isinstance(s, ast.If):
                self.assigned(s.body + s.orelse, acc)
            elif isinstance(s, ast.For):
                if isinstance(s.target, ast.Name):
                    add(s.target.id)
                self.assigned(s.body + s.orelse, acc)
        return acc

    def iterable(self, n, env):
        """(list term, element type, binds) of what a for clause runs over."""
        if isinstance(n, ast.Name) and n.id in ENUMS and n.id not in env:
            return E(self.members_of(n.id, n), 'list:' + ENUM_TY[n.id])
        if isinstance(n, ast.Call) and isinstance(n.func, ast.Name) and n.func.id == 'range' and 'range' not in env:
            if n.keywords or not 1 <= len(n.args) <= 2 or any(isinstance(a, ast.Starred) for a in n.args):
                self.bad(n, 'range with other than one or two arguments is outside the subset')
            es = [self.expr(a, env, 'nat') for a in n.args]
            binds = [b for e in es for b in e.binds]
            if len(es) == 1:
                return E(f'(seq 0 {es[0].term})', 'list:nat', binds)
            return E(f'(seq {es[0].term} ({es[1].term} - {es[0].term}))', 'list:nat', binds)     # empty when b <= a, as range
        e = self.expr(n, env)
        if elem(e.ty) in (None, '?'):
            self.bad(n, f'iteration over a {e.ty} is outside the subset')
        self.whole_set(e, n, 'iteration over')
        return e

    def for_stmt(self, s, rest, env, fin, ind):
        if s.orelse or not isinstance(s.target, ast.Name):
            self.bad(s, 'for .. else / a loop target that is not one name is outside the subset')
        for x in ast.walk(s):
            if isinstance(x, (ast.Break, ast.Continue)):
                self.bad(x, 'break / continue is outside the subset')
        t = self.local(s, s.target.id)
        if t in env:
            self.bad(s, f'the loop variable {t} is already bound')
        names = self.assigned(s.body, [])
        if t in names:
            self.bad(s, f'the loop variable {t} is assigned in the loop')
        carried = [v for v in names if v in env]
        if not carried:
            self.bad(s, 'a loop that carries no local is outside the subset')
        if any(isinstance(x, ast.Name) and x.id in carried for x in ast.walk(s.iter)):
            self.bad(s, 'the iterable mentions a local that the loop changes')
        it = self.iterable(s.iter, env)
        tup = 'v_' + carried[0] if len(carried) == 1 else '(' + ', '.join('v_' + v for v in carried) + ')'
        after = {}

        def again(env2, ind):
            for v in carried:
                u = unify(env2[v], env[v])
                if u is None:
                    self.bad(s, f'{v} changes its type in the loop')
                after[v] = unify(after.get(v, '?'), u)
                if after[v] is None:
                    self.bad(s, f'{v} has no single type after the loop body')
            return f'{ind}Some {tup}'
        self.loopdepth += 1
        n0 = self.n
        env1 = {**env, t: elem(it.ty)}
        body = self.seq(s.body, env1, again, ind + '      ')
        self.loopdepth -= 1
        # a container whose element type became known in the body has that type from the start
        if any(after[v] != env[v] for v in carried):
            env = {**env, **after}
            self.loopdepth += 1
            after.clear()
            self.n = n0
            body = self.seq(s.body, {**env, t: elem(it.ty)}, again, ind + '      ')
            self.loopdepth -= 1
            if any(after[v] != env[v] for v in carried):
                self.bad(s, 'the types of the loop-carried locals do not settle')
        head = f"(fun v_{t} {tup} =>" if len(carried) == 1 else f"(fun v_{t} st' => let '{tup} := st' in"
        return self.bound(it, ind, lambda i: f'{i}match py_for {head}\n{body})\n{i}    {it.term} {tup} with None => None | Some {tup} =>\n' +
                          self.seq(rest, env, fin, i) + ' end')

    # ---------------------------------------------------------------- expressions
    def expr(self, n, env, want=None):
        e = self.expr1(n, env)
        if want is not None:
            if want == 'strain' and e.ty == 'suit':
                e = E(f'(Tr {e.term})', 'strain', e.binds)
            if e.ty != want:
                self.bad(n, f'expected a {want} expression, found {e.ty}')
        return e

    def expr1(self, n, env):
        if isinstance(n, ast.Constant):
            if type(n.value) is bool:
                return E('true' if n.value else 'false', 'bool')
            if type(n.value) is int and 0 <= n.value < 100000:
                return E(str(n.value), 'nat')
            if type(n.value) is str:
                return E(gen.coq_str(n.value), 'str')
            self.bad(n, 'literal outside the subset')
        if isinstance(n, ast.JoinedStr):
            parts, binds = [], []
            for v in n.values:
                if isinstance(v, ast.Constant) and type(v.value) is str:
                    parts.append(gen.coq_str(v.value))
                elif isinstance(v, ast.FormattedValue) and v.conversion == -1 and v.format_spec is None:
                    e = self.expr(v.value, env)
                    if e.ty == 'seat':                    # format(member, '') of a plain Enum is str(member)
                        self.need('str:seat', v)
                        self.uses_player_names = True
                        parts.append(f'seat_str {e.term}')
                    elif e.ty == 'str':
                        parts.append(e.term)
                    else:
                        self.bad(v, f'interpolation of a {e.ty} is outside the subset')
                    binds += e.binds
                else:
                    self.bad(n, 'f-string part with a conversion or a format is outside the subset')
            return E('(' + ' +++ '.join(parts) + ')' if len(parts) > 1 else parts[0] if parts else '""%string', 'str', binds)
        if isinstance(n, ast.Name):
            if n.id in env:
                return E('v_' + n.id, env[n.id], stable=n.id in self.params)
            self.bad(n, 'not a bound local or parameter')
        if isinstance(n, ast.Attribute):
            return self.attribute(n, env)
        if isinstance(n, ast.UnaryOp) and isinstance(n.op, ast.Not):
            a = self.expr(n.operand, env, 'bool')
            return E(f'(negb {a.term})', 'bool', a.binds)
        if isinstance(n, ast.BinOp):
            return self.binop(n, env)
        if isinstance(n, ast.BoolOp):
            es = [self.expr(v, env, 'bool') for v in n.values]
            if any(e.binds for e in es[1:]):
                self.bad(n, 'possibly-raising operand after a short-circuit operator')
            return E('(' + (' || ' if isinstance(n.op, ast.Or) else ' && ').join(e.term for e in es) + ')', 'bool', es[0].binds)
        if isinstance(n, ast.Compare) and len(n.ops) == 1:
            return self.compare(n, n.ops[0], n.left, n.comparators[0], env)
        if isinstance(n, ast.IfExp):
            c, a, b = self.expr(n.test, env, 'bool'), self.expr(n.body, env), self.expr(n.orelse, env)
            ty = unify(a.ty, b.ty)
            if a.binds or b.binds or ty is None or mutable(ty):
                self.bad(n, 'conditional expression with possibly-raising, mutable or differently typed branches')
            return E(f'(if {c.term} then {a.term} else {b.term})', ty, c.binds)
        if isinstance(n, ast.List):
            es = [self.expr(x, env) for x in n.elts]
            if any(isinstance(x, ast.Starred) for x in n.elts):
                self.bad(n, 'starred element')
            ty = '?'
            for e in es:
                if e.ty == 'suit':
                    e.term, e.ty = f'(Tr {e.term})', 'strain'
                ty = unify(ty, e.ty) if ty is not None else None
                if mutable(e.ty) and not (e.fresh or e.stable):
                    self.bad(n, 'a mutable object stored in a container must be a new object')
            if ty is None:
                self.bad(n, 'a list display of elements of different types')
            return E('[' + '; '.join(e.term for e in es) + ']', 'list:' + ty, [b for e in es for b in e.binds], fresh=True)
        if isinstance(n, ast.Dict):
            term, ty, binds = '[]', 'dict:?:?', []
            for k, v in zip(n.keys, n.values):
                if k is None:
                    self.bad(n, 'dict unpacking')
                ke, ve = self.expr(k, env), self.expr(v, env)
                ty = unify(ty, f'dict:{ke.ty}:{ve.ty}')
                if ty is None or ke.ty not in BEQ:
                    self.bad(n, 'a dict display with keys / values of different types (or keys that are not Enum members)')
                if mutable(ve.ty) and not (ve.fresh or ve.stable):
                    self.bad(n, 'a mutable object stored in a container must be a new object')
                binds += ke.binds + ve.binds
                term = f'(py_dict_set {BEQ[ke.ty]} {ke.term} {ve.term} {term})'
            return E(term, ty, binds, fresh=True)
        if isinstance(n, ast.ListComp):
            return self.comprehension(n, env)
        if isinstance(n, ast.Subscript):
            return self.subscript(n, env)
        if isinstance(n, ast.Call):
            return self.call(n, env)
        self.bad(n, f'expression {type(n).__name__} is outside the subset')

    def binop(self, n, env):
        if isinstance(n.op, ast.Mult) and isinstance(n.left, ast.List) and len(n.left.elts) == 1:
            a, k = self.expr(n.left.elts[0], env), self.expr(n.right, env, 'nat')
            if mutable(a.ty):
                self.bad(n, 'repetition of a mutable element is outside the subset')
            return E(f'(repeat {a.term} {k.term})', 'list:' + a.ty, a.binds + k.binds, fresh=True)
        if isinstance(n.op, ast.Add):
            a = self.expr(n.left, env)
            b = self.expr(n.right, env, a.ty)
            if a.ty == 'nat':
                return E(f'({a.term} + {b.term})', 'nat', a.binds + b.binds)
            if a.ty == 'str':
                return E(f'({a.term} +++ {b.term})', 'str', a.binds + b.binds)
        self.bad(n, 'arithmetic outside the subset (naturals: + only)')

    def attribute(self, n, env):
        if isinstance(n.value, ast.Name) and n.value.id == 'self' and 'self' not in env:
            if self.cur is None or self.cur.kind != 'self':
                self.bad(n, 'self outside an instance method')
            if n.attr not in dict(ATTRS):
                self.bad(n, f'attribute {n.attr} of self is outside the table')
            return E(f'({dict(ATTRS)[n.attr]} s)', 'set:card', stable=True)
        if isinstance(n.value, ast.Name) and n.value.id in ENUMS and n.value.id not in env:
            cls = n.value.id
            self.need(ENUM_TY[cls], n)
            ctor = ENUMS[cls][3]
            if n.attr not in ctor:
                self.bad(n, f'{cls} has no member {n.attr}')
            return E(ctor[n.attr], ENUM_TY[cls])
        o = self.expr(n.value, env)
        if o.ty == 'seat' and n.attr in ('next_player', 'partner'):
            self.need(n.attr, n)
            return E(f'({"next" if n.attr == "next_player" else "partner"} {o.term})', 'seat', o.binds)
        if o.ty == 'card' and n.attr == 'rank':
            return E(f'(rank_val (crank {o.term}))', 'nat', o.binds)
        if o.ty == 'card' and n.attr == 'suit':
            return E(f'(csuit {o.term})', 'suit', o.binds)
        self.bad(n, f'attribute {n.attr} of a {o.ty} is outside the subset')

    def compare(self, n, op, l, r, env):
        a, b = self.expr(l, env), self.expr(r, env)
        if {a.ty, b.ty} == {'suit', 'strain'}:
            a = a if a.ty == 'strain' else E(f'(Tr {a.term})', 'strain', a.binds)
            b = b if b.ty == 'strain' else E(f'(Tr {b.term})', 'strain', b.binds)
        fmt = None
        if a.ty == b.ty and a.ty in BEQ:
            fmt = {ast.Is: '({2} {0} {1})', ast.Eq: '({2} {0} {1})', ast.IsNot: '(negb ({2} {0} {1}))',
                   ast.NotEq: '(negb ({2} {0} {1}))'}.get(type(op))
        elif a.ty == b.ty == 'nat':
            fmt = {ast.Lt: '({0} <? {1})', ast.LtE: '({0} <=? {1})', ast.Gt: '({1} <? {0})', ast.GtE: '({1} <=? {0})',
                   ast.Eq: '({0} =? {1})', ast.NotEq: '(negb ({0} =? {1}))'}.get(type(op))     # a > b is written b <? a
        elif a.ty == b.ty == 'str':
            fmt = {ast.Eq: '(String.eqb {0} {1})', ast.NotEq: '(negb (String.eqb {0} {1}))'}.get(type(op))
        if fmt is None:
            self.bad(n, f'comparison {type(op).__name__} of a {a.ty} and a {b.ty} is outside the subset')
        return E(fmt.format(a.term, b.term, BEQ.get(a.ty)), 'bool', a.binds + b.binds)

    def subscript(self, n, env):
        if isinstance(n.value, ast.Name) and n.value.id == 'self' and 'self' not in env:
            if isinstance(n.slice, ast.Slice):
                self.bad(n, 'a slice of self')
            return self.call_method('__getitem__', [n.slice], [], n, env, 'self')
        o = self.expr(n.value, env)
        i = n.slice
        kind = o.ty.partition(':')[0]
        if isinstance(i, ast.Slice):
            if i.step is not None or i.lower is None or i.upper is None or kind not in ('list', 'tuple'):
                self.bad(n, 'slice other than L[a:b] of a list is outside the subset')
            a, b = self.expr(i.lower, env, 'nat'), self.expr(i.upper, env, 'nat')
            if mutable(elem(o.ty)):
                self.bad(n, 'a slice of a list of mutable objects is outside the subset')
            return E(f'(py_slice {a.term} {b.term} {o.term})', o.ty, o.binds + a.binds + b.binds, fresh=True)
        k = self.expr(i, env)
        x = self.fresh()
        if kind in ('list', 'tuple') and k.ty == 'nat' and elem(o.ty) != '?':
            return E(x, elem(o.ty), o.binds + k.binds + [(x, f'nth_error {o.term} {k.term}')])
        if kind == 'dict':
            kt, _, vt = o.ty.partition(':')[2].partition(':')
            if k.ty == kt and kt in BEQ and '?' not in vt:
                return E(x, vt, o.binds + k.binds + [(x, f'py_dict_get {BEQ[kt]} {k.term} {o.term}')])
        self.bad(n, f'item of a {o.ty} at a {k.ty} is outside the subset')

    def comprehension(self, n, env):
        """[elt for x in A (if c)* for y in B (if c)* ..]  ->  py_comp (fun x => if c then py_comp (fun y => ..) B else Some []) A"""
        outer = None

        def clause(k, env):
            nonlocal outer
            if k == len(n.generators):
                e = self.expr(n.elt, env)
                if mutable(e.ty) and not (e.fresh or e.stable):
                    self.bad(n, 'a mutable object stored in a container must be a new object')
                return self.bound(e, '', lambda i: f'Some [{e.term}]'), e.ty
            g = n.generators[k]
            if g.is_async or not isinstance(g.target, ast.Name):
                self.bad(n, 'comprehension clause outside the subset')
            t = self.local(n, g.target.id)
            it = self.iterable(g.iter, env)
            env1 = {**env, t: elem(it.ty)}
            inner, ty = clause(k + 1, env1)
            for c in reversed(g.ifs):
                ce = self.expr(c, env1, 'bool')
                inner = self.bound(ce, '', lambda i: f'if {ce.term} then {inner} else Some []')
            term = f'py_comp (fun v_{t} => {inner}) {it.term}'
            if k == 0:
                outer = it.binds                                  # the first iterable is evaluated once, outside
                return term, ty
            return self.bound(E('', '', it.binds), '', lambda i: term), ty
        term, ty = clause(0, env)
        term = ' '.join(term.split())
        x = self.fresh()
        return E(x, 'list:' + ty, outer + [(x, term)], fresh=True)

    def call(self, n, env):
        f = n.func
        if any(isinstance(a, ast.Starred) for a in n.args) or any(k.arg is None for k in n.keywords):
            self.bad(n, 'argument list outside the subset')
        if isinstance(f, ast.Name) and f.id not in env:
            return self.builtin(n, f.id, env)
        if isinstance(f, ast.Attribute) and isinstance(f.value, ast.Name) and f.value.id not in env:
            recv = f.value.id
            if recv in ('self', 'cls', CLASS):
                if recv != CLASS and (self.cur is None or self.cur.kind == 'static' or (recv == 'self') != (self.cur.kind == 'self')):
                    self.bad(n, f'{recv} is not bound here')
                if f.attr not in NAMES or f.attr.startswith('__'):
                    self.bad(n, f'{CLASS}.{f.attr} is not a translated method')
                return self.call_method(f.attr, n.args, n.keywords, n, env, recv)
            if recv == 'Card' and len(n.args) == 1 and not n.keywords and f.attr in ('rank_int_to_str', 'int_to_card'):
                a = self.expr(n.args[0], env, 'nat')
                self.need(f.attr, n)
                x = self.fresh()
                if f.attr == 'rank_int_to_str':
                    return E(x, 'str', a.binds + [(x, f'py_rank_int_to_str {a.term}')])
                return E(x, 'card', a.binds + [(x, f'card_of_idx {a.term}')])
        if isinstance(f, ast.Attribute) and f.attr == 'join' and len(n.args) == 1 and not n.keywords:
            sep = self.expr(f.value, env, 'str')
            l = self.expr(n.args[0], env)
            if unify(l.ty, 'list:str') is None:
                self.bad(n, f'join of a {l.ty} is outside the subset')
            return E(f'(join {sep.term} {l.term})', 'str', sep.binds + l.binds)
        self.bad(n, 'call outside the subset')

    def builtin(self, n, name, env):
        if name == 'Card':
            if n.keywords or len(n.args) != 2:
                self.bad(n, 'Card(..) with other than two positional arguments is outside the subset')
            self.need('card', n)
            r, su = self.expr(n.args[0], env, 'nat'), self.expr(n.args[1], env, 'strain')
            x = self.fresh()
            return E(x, 'card', r.binds + su.binds + [(x, f'py_card {r.term} {su.term}')])
        if name == CLASS:
            sig = self.method('__init__', self.members['__init__'])
            args, binds = self.arguments(sig, n, env)
            return E('(g_init ' + ' '.join(args) + ')', 'hands', binds, fresh=True)
        if name not in BUILTINS:
            self.bad(n, 'call outside the subset')
        if name == 'sorted':
            if len(n.args) != 1 or any(k.arg != 'reverse' for k in n.keywords) or len(n.keywords) > 1:
                self.bad(n, 'sorted with other than one argument and `reverse` is outside the subset')
            a = self.expr(n.args[0], env)
            if not (a.ty == 'set:card' or (a.ty == 'list:card' and a.fromset)):
                self.bad(n, f'sorted of anything but a set of cards is outside the subset ({a.ty})')
            self.need('sorted:card', n)
            rev = False
            if n.keywords:
                v = n.keywords[0].value
                if not (isinstance(v, ast.Constant) and type(v.value) is bool):
                    self.bad(n, 'reverse= other than True / False is outside the subset')
                rev = v.value
            return E(f'(rev (sorted_hand {a.term}))' if rev else f'(sorted_hand {a.term})', 'list:card', a.binds, fresh=True, fromset=True)
        if n.keywords:
            self.bad(n, 'keyword argument of a builtin')
        if name in ('list', 'set', 'dict', 'tuple') and not n.args:
            if name == 'tuple':
                self.bad(n, 'tuple() is outside the subset')
            return E('[]', {'list': 'list:?', 'set': 'set:?', 'dict': 'dict:?:?'}[name], fresh=True)
        if len(n.args) != 1:
            self.bad(n, 'builtin with other than one argument')
        a = self.expr(n.args[0], env)
        if name == 'len':
            if a.ty == 'str':
                return E(f'(String.length {a.term})', 'nat', a.binds)
            if a.ty.partition(':')[0] in ('list', 'set', 'tuple', 'dict'):
                self.whole_set(a, n, 'len of')
                return E(f'(length {a.term})', 'nat', a.binds)
        if name == 'int':
            if a.ty == 'nat':
                return a
            if a.ty == 'card':
                self.need('int:card', n)
                return E(f'(card_idx {a.term})', 'nat', a.binds)
        if name in ('list', 'set', 'tuple') and elem(a.ty) not in (None, '?') and not mutable(elem(a.ty)):
            # the same elements in a new object; a set made from a list: a list read as a set
            if name != 'set':
                self.whole_set(a, n, f'{name} of')
            return E(a.term, f'{name}:{elem(a.ty)}', a.binds, fresh=True,
                     fromset=a.ty.startswith('set:') or a.fromset)
        self.bad(n, f'{name} of a {a.ty} is outside the subset')

    def whole_set(self, e, node, what):
        """A set built in the method is a list with the same members, possibly with repetitions (`S.add(e)` is a cons):
        it may be added to, sorted, stored and returned; its length and its elements one by one are those of the Python
        set only for the sets that come from outside (parameters, attributes, results of methods: duplicate-free lists)."""
        if e.ty.startswith('set:') and not e.stable:
            self.bad(node, f'{what} a set built in the method is outside the subset')

    def arguments(self, sig, n, env, args=None, keywords=None):
        args = n.args if args is None else args
        keywords = n.keywords if keywords is None else keywords
        params = dict(sig.params)
        if len(args) > len(sig.params):
            self.bad(n, 'too many arguments')
        given, binds = {}, []
        for name, a in [(sig.params[i][0], a) for i, a in enumerate(args)] + [(k.arg, k.value) for k in keywords]:
            if name in given or name not in params:
                self.bad(n, f'argument {name} repeated or unknown')
            e = self.expr(a, env)
            if e.ty == 'suit' and params[name] == 'strain':
                e = E(f'(Tr {e.term})', 'strain', e.binds)
            u = unify(e.ty, params[name])
            if u is None or '?' in u:
                self.bad(a, f'argument {name}: expected a {params[name]}, found a {e.ty}')
            if mutable(e.ty) and not (e.fresh or e.stable or self.in_return):
                self.bad(a, f'argument {name}: a local mutable object handed to a call outside a return statement')
            given[name] = e
            binds += e.binds                               # evaluation order = source order
        out = []
        for p, _ in sig.params:
            if p in given:
                out.append(given[p].term)
            elif p in sig.defaults:
                out.append(f'{sig.name}_default_{p}')
            else:
                self.bad(n, f'missing argument {p}')
        return out, binds

    def call_method(self, name, args, keywords, n, env, recv):
        sig = self.method(name, self.members[name])
        if sig.kind == 'self' and recv != 'self':
            self.bad(n, f'{name} needs an object')
        if self.shuffled == name:
            self.bad(n, 'a call of the method that shuffles is outside the subset')
        terms, binds = self.arguments(sig, n, env, args, keywords)
        x = self.fresh()
        app = ' '.join([sig.name] + (['s'] if sig.kind == 'self' else []) + terms)
        return E(x, sig.ret, binds + [(x, app)], stable=True)

    # ---------------------------------------------------------------- the tables of pinned facts the file states
    def tables(self):
        out = ''
        for cls in self.used_enums:
            _, _, members, ctor = ENUMS[cls]
            out += f'(* `for x in {cls}`: the members in definition order (pinned member list) *)\n' \
                   f'Definition py_{cls}_members : list {ENUM_TY[cls]} := [' + '; '.join(ctor[m].strip('()') for m, _ in members) + '].\n'
        if self.uses_player_names:
            _, _, members, ctor = ENUMS['Player']
            out += '(* str() of a Player is its member name (pinned `return self.name`; the member list is pinned) *)\n' \
                   'Definition py_player_names : list (seat * string) :=\n  [' + \
                   '; '.join(f'({ctor[m]}, {gen.coq_str(m)})' for m, _ in members) + '].\n'
        return out


def gen_hands_fns(path=None, overrides=None):
    """Translate hands.py of the repository (or the file `path`, for sensitivity studies; `overrides` maps further
    relative paths of the repository to files read in their place).  Returns (file name under coq/Gen, text)."""
    _SRC.clear()
    if overrides:
        _SRC.update(overrides)
    if path is not None:
        _SRC[REL] = path
    try:
        raw = parse(REL)
        # extract-method / conditional normal forms first (gen.py): a harmless restructuring gives the same translation
        tree = gen.comprehension_to_loop(gen.normalise_ifs(gen.inline_private_helpers(parse(REL), CLASS, set(NAMES) | set(LOCAL_PINS)), 'expr'))
        tr = Translator(tree, raw)
        defs = tr.run()
        tables = tr.tables()
    finally:
        _SRC.clear()
    head = f'(* GENERATED by harness/gen_hands.py from {REL} -- do not edit *)\n'
    return 'HandsFns.v', head + PRELUDE + tables + '\n'.join(defs) + '\n'


def write(path=None, out=None):
    import lib
    name, text = gen_hands_fns(path)
    out = out or os.path.join(gen.GEN, name)
    return out, lib.write_if_changed(out, text)


if __name__ == '__main__':
    o, changed = write()
    print(f'{o}: ' + ('rewritten' if changed else 'unchanged'))
