"""Write coq/Props/Cnn.v from lemma statements in coq/Proofs/*.v: each property theorem restates the
statement in full and is closed by `exact <lemma>`, followed by Print Assumptions.  Run by hand when a
Props file is (re)created; the output is committed and reviewed like any source file."""
import re, sys, os
COQ = os.path.join(os.path.dirname(os.path.dirname(os.path.abspath(__file__))), 'coq')


def statement(path, name):
    t = open(os.path.join(COQ, path)).read()
    m = re.search(r'^(?:Lemma|Theorem|Example|Corollary)\s+' + re.escape(name) + r'\s*:(.*?)\.\s*Proof\.', t, re.S | re.M)
    if not m:
        raise SystemExit(f'{path}: lemma {name} not found in binder-less form')
    return m.group(1).strip()


def write(prop, title, imports, defs, items, extra=''):
    out = [f'(* {prop} - {title}\n   Only statements, each closed by [exact]; proofs are in the files imported below. *)', imports, defs]
    for it in items:
        path, name, new, comment = it[:4]
        st = statement(path, name)
        for a, b in (it[4] if len(it) > 4 else {}).items():
            st = re.sub(r'(?<![\w.])' + re.escape(a) + r'(?![\w])', b, st)
        if comment:
            out.append(f'(* {comment} *)')
        out.append(f'Theorem {new} :\n  {st}.\nProof. exact {name}. Qed.\nPrint Assumptions {new}.\n')
    out.append(extra)
    open(os.path.join(COQ, 'Props', prop + '.v'), 'w').write('\n'.join(out))
