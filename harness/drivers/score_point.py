import json, sys
from bridge_env import Bid, Contract, Player, Vul
from bridge_env.score import calc_score, calc_bid_score
i = json.load(sys.stdin)
try:
    bid = Bid.int_to_bid(i['bid_idx'])
    if i['api'] == 'calc_score':
        v = calc_score(Contract(bid, x=i['x'], xx=i['xx'], vul=Vul[i['vul']], declarer=Player[i['declarer']]), i['tricks'])
    else:
        v = calc_bid_score(bid, i['x'], i['xx'], i['vul_flag'], i['tricks'])
except BaseException as e:
    v = None
print(json.dumps(dict(value=v)))
