"""Run BiddingPhase on walks of offered calls; record public observations only."""
import copy, json, sys
from bridge_env import Bid, BiddingPhase, BiddingPhaseState, Player, Vul

SEATS = [Player.N, Player.E, Player.S, Player.W]
VULS = [Vul.NONE, Vul.NS, Vul.EW, Vul.BOTH]
RET = {BiddingPhaseState.ILLEGAL: 1, BiddingPhaseState.ONGOING: 2, BiddingPhaseState.FINISHED: 3}


def snap(env):
    k = env.contract()
    return dict(avail=[int(x) for x in env.available_bid], hist=[b.idx for b in env.bid_history],
                ph=[[b.idx for b in env.players_bid_history[p]] for p in SEATS],
                active=None if env.active_player is None else SEATS.index(env.active_player),
                done=bool(env.has_done()),
                contract=None if k is None else [None if k.final_bid is None or k.final_bid is Bid.Pass else k.final_bid.idx,
                                                 bool(k.x), bool(k.xx), VULS.index(k.vul),
                                                 None if k.declarer is None else SEATS.index(k.declarer),
                                                 bool(k.is_passed_out())])


def mask(bits):
    return sum(1 << i for i, b in enumerate(bits) if b)


def offer(env, c):
    try:
        r = env.take_bid(Bid.int_to_bid(c))
        return RET.get(r, 9)
    except Exception:
        return 0


def run_walk(w):
    env = BiddingPhase(dealer=SEATS[w['dealer']], vul=VULS[w['vul']])
    steps = []
    for c in w['offers']:
        before = snap(env)
        st = dict(c=c, mask=mask(before['avail']), active=4 if before['active'] is None else before['active'],
                  knone=before['contract'] is None, done=before['done'], availbad=any(x not in (0, 1) for x in before['avail']))
        if w.get('probe'):
            rets = [offer(copy.deepcopy(env), i) for i in range(38)]
            st['pacc'] = mask([r in (2, 3) for r in rets])
            st['pfin'] = mask([r == 3 for r in rets])
            st['prai'] = mask([r == 0 for r in rets])
            st['pbad'] = mask([r == 9 for r in rets])
        st['ret'] = offer(env, c)
        after = snap(env)
        st['unchanged'] = (after == before)
        st['appended'] = (after['hist'] == before['hist'] + [c])
        steps.append(st)
    return dict(steps=steps, final=snap(env))


inp = json.load(sys.stdin)
print(json.dumps([run_walk(w) for w in inp['walks']]))
