"""Dump every converter of card/bid/player/vul/suit/pair/contract on its complete domain."""
import json, sys
from bridge_env import Bid, Card, Contract, Pair, Player, Suit, Vul

json.load(sys.stdin)
BAD = 999


def t(f, bad=BAD):
    try:
        return f()
    except BaseException:
        return bad


def cv(c):  # a Card as (rank, suit.value)
    return [c.rank, c.suit.value]


cards = [Card(r, Suit(sv)) for sv in range(1, 5) for r in range(2, 15)]
g = {}
g['cards'] = [[t(lambda: int(c)), t(lambda: str(c), 'ERR'), t(lambda: cv(Card.str_to_card(str(c))), [BAD, BAD]),
               t(lambda: cv(Card.int_to_card(int(c))), [BAD, BAD]), t(lambda: cv(Card.int_to_card(k)), [BAD, BAD])]
              for k, c in enumerate(cards)]
g['ranks'] = [[t(lambda: Card.rank_int_to_str(r), 'ERR'), t(lambda: Card.rank_str_to_int(Card.rank_int_to_str(r)))] for r in range(2, 15)]
g['card_cmp'] = [[t(lambda: (1 if a < b else 0) + (2 if a <= b else 0) + (4 if a > b else 0) + (8 if a >= b else 0) + (16 if a == b else 0))
                  for b in cards] for a in cards]
bids = [Bid(v) for v in range(1, 39)]


def ov(x):
    return None if x is None else (x.value if hasattr(x, 'value') else x)


g['calls'] = [[t(lambda: b.idx), t(lambda: str(b), 'ERR'), t(lambda: Bid.str_to_bid(str(b)).value), t(lambda: Bid.int_to_bid(b.idx).value),
               t(lambda: ov(b.level)), t(lambda: ov(b.suit)),
               t(lambda: None if b.level is None else Bid.level_suit_to_bid(b.level, b.suit).value)] for b in bids]
seats = [Player(v) for v in range(1, 5)]
g['seats'] = [[t(lambda: str(p), 'ERR'), t(lambda: Player[str(p)].value), t(lambda: p.formal_name, 'ERR'),
               t(lambda: Player.convert_formal_name(p.formal_name).value),
               [t(lambda: p.next_player.value), t(lambda: p.partner.value), t(lambda: p.left.value), t(lambda: p.right.value)],
               [t(lambda: p.pair.value), t(lambda: p.opponent_pair.value)]] for p in seats]
vuls = [Vul(v) for v in range(1, 5)]
g['is_partner'] = [[bool(t(lambda: p.is_partner(q), False)) for q in seats] for p in seats]
g['seat_is_vul'] = [[bool(t(lambda: p.is_vul(v), False)) for v in vuls] for p in seats]
g['vuls'] = [[t(lambda: str(v), 'ERR'), t(lambda: v.pbn_format(), 'ERR'), t(lambda: Vul.str_to_vul(str(v)).value),
              t(lambda: Vul.str_to_vul(v.pbn_format()).value)] for v in vuls]
g['vul_inputs'] = [[s, t(lambda: Vul.str_to_vul(s).value, None)] for s in ['None', 'Love', '-', 'Both', 'All', 'NS', 'EW']]
g['suits'] = [[t(lambda: str(s), 'ERR'), t(lambda: Suit[str(s)].value), bool(t(lambda: s.is_minor(), False)), bool(t(lambda: s.is_major(), False))]
              for s in [Suit(v) for v in range(1, 6)]]
g['pairs'] = [[t(lambda: str(p), 'ERR'), t(lambda: Pair[str(p)].value), t(lambda: p.opponent_pair.value), [bool(t(lambda: p.is_vul(v), False)) for v in vuls]]
              for p in [Pair(1), Pair(2)]]
FLAGS = [(False, False), (True, False), (False, True), (True, True)]


def kv(k):
    return [ov(k.final_bid) if k.final_bid is not Bid.Pass else None, bool(k.x), bool(k.xx), k.vul.value, ov(k.declarer),
            ov(k.level), ov(k.trump)]


rows = []
for b in range(35):
    for x, xx in FLAGS:
        for v in vuls:
            for d in [None] + seats:
                k = Contract(Bid.int_to_bid(b), x=x, xx=xx, vul=v, declarer=d)
                rows.append([t(lambda: str(k), 'ERR'), t(lambda: kv(Contract.str_to_contract(str(k), v, d)), None),
                             t(lambda: bool(k.is_vul()), None)])
g['contracts'] = rows
po = []
for fb in (None, Bid.Pass):
    for v in vuls:
        k = Contract(fb, vul=v)
        po.append([t(lambda: str(k), 'ERR'), t(lambda: kv(Contract.str_to_contract(str(k), v, None)), None), t(lambda: bool(k.is_passed_out()), None)])
g['passed_out'] = po
print(json.dumps(g))
