"""JSON log / board-settings writer and parser on the real code."""
import io, json, sys
from bridge_env import Bid, Card, Contract, Hands, Pair, Player, Suit, Vul
from bridge_env.data_handler.json_handler.writer import JsonLogWriter, JsonBoardSettingWriter
from bridge_env.data_handler.json_handler.parser import JsonParser
from bridge_env.data_handler.pbn_handler.writer import Scoring
from bridge_env.playing_phase import PlayingHistory, TrickHistory

SEATS = [Player.N, Player.E, Player.S, Player.W]
VULS = [Vul.NONE, Vul.NS, Vul.EW, Vul.BOTH]
SUITS = [Suit.C, Suit.D, Suit.H, Suit.S, Suit.NT]
C = Card.int_to_card


def tag(x, cls, index):
    """value objects as indices; anything else is reported with its type name"""
    if isinstance(x, cls):
        return index(x)
    return ['!' + type(x).__name__, str(x)]


def seat(x): return tag(x, Player, SEATS.index)
def vul(x): return tag(x, Vul, VULS.index)
def ids(cards): return sorted(int(c) for c in cards) if all(isinstance(c, Card) for c in cards) else ['!cards', str(cards)]
def hv(h): return [ids(h[p]) for p in SEATS] if isinstance(h, Hands) else ['!' + type(h).__name__]


def kontract(k):
    fb = None if k['bid'] is None else Bid.int_to_bid(k['bid'])
    return Contract(fb, x=k['x'], xx=k['xx'], vul=VULS[k['vul']], declarer=None if k['decl'] is None else SEATS[k['decl']])


def dda_in(d):
    return None if d is None else {SEATS[p]: {SUITS[s]: n for s, n in row} for p, row in d}


def dda_out(d):
    if d is None:
        return None
    try:
        return [[seat(p), [[tag(s, Suit, SUITS.index), n] for s, n in row.items()]] for p, row in d.items()]
    except Exception as e:
        return ['!dda', repr(d)]


def knorm(k):
    if not isinstance(k, Contract):
        return ['!' + type(k).__name__]
    fb = k.final_bid
    st = 2 if k.xx else 1 if k.x else 0
    return [None if (fb is None or fb is Bid.Pass) else tag(fb, Bid, lambda b: b.idx), st, vul(k.vul), None if k.declarer is None else seat(k.declarer)]


def log_norm(b):
    return dict(
        board_id=b.board_id, hands=hv(b.hands), dealer=seat(b.dealer), vul=vul(b.vul),
        declarer=None if b.declarer is None else seat(b.declarer), contract=knorm(b.contract), taken=b.taken_trick,
        players=None if b.players is None else [[seat(p), n] for p, n in b.players.items()],
        bids=None if b.bid_history is None else [tag(x, Bid, lambda y: y.idx) for x in b.bid_history],
        play=None if b.play_history is None else [[seat(t.leader), [tag(c, Card, int) for c in t.cards]] if isinstance(t, TrickHistory) else ['!' + type(t).__name__] for t in b.play_history],
        dda=dda_out(b.dda), score_type=b.score_type if isinstance(b.score_type, str) else ['!' + type(b.score_type).__name__, str(b.score_type)],
        scores=None if b.scores is None else [[tag(p, Pair, lambda q: q.value - 1), v] for p, v in b.scores.items()])


def setting_norm(s):
    return dict(board_id=s.board_id, hands=hv(s.hands), dealer=seat(s.dealer), vul=vul(s.vul), dda=dda_out(s.dda))


def attempt(f):
    try:
        return dict(ok=f())
    except Exception as e:
        return dict(err=type(e).__name__ + ': ' + str(e)[:200])


def log_case(recs):
    buf = io.StringIO()
    w = JsonLogWriter(buf)
    w.open()
    for r in recs:
        ph = None
        if r['play'] is not None:
            ph = PlayingHistory(kontract(r['contract']))
            for i, (ld, cs) in enumerate(r['play']):
                ph.record(i + 1, TrickHistory(SEATS[ld], tuple(C(c) for c in cs)))
        w.write(board_id=r['board_id'], west_player=r['players'][3], north_player=r['players'][0], east_player=r['players'][1],
                south_player=r['players'][2], dealer=SEATS[r['dealer']], deal=Hands(*[set(C(c) for c in h) for h in r['deal']]),
                scoring=Scoring(r['scoring']), bid_history=[Bid.int_to_bid(b) for b in r['bids']], contract=kontract(r['contract']),
                play_history=ph, taken_trick_num=r['taken'], scores={Pair.NS: r['scores'][0], Pair.EW: r['scores'][1]}, dda=dda_in(r['dda']))
    w.close()
    text = buf.getvalue()
    out = dict(text=text)
    out['doc'] = attempt(lambda: json.loads(text))
    out['logs'] = attempt(lambda: [log_norm(b) for b in JsonParser().parse_board_logs(io.StringIO(text))])
    out['settings'] = attempt(lambda: [setting_norm(s) for s in JsonParser().parse_board_settings(io.StringIO(text))])
    return out


def setting_case(sts):
    buf = io.StringIO()
    with JsonBoardSettingWriter(buf) as w:
        for s in sts:
            w.write(board_id=s['board_id'], dealer=SEATS[s['dealer']], deal=Hands(*[set(C(c) for c in h) for h in s['deal']]), vul=VULS[s['vul']], dda=dda_in(s['dda']))
    text = buf.getvalue()
    out = dict(text=text)
    out['doc'] = attempt(lambda: json.loads(text))
    out['settings'] = attempt(lambda: [setting_norm(s) for s in JsonParser().parse_board_settings(io.StringIO(text))])
    return out


inp = json.load(sys.stdin)
print(json.dumps(dict(logs=[log_case(c) for c in inp.get('logs', [])], settings=[setting_case(c) for c in inp.get('settings', [])])))
