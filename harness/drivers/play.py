"""Run the playing-phase classes on generated cases; record public observations only."""
import copy, json, random, sys
from bridge_env import Bid, Card, Contract, Hands, Pair, Player, Suit, Vul
from bridge_env.playing_phase import ObservedPlayingPhase, PlayingPhase, PlayingPhaseWithHands
from bridge_env.network_bridge.playing_system import RandomPlay

SEATS = [Player.N, Player.E, Player.S, Player.W]
C = Card.int_to_card


def kontract(b, d):
    return Contract(Bid.int_to_bid(b), vul=Vul.NONE, declarer=SEATS[d])


def proj(env):
    return [SEATS.index(env.leader), SEATS.index(env.active_player), env.trick_num, env.taken_tricks[Pair.NS],
            env.taken_tricks[Pair.EW], len(env.playing_history.history), bool(env.has_done())]


def hist(env):
    return [[SEATS.index(t.leader), [int(c) for c in t.cards]] for t in env.playing_history.history]


def ids(cards):
    return sorted(int(c) for c in cards)


def bare(k):
    env = PlayingPhase(kontract(k['bid'], k['decl']))
    init = [env.trump.value, SEATS.index(env.declarer), SEATS.index(env.dummy), SEATS.index(env.leader), SEATS.index(env.active_player)]
    obs = []
    for c in k['cards']:
        env.play_card(C(c))
        obs.append(proj(env))
    return dict(init=init, obs=obs, hist=hist(env))


def highest(k):
    r = PlayingPhase.calc_highest(Suit(k['suit']), [C(c) for c in k['cards']])
    return None if r < 0 else r


def snapshot(env):
    return (tuple(tuple(ids(env.hands[p])) for p in SEATS), tuple(ids(env.used_cards)), tuple(proj(env)),
            json.dumps(hist(env)), tuple(int(c) for c in getattr(env, '_trick_cards', [])))


def mk_hands(deal):
    return Hands(*[set(C(c) for c in h) for h in deal])


def with_hands(k):
    """Full-information env with injected bad attempts; ops are generated here from the env's public state."""
    r = random.Random(k['seed'])
    env = PlayingPhaseWithHands(kontract(k['bid'], k['decl']), mk_hands(k['deal']))
    observers = None
    if k.get('observers'):
        observers = [ObservedPlayingPhase(kontract(k['bid'], k['decl']), p, set(C(c) for c in k['deal'][i])) for i, p in enumerate(SEATS)]
    ops, obs, avail, oobs, acc_ops, choices = [], [], [], [dict(ops=[], obs=[]) for _ in SEATS], [], []
    trick = []
    n_real = 0
    while n_real < k['plays'] and not env.has_done():
        p = env.active_player
        hand = env.hands[p]
        if not hand:
            break
        led = trick[0] if trick else None
        # C06: the playable set in this state
        res = env.current_available_cards_in_hand(p)
        avail.append([ids(hand), led, ids(res)])
        if observers:
            for i, o in enumerate(observers):
                if SEATS[i] is p:
                    avail.append([ids(o.hand), led, ids(o.current_available_cards_in_hand())])
                if p is env.dummy and SEATS[i] is not env.dummy and o.dummy_hand is not None:
                    # every seat that sees dummy (declarer who plays it, and both defenders): the set offered from dummy's hand
                    # must be the follow-suit set of dummy's REAL remaining hand
                    avail.append([ids(env.hands[env.dummy]), led, ids(o.current_available_cards_in_dummy_hand())])
        # the same question asked for several hands in one state, each time on a fresh temporary copy (an agent looking at the
        # seats it can see): seats that have not yet played to the trick hold equally many cards
        for q in SEATS:
            if q is not p and len(env.hands[q]) == len(hand):
                avail.append([ids(env.hands[q]), led, ids(env.current_available_cards(set(env.hands[q])))])
        avail.append([ids(hand), led, ids(env.current_available_cards(set(hand)))])
        if k.get('random_play'):
            ch = RandomPlay().play(set(hand), env)
            choices.append([ids(hand), led, int(ch)])
        # injected attempts that must be refused
        for _ in range(3):
            if r.random() < k['inject']:
                kind = r.choice(['seat', 'foreign', 'played', 'any'])
                if kind == 'seat':
                    q = r.choice([s for s in SEATS if s is not p]); c = r.choice(ids(env.hands[q]) or [0])
                elif kind == 'foreign':
                    q = p; others = [int(x) for s in SEATS if s is not p for x in env.hands[s]]; c = r.choice(others or [0])
                elif kind == 'played':
                    q = p; c = r.choice(ids(env.used_cards) or [r.randint(0, 51)])
                else:
                    q = r.choice(SEATS); c = r.randint(0, 51)
                before = snapshot(env)
                act = env.active_player
                try:
                    env.play_card_by_player(C(c), q); ok = True
                except Exception:
                    ok = False
                ops.append([c, SEATS.index(q)]); obs.append([ok, snapshot(env) == before, proj(env)])
                if ok:   # an injected attempt that happened to be legal
                    acc_ops.append([c, SEATS.index(q)]); trick = (trick + [c]) if len(trick) < 3 else []
                    feed(observers, oobs, c, q, len(acc_ops) == 1, k)
                    n_real += 1
                    break
                feed(observers, oobs, c, q, False, k, accepted=False, active_before=act)
        else:
            pool = ids(res) if (k['policy'] == 'follow' or (k['policy'] == 'mixed' and r.random() < 0.6)) else ids(hand)
            c = r.choice(pool)
            before = snapshot(env)
            try:
                env.play_card_by_player(C(c), p); ok = True
            except Exception:
                ok = False
            ops.append([c, SEATS.index(p)]); obs.append([ok, snapshot(env) == before, proj(env)])
            if ok:
                acc_ops.append([c, SEATS.index(p)]); trick = (trick + [c]) if len(trick) < 3 else []
                feed(observers, oobs, c, p, len(acc_ops) == 1, k)
            n_real += 1
    out = dict(ops=ops, obs=obs, final=[[ids(env.hands[p]) for p in SEATS], ids(env.used_cards), hist(env)], avail=avail, choices=choices)
    if observers:
        out['acc_ops'] = acc_ops
        out['observers'] = [[oobs[i]['ops'], oobs[i]['obs'], [ids(o.hand), None if o.dummy_hand is None else ids(o.dummy_hand), hist(o)]] for i, o in enumerate(observers)]
    return out


def osnap(o):
    return (tuple(ids(o.hand)), None if o.dummy_hand is None else tuple(ids(o.dummy_hand)), tuple(proj(o)), json.dumps(hist(o)))


def feed(observers, oobs, c, p, first, k, accepted=True, active_before=None):
    """Feed an attempt to the observers.  An attempt the full-information game refused is fed to an observer only when that
    observer is in a position to refuse it as well (out of turn, or a seat whose hand it knows)."""
    if not observers:
        return
    dummy = observers[0].dummy
    for i, o in enumerate(observers):
        if not accepted:
            knows = (p is SEATS[i]) or (p is dummy and o.dummy_hand is not None)
            if not (p is not active_before or knows):
                continue
        before = osnap(o)
        try:
            o.play_card_by_player(C(c), p); ok = True
        except Exception:
            ok = False
        unchanged = osnap(o) == before
        if (not ok) and accepted and k.get('late') and p is dummy and SEATS[i] is not dummy and o.dummy_hand is None:
            # "late" case: the observer has not been shown dummy's hand yet and must refuse dummy's play; it is shown now and
            # the same play is offered again
            oobs[i]['ops'].append([c, SEATS.index(p)])
            oobs[i]['obs'].append([ok, unchanged, proj(o)])
            o.set_dummy_hand(set(C(x) for x in k['deal'][SEATS.index(dummy)]))
            before = osnap(o)
            try:
                o.play_card_by_player(C(c), p); ok = True
            except Exception:
                ok = False
            unchanged = osnap(o) == before
        if ok and first and SEATS[i] is not dummy and not k.get('late'):
            dh = set(C(x) for x in k['deal'][SEATS.index(dummy)])
            dh.discard(C(c)) if p is dummy else None
            o.set_dummy_hand(dh)
        oobs[i]['ops'].append([c, SEATS.index(p)])
        oobs[i]['obs'].append([ok, unchanged, proj(o)])


def static_avail(k):
    hand = set(C(c) for c in k['hand'])
    res = PlayingPhase.available_cards(hand, None if k['led'] is None else C(k['led']))
    return ids(res)


inp = json.load(sys.stdin)
print(json.dumps(dict(bare=[bare(k) for k in inp.get('bare', [])], highest=[highest(k) for k in inp.get('highest', [])],
                      hands=[with_hands(k) for k in inp.get('hands', [])], avail=[static_avail(k) for k in inp.get('avail', [])])))
