"""Evaluate calc_score / calc_bid_score / Contract.is_vul on their complete domains."""
import json, sys
from bridge_env import Bid, Contract, Player, Vul
from bridge_env.score import calc_score, calc_bid_score

json.load(sys.stdin)
VULS = [Vul.NONE, Vul.NS, Vul.EW, Vul.BOTH]
SEATS = [Player.N, Player.E, Player.S, Player.W]
FLAGS = [(False, False), (True, False), (False, True), (True, True)]


def ev(f):
    try:
        v = f()
        if isinstance(v, bool) or not isinstance(v, int):
            return ['bad', repr(v)]
        return v
    except BaseException as e:  # noqa
        return None


rows, bid_rows = [], []
for b in range(35):
    bid = Bid.int_to_bid(b)
    for x, xx in FLAGS:
        for v in VULS:
            for d in SEATS:
                k = Contract(final_bid=bid, x=x, xx=xx, vul=v, declarer=d)
                rows.append([ev(lambda: calc_score(k, t)) for t in range(14)])
        for vb in (False, True):
            bid_rows.append([ev(lambda: calc_bid_score(bid, x, xx, vb, t)) for t in range(14)])
po_rows = []
for fb in (None, Bid.Pass):
    for v in VULS:
        for d in [None] + SEATS:
            k = Contract(final_bid=fb, x=False, xx=False, vul=v, declarer=d)
            po_rows.append([ev(lambda: calc_score(k, t)) for t in range(14)])
print(json.dumps(dict(rows=rows, bid_rows=bid_rows, po_rows=po_rows)))
