"""Run a whole table-manager session (real Server.run, real PlayerThreads, real Client.run) under the
controlled scheduler with in-memory sockets.  Input: boards, arrivals (connection attempts), per-seat
policy seeds, message variants, scheduler strategy, optional fault.  Output: public observations only:
bytes on every connection (both directions), the output file, how every thread ended, the clients'
end-of-board replicas, the schedule."""
import json, os, pathlib, random, sys, tempfile, threading, traceback

import sched as cs
import bridge_env.network_bridge.server as srv
from bridge_env.network_bridge.client import Client
from bridge_env.network_bridge.socket_interface import MessageInterface
from bridge_env.network_bridge.bidding_system import BiddingSystem
from bridge_env.network_bridge.playing_system import PlayingSystem
from bridge_env import Bid, Card, Hands, Pair, Player, Vul
from bridge_env.data_handler.abstract_classes import BoardSetting

SEATS = [Player.N, Player.E, Player.S, Player.W]
VULS = [Vul.NONE, Vul.NS, Vul.EW, Vul.BOTH]
C = Card.int_to_card


def ids(cards):
    return sorted(int(c) for c in cards)


class Policy(BiddingSystem, PlayingSystem):
    """Deterministic per-seat policies: decisions depend only on the seat's own replica and its own PRNG."""

    def __init__(self, seed, style, fault=None, passout_boards=(), forced=None):
        self.passout_boards = set(passout_boards)
        self.forced = {int(k): v for k, v in (forced or {}).items()}     # board -> 'nt' | 'trump': the dealer opens, everybody else passes
        self.r = random.Random(seed)
        self.style = style
        self.fault = fault or {}
        self.calls = 0
        self.cards = 0
        self.board = 0
        self.decisions = []          # per board: dict(calls=[idx], cards=[idx])

    def bid(self, hand, env):
        b = self._bid(hand, env)
        self.decisions[-1]['calls'].append(b.idx)
        return b

    def _bid(self, hand, env):
        self.calls += 1
        f = self.fault
        if f.get('kind') == 'illegal_call' and f['board'] == self.board and f['nth'] == self.calls:
            illegal = [i for i in range(38) if env.available_bid[i] == 0]
            return Bid.int_to_bid(self.r.choice(illegal)) if illegal else Bid.Pass
        legal = [i for i in range(38) if env.available_bid[i] == 1]
        u = self.r.random()
        if self.board in self.passout_boards:      # the whole table passes this board out (same list for the four seats)
            return Bid.Pass
        nb = len(env.bid_history)
        if self.board in self.forced:              # one-suit deals: 1NT goes down thirteen, seven of the dealer's own suit makes all the tricks
            if nb > 0:
                return Bid.Pass
            return Bid.int_to_bid(4 if self.forced[self.board] == 'nt' else 30 + [i for i in range(52) if hand[i] == 1][0] // 13)
        if self.style == 'pass':
            return Bid.Pass
        if self.style == 'short':
            bids = [i for i in legal if i < 35]
            if nb < 2 and bids and u < 0.8:
                return Bid.int_to_bid(self.r.choice(bids[:12]))
            return Bid.Pass
        # competitive
        bids = [i for i in legal if i < 35]
        if 36 in legal and u < 0.35:
            return Bid.X
        if 37 in legal and u < 0.5:
            return Bid.XX
        if bids and u < (0.75 if nb < 8 else 0.25):
            return Bid.int_to_bid(self.r.choice(bids[:6]))
        return Bid.Pass

    def play(self, hand, env):
        c = self._play(hand, env)
        self.decisions[-1]['cards'].append(int(c))
        return c

    def _play(self, hand, env):
        self.last_env = env
        self.cards += 1
        pool = sorted(env.current_available_cards(hand), key=int)
        c = self.r.choice(pool)
        return pool[0] if self.board in self.forced else c


class VClient(Client):
    """The bundled Client with its outgoing call / card texts respelled (case, alert suffix, card notation)."""

    def __init__(self, *a, variant=None, vseed=0, fault=None, **k):
        super().__init__(*a, **k)
        self.variant = variant or {}
        self.vr = random.Random(vseed)
        self.fault = fault or {}
        self.sent_calls = 0
        self.sent_cards = 0
        self.replicas = []
        self.texts = []              # per board: the call / card lines as sent

    def mangle(self, s):
        return ''.join(ch.upper() if self.vr.random() < 0.5 else ch.lower() for ch in s)

    def respell(self, message):
        out = self._respell(message)
        parts = message.split(' ')
        if self.texts:
            if len(parts) >= 2 and parts[1] in ('bids', 'passes', 'doubles', 'redoubles') and 'ready' not in message:
                self.texts[-1]['calls'].append(out)
            elif len(parts) == 3 and parts[1] == 'plays':
                self.texts[-1]['cards'].append(out)
        return out

    def _respell(self, message):
        """Called by the socket wrapper for every outgoing line (Client's own methods call
        MessageInterface.send_message through super(), so the respelling is done at the socket)."""
        parts = message.split(' ')
        is_call = len(parts) >= 2 and parts[1] in ('bids', 'passes', 'doubles', 'redoubles') and 'ready' not in message
        is_card = len(parts) == 3 and parts[1] == 'plays'
        f = self.fault
        pol = self.bidding_system
        if is_call:
            self.sent_calls += 1
            if f.get('kind') == 'garbage_call' and f['board'] == pol.board and f['nth'] == pol.calls:
                return parts[0] + ' bids 9Z'
            if self.variant.get('case'):
                message = self.mangle(message)
            if self.variant.get('alert') and self.vr.random() < 0.5:
                message += self.vr.choice([' ', '  ', '\t']) + self.mangle('Alert.') + self.vr.choice(['', ' '])
        elif is_card:
            self.sent_cards += 1
            if f.get('kind') == 'garbage_card' and f['board'] == pol.board and f['nth'] == pol.cards:
                return parts[0] + ' plays ZZ'
            if f.get('kind') == 'card_not_held' and f['board'] == pol.board and f['nth'] == pol.cards:
                mine = set(int(c) for c in self.hand_set)
                if parts[0] == self.player.formal_name:
                    sent = parts[2].upper()
                    cand = [c for c in range(52) if c not in mine and Client.card_str(C(c)) != sent]
                else:       # declarer playing from dummy: one of declarer's own cards is not in dummy's hand
                    cand = sorted(mine) or [0]
                return f'{parts[0]} plays {Client.card_str(C(cand[len(cand) // 2]))}'
            if self.variant.get('suit_first') and self.vr.random() < 0.5:
                message = f'{parts[0]} plays {parts[2][1]}{parts[2][0]}'
            if self.variant.get('case'):
                message = self.mangle(message)
        return message

    def _deal(self):
        super()._deal()
        self.bidding_system.board += 1
        self.bidding_system.calls = 0
        self.bidding_system.cards = 0
        self.bidding_system.decisions.append(dict(calls=[], cards=[]))
        self.texts.append(dict(calls=[], cards=[]))

    def bidding_phase(self):
        k = super().bidding_phase()
        self.replicas.append(dict(board=self.board_num, contract=[None if (k.final_bid is None or k.final_bid is Bid.Pass) else k.final_bid.idx,
                                                                   bool(k.x), bool(k.xx), VULS.index(k.vul),
                                                                   None if k.declarer is None else SEATS.index(k.declarer)]))
        return k

    def playing_phase(self, contract):
        # the client's own play replica is the env object handed to its playing system (captured there, per client)
        self.bidding_system.last_env = None
        try:
            return super().playing_phase(contract)
        finally:
            e = self.bidding_system.last_env
            if e is not None and self.replicas:
                self.replicas[-1]['play'] = dict(
                    leader=SEATS.index(e.leader), active=SEATS.index(e.active_player), trick_num=e.trick_num,
                    ns=e.taken_tricks[Pair.NS], ew=e.taken_tricks[Pair.EW], done=bool(e.has_done()),
                    history=[[SEATS.index(t.leader), [int(c) for c in t.cards]] for t in e.playing_history.history],
                    hand=ids(e.hand), dummy=None if e.dummy_hand is None else ids(e.dummy_hand))
            elif self.replicas:
                self.replicas[-1]['play'] = 'unobserved'      # dummy's client never consults its playing system


class VSock(cs.FakeSock):
    def __init__(self, client, **k):
        super().__init__(**k)
        self.client = client

    def sendall(self, data):
        text = bytes(data).decode('utf-8')
        if text.endswith('\r\n'):
            text = self.client.respell(text[:-2]) + '\r\n'
        return super().sendall(text.encode('utf-8'))


def run_session(k):
    cs.CEvent._n = 0
    cs.CQueue._n = 0
    choose = cs.replay_strategy(k['replay']) if k.get('replay') else cs.strategy(k['strategy'], k.get('sched_seed', 0))
    interrupt = None
    if k.get('fault', {}).get('kind') == 'interrupt':
        interrupt = ('main', k['fault']['point'])
    S = cs.Sched(choose, interrupt)
    cs.S = S
    cs.LISTEN = cs.Listen()
    srv.Event = cs.CEvent
    srv.Queue = cs.CQueue
    if hasattr(srv, 'Barrier'):
        srv.Barrier = cs.CBarrier

    class T:
        @staticmethod
        def sleep(s):
            S.point(('sleep',))
    srv.time = T
    counter = [0]
    PT = srv.PlayerThread
    if not hasattr(PT, '_verif_orig'):
        PT._verif_orig = (PT.run, PT.start, PT.join, PT.is_alive)
    o_run, o_start, o_join, o_alive = PT._verif_orig
    thread_end = {}

    def start(self):
        counter[0] += 1
        self._csn = f'conn{counter[0]}'
        S.add(self._csn)
        o_start(self)

    def run(self):
        S.bind(self._csn)
        try:
            o_run(self)
            S.point(('thread.exit', self._csn))      # the thread is still alive for a moment after its last operation
            thread_end[self._csn] = 'returned'
        except cs.Deadlock:
            thread_end[self._csn] = 'blocked'
        except BaseException as e:
            thread_end[self._csn] = 'raised ' + type(e).__name__
        finally:
            S.finish()

    def join(self, timeout=None):
        S.point(('join', self._csn), lambda: S.threads[self._csn]['state'] == 'done')
    PT.run, PT.start, PT.join = run, start, join
    PT.is_alive = lambda self: S.threads[self._csn]['state'] != 'done'

    boards = [BoardSetting(Hands(*[set(C(c) for c in h) for h in b['deal']]), SEATS[b['dealer']], VULS[b['vul']], b['board_id'],
                           None if b.get('dda') is None else {SEATS[p]: {list(__import__('bridge_env').Suit)[s]: n for s, n in row} for p, row in b['dda']})
              for b in k['boards']]
    tmp = tempfile.mkdtemp(prefix='verif_sess_', dir=os.environ.get('VERIF_WORK', None))
    out = pathlib.Path(tmp) / 'out.json'
    ends = {}

    def server_main():
        S.bind('main')
        try:
            s = srv.Server('localhost', 0, out, boards)
            s._socket = cs.LISTEN
            s.run()
            ends['main'] = 'returned'
        except cs.Deadlock:
            ends['main'] = 'blocked'
        except cs.Interrupt:
            ends['main'] = 'raised Interrupt'
        except BaseException as e:
            ends['main'] = 'raised ' + type(e).__name__ + ': ' + str(e)[:100]
        finally:
            S.finish()

    clients = {}

    def client_main(i, a):
        name = f'cli{i}'
        S.bind(name)
        try:
            pol = Policy(a.get('policy_seed', 0), a.get('style', 'competitive'), a.get('fault'), a.get('passout_boards', ()), a.get('forced'))
            c = VClient(SEATS[a['seat']], a['team'], pol, pol, 'x', 0, variant=a.get('variant'), vseed=a.get('policy_seed', 0) + 7, fault=a.get('fault'))
            c.PROTOCOL_VERSION = a.get('version', 18)
            c._socket = VSock(c, name=name)
            MessageInterface.__init__(c, connection_socket=c._socket)
            clients[i] = c
            import builtins
            c.run()
            ends[name] = 'returned'
        except cs.Deadlock:
            ends[name] = 'blocked'
        except BaseException as e:
            ends[name] = 'raised ' + type(e).__name__
        finally:
            S.finish()

    S.add('main')
    threads = [threading.Thread(target=server_main, daemon=True)]
    for i, a in enumerate(k['arrivals']):
        S.add(f'cli{i}')
        threads.append(threading.Thread(target=client_main, args=(i, a), daemon=True))
    import io, contextlib
    with contextlib.redirect_stdout(io.StringIO()):
        for t in threads:
            t.start()
        res = S.drive(k.get('max_steps', 400000))
        for t in threads:
            t.join(5)
    ends.update(thread_end)
    transcripts = {}
    for name, down, up in cs.LISTEN.pairs:
        transcripts[name] = dict(to_client=bytes(down.log).decode('utf-8', 'replace'), to_server=bytes(up.log).decode('utf-8', 'replace'),
                                 closed_by_server=down.closed)
    try:
        text = out.read_text()
    except OSError:
        text = None
    try:
        os.remove(out); os.rmdir(tmp)
    except OSError:
        pass
    # accept order = order of sock.connect operations
    order = [n for n, op in S.trace if op[0] == 'sock.connect']
    return dict(result=res[0], detail=res[1] if res[0] != 'finished' else None, steps=len(S.trace), ends=ends, transcripts=transcripts, log_text=text,
                connect_order=order, replicas={f'cli{i}': c.replicas for i, c in clients.items()},
                scripts={f'cli{i}': [dict(calls=list(zip(tx['calls'], d['calls'])), cards=list(zip(tx['cards'], d['cards'])))
                                     for tx, d in zip(c.texts, c.bidding_system.decisions)] for i, c in clients.items()},
                schedule=[n for n, _ in S.trace] if k.get('want_schedule') else None,
                ops=[[n, list(map(str, op))] for n, op in S.trace] if k.get('want_ops') else None)


if __name__ == '__main__':
    import logging
    logging.disable(logging.CRITICAL)
    inp = json.load(sys.stdin)
    outs = []
    for k in inp['sessions']:
        try:
            outs.append(run_session(k))
        except BaseException as e:
            outs.append(dict(result='harness-error', detail=traceback.format_exc()[-1500:]))
    print(json.dumps(outs))
