"""PBN import parser and export writer on the real code."""
import datetime, io, json, sys
from bridge_env import Bid, Card, Contract, Hands, Player, Vul
from bridge_env.data_handler.pbn_handler.parser import PbnParser
from bridge_env.data_handler.pbn_handler.writer import PbnWriter, Scoring

SEATS = [Player.N, Player.E, Player.S, Player.W]
VULS = [Vul.NONE, Vul.NS, Vul.EW, Vul.BOTH]
C = Card.int_to_card


def attempt(f):
    try:
        return dict(ok=f())
    except Exception as e:
        return dict(err=type(e).__name__ + ': ' + str(e)[:160])


def snorm(s):
    return dict(board_id=s.board_id, hands=[sorted(int(c) for c in s.hands[p]) for p in SEATS],
                dealer=SEATS.index(s.dealer) if isinstance(s.dealer, Player) else ['!', str(s.dealer)],
                vul=VULS.index(s.vul) if isinstance(s.vul, Vul) else ['!', str(s.vul)], dda=s.dda)


def import_case(k):
    text = k['text']
    return dict(settings=attempt(lambda: [snorm(s) for s in PbnParser().parse_board_settings(io.StringIO(text, newline=''))]),
                games=attempt(lambda: [list(map(list, g.items())) for g in PbnParser().parse_all(io.StringIO(text, newline=''))]))


def export_case(k):
    buf = io.StringIO()
    w = PbnWriter(buf)
    if k.get('header'):
        w.write_header()
    for r in k['results']:
        c = r['contract']
        fb = None if c['bid'] is None else Bid.int_to_bid(c['bid'])
        contract = Contract(fb, x=c['x'], xx=c['xx'], vul=VULS[c['vul']], declarer=None if c['decl'] is None else SEATS[c['decl']])
        w.write_board_result(event=r['event'], site=r['site'], date=datetime.date(*r['date']), board_num=r['board_num'],
                             west_player=r['players'][3], north_player=r['players'][0], east_player=r['players'][1], south_player=r['players'][2],
                             dealer=SEATS[r['dealer']], deal=Hands(*[set(C(x) for x in h) for h in r['deal']]), scoring=Scoring(r['scoring']),
                             contract=contract, taken_tricks=r['taken'])
    text = buf.getvalue()
    return dict(text=text, max_line=max([len(l) + 1 for l in text.split('\n')[:-1]] or [0]),
                games=attempt(lambda: [list(map(list, g.items())) for g in PbnParser().parse_all(io.StringIO(text))]),
                settings=attempt(lambda: [snorm(s) for s in PbnParser().parse_board_settings(io.StringIO(text))]))


def line_case(k):
    buf = io.StringIO()
    PbnWriter(buf).write_line(k['text'])
    return dict(out=buf.getvalue())


inp = json.load(sys.stdin)
print(json.dumps(dict(imports=[import_case(k) for k in inp.get('imports', [])], exports=[export_case(k) for k in inp.get('exports', [])],
                      lines=[line_case(k) for k in inp.get('lines', [])])))
