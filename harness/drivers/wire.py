"""Protocol text layer: builders, parsers, framing on the real code."""
import json, sys, threading
from bridge_env import Bid, Card, Player, Vul
from bridge_env.network_bridge.client import Client
from bridge_env.network_bridge.server import PlayerThread, Server
from bridge_env.network_bridge.socket_interface import MessageInterface

SEATS = [Player.N, Player.E, Player.S, Player.W]
VULS = [Vul.NONE, Vul.NS, Vul.EW, Vul.BOTH]
C = Card.int_to_card


def ids(cards):
    return sorted(int(c) for c in cards)


class FakeSock:
    """Delivers a byte string in the given chunk sizes; after the data: b'' (peer closed). Counts reads after EOF."""
    def __init__(self, data, chunks):
        self.parts = []
        i = 0
        for n in chunks:
            if i >= len(data):
                break
            self.parts.append(data[i:i + n]); i += n
        if i < len(data):
            self.parts.append(data[i:])
        self.buf = b''
        self.after_eof = 0

    def recv(self, n):
        if not self.buf:
            if self.parts:
                self.buf = self.parts.pop(0)
            else:
                self.after_eof += 1
                if self.after_eof > 1000:
                    raise SystemError('SPIN')     # watchdog: the receiver keeps reading a closed connection
                return b''
        out, self.buf = self.buf[:n], self.buf[n:]
        return out

    def sendall(self, b):
        pass

    def close(self):
        pass


def frame_case(k):
    data = bytes(k['data'])
    s = FakeSock(data, k['chunks'])
    mi = MessageInterface(s)
    msgs, end = [], None
    for _ in range(len(data) + 5):
        try:
            m = mi.receive_message()
            msgs.append(list(m.encode('utf-8')))
        except SystemError:
            end = 'spin'; break
        except UnicodeDecodeError:
            end = 'decode'; break
        except Exception:
            end = 'error'; break
    return dict(msgs=msgs, end=end, leftover=(len(s.buf) + sum(len(p) for p in s.parts)))


def call(k):
    f, a = k['f'], k['args']
    try:
        if f == 'hand_line':        # server builds, client parses
            line = f"{a[0]}'s cards : " + Server.hand_to_str(set(C(c) for c in a[1]))
            hs = Client.parse_cards(line, a[0])
            st, tup = Client.parse_hand(hs)
            return dict(line=line, cards=ids(st), tuple_ok=(list(tup) == [1 if i in ids(st) else 0 for i in range(52)]))
        if f == 'hand_to_str':
            return dict(text=Server.hand_to_str(set(C(c) for c in a[0])))
        if f == 'parse_hand_line':
            hs = Client.parse_cards(a[0], a[1]); st, _ = Client.parse_hand(hs)
            return dict(cards=ids(st))
        if f == 'bid_message':
            return dict(text=Client.create_bid_message(Bid.int_to_bid(a[0]), a[1]))
        if f == 'parse_bid':
            return dict(call=MessageInterface.parse_bid(a[0], a[1]).idx)
        if f == 'server_read_bid':   # Server.bidding_phase's handling of a received call
            m = a[0]
            if 'alert' in m.lower():
                m = Server.remove_alert_word(m)
            return dict(relayed=m, call=MessageInterface.parse_bid(m, a[1]).idx)
        if f == 'server_auction':
            # the real Server.bidding_phase fed from pre-filled queues: a = [dealer idx, [[seat idx, message], ...]]
            import pathlib, queue
            srv = Server('localhost', 0, pathlib.Path('unused.json'))

            class Q(queue.Queue):
                def get(self, block=True, timeout=None):
                    return queue.Queue.get(self, block=False)      # an empty queue means the script is exhausted: raise
            srv.received_message_queues = {p: Q() for p in SEATS}
            for seat, m in a[1]:
                srv.received_message_queues[SEATS[seat]].put(m)
            contract, hist = srv.bidding_phase(SEATS[a[0]], VULS[0])
            relayed = {}
            for i, p in enumerate(SEATS):
                items = []
                while not srv.sent_message_queues[p].empty():
                    items.append(srv.sent_message_queues[p].get())
                relayed[i] = items
            return dict(hist=[b.idx for b in hist], relayed=relayed)
        if f == 'remove_alert':
            return dict(text=Server.remove_alert_word(a[0]))
        if f == 'card_str':
            return dict(text=Client.card_str(C(a[0])), alt=str(C(a[0])))
        if f == 'parse_card':
            return dict(card=int(MessageInterface.parse_card(a[0], SEATS[a[1]])))
        if f == 'header':
            srv_fmt = (f'Board number {a[0]}. Dealer {SEATS[a[1]].formal_name}. {Server.convert_vul(VULS[a[2]])} vulnerable.')
            n, d, v = Client.parse_board(srv_fmt)
            return dict(text=srv_fmt, n=str(n), d=SEATS.index(d), v=VULS.index(v))
        if f == 'parse_board':
            n, d, v = Client.parse_board(a[0])
            return dict(n=str(n), d=SEATS.index(d), v=VULS.index(v))
        if f == 'parse_team_names':
            ns, ew = Client.parse_team_names(a[0])
            return dict(ns=ns, ew=ew)
        if f == 'parse_connection_info':
            t, p, v = PlayerThread.parse_connection_info(a[0])
            return dict(team=t, seat=SEATS.index(p), version=str(v))
        if f == 'check_message':
            import re
            pattern = a[0].replace(' ', r'\s+')
            return dict(ok=re.fullmatch(pattern, a[1], re.IGNORECASE) is not None)
        if f == 'leader':
            return dict(seat=SEATS.index(Client.parse_leader_message(a[0], SEATS[a[1]])))
    except Exception as e:
        return dict(raises=type(e).__name__)
    return dict(raises='unknown function')


inp = json.load(sys.stdin)
print(json.dumps(dict(calls=[call(k) for k in inp.get('calls', [])], frames=[frame_case(k) for k in inp.get('frames', [])])))
