"""Deal encodings: PBN, binary (tuple and numpy), JSON; random dealer."""
import json, random, sys
import numpy as np
from bridge_env import Card, Hands, Player
from bridge_env.data_handler.json_handler.writer import convert_deal
from bridge_env.data_handler.json_handler.parser import hands_parser

SEATS = [Player.N, Player.E, Player.S, Player.W]
C = Card.int_to_card


def ids(cards):
    return sorted(int(c) for c in cards)


def hv(h):
    return [ids(h[p]) for p in SEATS]


def case(k):
    hands = Hands(*[set(C(c) for c in h) for h in k['deal']])
    out = {}
    try:
        s = hands.to_pbn(SEATS[k['first']])
        out['pbn'] = s
        try:
            h1 = Hands.convert_pbn(s + k.get('suffix', ''))
            out['pbn_back'] = hv(h1)
            # the play removes cards from decoded hands in place: a second decode must not be affected
            for p in SEATS:
                for c in list(h1[p])[:3]:
                    h1[p].discard(c)
                h1[p].add(C(0))
            if hv(Hands.convert_pbn(s + k.get('suffix', ''))) != out['pbn_back']:
                out['pbn_back'] = ['decode after a decoded deal was modified differs']
        except Exception as e:
            out['pbn_back'] = None
    except Exception as e:
        out['pbn'] = None
        out['pbn_back'] = None
    try:
        b = hands.to_binary()
        out['bin'] = [list(b[p]) for p in SEATS]
        hb = Hands.convert_binary(b)
        out['bin_back'] = hv(hb)
        for p in SEATS:
            hb[p].clear()
        if hv(Hands.convert_binary(b)) != out['bin_back']:
            out['bin_back'] = None
        nps = []
        for dt in (np.int32, np.int8, np.int64, np.float64, np.bool_, np.uint8):
            nb = hands.to_np_binary(dt)
            nps.append(all(len(nb[p]) == 52 and [int(x) for x in nb[p]] == list(b[p]) and nb[p].dtype == dt for p in SEATS)
                       and hv(Hands.convert_np_binary(nb)) == out['bin_back'])
        out['np_ok'] = all(nps)
    except Exception as e:
        out['bin'] = None; out['bin_back'] = None; out['np_ok'] = False
    try:
        j = convert_deal(hands)
        out['json'] = [j[p] for p in 'NESW']
        out['json_keys'] = list(j.keys()) == ['N', 'E', 'S', 'W']
        hj = hands_parser(json.loads(json.dumps(j)))
        out['json_back'] = hv(hj)
        for p in SEATS:
            hj[p].clear()
        if hv(hands_parser(json.loads(json.dumps(j)))) != out['json_back']:
            out['json_back'] = None
    except Exception as e:
        out['json'] = None; out['json_back'] = None; out['json_keys'] = False
    out['eq_self'] = bool(hands == Hands(*[set(C(c) for c in h) for h in k['deal']]))
    return out


def dealer(seed):
    random.seed(seed)
    h = Hands.generate_random_hands()
    return hv(h)


inp = json.load(sys.stdin)
print(json.dumps(dict(cases=[case(k) for k in inp['cases']], dealer=[dealer(s) for s in inp['dealer']])))
