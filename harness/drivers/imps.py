import json, sys
from bridge_env.score import point_difference_to_imps, score_to_imp
i = json.load(sys.stdin)
def ev(f):
    try:
        v = f()
        return v if isinstance(v, int) and not isinstance(v, bool) else None
    except BaseException:
        return None
# integers travel as decimal strings (JSON numbers would lose precision in some readers)
print(json.dumps(dict(one=[ev(lambda: point_difference_to_imps(int(d))) for d in i['one']],
                      two=[ev(lambda: score_to_imp(int(a), int(b))) for a, b in i['two']])))
