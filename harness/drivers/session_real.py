"""The same sessions as drivers/session.py but with REAL sockets on localhost and the OS scheduling the real threads
(no controlled scheduler): validates that the controlled runs are representative.  time.sleep of the server is shortened."""
import json, os, pathlib, random, socket, sys, tempfile, threading, time

sys.argv = [sys.argv[0]]
import session as S          # reuses Policy, VClient (harness/drivers is on sys.path)
import bridge_env.network_bridge.server as srv
from bridge_env.network_bridge.client import Client
from bridge_env.network_bridge.socket_interface import MessageInterface
from bridge_env import Card, Hands, Player, Vul, Suit
from bridge_env.data_handler.abstract_classes import BoardSetting

SEATS = S.SEATS
VULS = S.VULS
C = Card.int_to_card


class LogSock:
    """A real socket whose traffic is recorded; outgoing lines are respelled like VSock does."""
    def __init__(self, sock, client):
        self.sock, self.client = sock, client
        self.sent, self.recvd = bytearray(), bytearray()

    def sendall(self, data):
        text = bytes(data).decode('utf-8')
        if text.endswith('\r\n'):
            text = self.client.respell(text[:-2]) + '\r\n'
        b = text.encode('utf-8')
        self.sent += b
        return self.sock.sendall(b)

    def recv(self, n):
        b = self.sock.recv(n)
        self.recvd += b
        return b

    def connect(self, addr):
        return self.sock.connect(addr)

    def close(self):
        return self.sock.close()


def run_session(k):
    real_sleep = time.sleep

    class T:
        @staticmethod
        def sleep(s):
            real_sleep(0.002)
    srv.time = T
    boards = [BoardSetting(Hands(*[set(C(c) for c in h) for h in b['deal']]), SEATS[b['dealer']], VULS[b['vul']], b['board_id'],
                           None if b.get('dda') is None else {SEATS[p]: {list(Suit)[s]: n for s, n in row} for p, row in b['dda']})
              for b in k['boards']]
    tmp = tempfile.mkdtemp(prefix='verif_real_')
    out = pathlib.Path(tmp) / 'out.json'
    port = random.randint(20000, 45000)
    ends, clients, socks = {}, {}, {}

    def server_main():
        try:
            with srv.Server('localhost', port, out, boards) as s:
                s._socket.setsockopt(socket.SOL_SOCKET, socket.SO_REUSEADDR, 1)
                s.run()
            ends['main'] = 'returned'
        except BaseException as e:
            ends['main'] = 'raised ' + type(e).__name__

    def client_main(i, a):
        try:
            pol = S.Policy(a.get('policy_seed', 0), a.get('style', 'competitive'), a.get('fault'), a.get('passout_boards', ()))
            c = S.VClient(SEATS[a['seat']], a['team'], pol, pol, 'localhost', port, variant=a.get('variant'), vseed=a.get('policy_seed', 0) + 7, fault=a.get('fault'))
            c.PROTOCOL_VERSION = a.get('version', 18)
            ls = LogSock(socket.socket(socket.AF_INET, socket.SOCK_STREAM), c)
            c._socket = ls
            MessageInterface.__init__(c, connection_socket=ls)
            clients[i], socks[i] = c, ls
            c.run()
            ends[f'cli{i}'] = 'returned'
        except BaseException as e:
            ends[f'cli{i}'] = 'raised ' + type(e).__name__
        finally:
            try:
                ls.sock.close()
            except Exception:
                pass
    import io, contextlib
    with contextlib.redirect_stdout(io.StringIO()):
        st = threading.Thread(target=server_main, daemon=True)
        st.start()
        real_sleep(0.3)
        cts = []
        for i, a in enumerate(k['arrivals']):
            t = threading.Thread(target=client_main, args=(i, a), daemon=True)
            t.start()
            cts.append(t)
            real_sleep(0.08)          # arrival order = list order
        st.join(120)
        for t in cts:
            t.join(5)
    for i in range(len(k['arrivals'])):
        ends[f'conn{i + 1}'] = 'returned'       # server threads are not observable from outside; main returned => they were joined
    if st.is_alive():
        ends['main'] = 'blocked'
    transcripts = {f'cli{i}': dict(to_client=bytes(socks[i].recvd).decode('utf-8', 'replace'), to_server=bytes(socks[i].sent).decode('utf-8', 'replace'),
                                   closed_by_server=False) for i in socks}
    try:
        text = out.read_text()
        os.remove(out); os.rmdir(tmp)
    except OSError:
        text = None
    return dict(result='finished' if ends.get('main') == 'returned' else 'hung', detail=None, steps=0, ends=ends, transcripts=transcripts, log_text=text,
                connect_order=[f'cli{i}' for i in range(len(k['arrivals']))], replicas={f'cli{i}': c.replicas for i, c in clients.items()},
                scripts={f'cli{i}': [dict(calls=list(zip(tx['calls'], d['calls'])), cards=list(zip(tx['cards'], d['cards'])))
                                     for tx, d in zip(c.texts, c.bidding_system.decisions)] for i, c in clients.items()})


if __name__ == '__main__':
    import logging
    logging.disable(logging.CRITICAL)
    inp = json.load(sys.stdin)
    print(json.dumps([run_session(k) for k in inp['sessions']]))
