"""Writes MANIFEST.json from the table below (run after adding a property check)."""
import json, os
V = os.path.dirname(os.path.dirname(os.path.abspath(__file__)))
PROPS = [json.loads(l)['id'] for l in open(os.path.join(V, 'properties.jsonl'))]

CLAIMED = {
 'C07': dict(
   text='Kernel-checked theorems over the complete finite domain: the Coq model of score.py (constants regenerated from the source on every run) equals the Law 77 formulas on all 35x4x4x4x14 + passed-out points, and equals the running implementation on every one of those points (graph regenerated on every run and compared by vm_compute inside a theorem). Nothing is sampled.',
   design='4/C07', technique='Coq proof by complete-domain evaluation (vm_compute + forallb_forall); translator for constants; complete-domain graph tie',
   note='Trusted: Coq kernel + vm_compute; harness/gen.py reads score.py constants; drivers/score_graph.py prints what the implementation returned; Spec/Duplicate.v is the statement of Law 77. Print Assumptions: closed under the global context for all five theorems.'),
 'C15': dict(
   text='Kernel-checked over the complete finite domains (52 cards, all 2 704 card pairs x 5 comparison operators, 38 calls, 4 seats, 4 vulnerabilities in every spelling, 5 suits, 2 pairs, 35 bids x 4 flag pairs x 4 vul x 5 declarer options + passed out): (i) the tables of what the implementation\'s converters return, regenerated on every run, satisfy the round-trip / injectivity / order checker of Spec/Notation.v (theorem by vm_compute on the tables), (ii) the structural models of Model/Basics.v equal those tables, (iii) round-trip, injectivity and order theorems for the models by case analysis. Nothing is sampled.',
   design='4/C15', technique='Coq proof by complete-domain evaluation and case analysis; complete-domain graph tie; enum translators',
   note='Trusted: Coq kernel + vm_compute; drivers/notation_graph.py prints what each converter returned; Spec/Notation.v states the property on tables. Print Assumptions: closed under the global context.'),
 'C16': dict(
   text='Theorems for every integer d (unbounded Z, by induction over the sorted threshold list): the model of point_difference_to_imps equals the official IMP scale, lies in [-24,24], is monotone and odd, is 0 below 20 and 24 from 4000, and score_to_imp a b is the scale at a+b. The threshold tuple is regenerated from score.py on every run and proved equal to the official scale; the model is tied to the code by a differential run (window around 0, every threshold +-1/9/10/11, magnitudes to 1e30) whose comparison is evaluated in Coq.',
   design='4/C16', technique='Coq proof by induction (all integers); translator for the threshold tuple; differential correspondence evaluated by vm_compute',
   note='Trusted: Coq kernel + vm_compute; translator for _IMPS_LIST; drivers/imps.py; Spec/Duplicate.v official_imp_bounds is the statement of the official scale. The while-loop is modelled by a 24-fuel scan (the loop bound in the code). Print Assumptions: closed under the global context.'),
 'C04': dict(
   text='Theorems about the Coq model of PlayingPhase for every contract and EVERY list of cards (any length, repeats and revokes included), by induction over the card list: the winner computation satisfies the declarative law of Spec/PlayLaws.v (highest trump, else highest of the suit led; unique), opening leader/dummy, turn = leader rotated by cards on the table, each 4th card records (actual leader, the four cards), winner leads, winner\'s side +1 and the other unchanged, the record is the cards in order, 13 tricks and done exactly at 52. Model tied to the code by a differential run (bare env with arbitrary lists, boards with hands, calc_highest) whose comparison and whose independent reference (Spec/PlayOracle.v) are evaluated in Coq.',
   design='4/C04', technique='Coq proof by induction over arbitrary card lists + invariant; differential correspondence and Spec oracle evaluated by vm_compute',
   note='Trusted: Coq kernel + vm_compute; drivers/play.py; Python set/list/enum semantics modelled. Print Assumptions: closed under the global context.'),
 'C05': dict(
   text='Theorems for every disjoint deal and every list of (card, seat) attempts: a play is accepted iff the seat is on turn and holds the card, a refused play returns the same state, an accepted play removes exactly that card from exactly that hand; invariant by induction over the attempts: remaining hands + accepted plays partition the deal, hands stay disjoint and duplicate-free, no card is played twice, used_cards = the accepted cards, all hands empty after 52 accepted plays. Tie: boards with wrong-seat / foreign / replayed attempts injected, snapshot before/after every refusal, compared with the model and with the independent reference in Coq; the four observer replicas on the same boards.',
   design='4/C05', technique='Coq proof: invariant by induction over arbitrary operation lists; differential correspondence and Spec oracle evaluated by vm_compute',
   note='Trusted: as C04. Sets of cards are modelled as lists with membership semantics (statements are pointwise, no functional extensionality). Print Assumptions: closed.'),
 'C06': dict(
   text='Theorems for every hand (any list of cards), every led card or none, every state: membership in the model of available_cards is exactly the follow-suit rule of Spec/PlayLaws.v (whole hand when leading or void, else exactly the cards of the suit led), never empty for a non-empty hand, a subset of the hand, current_available_cards = available w.r.t. the first card of the trick, and random.choice modelled as an arbitrary index always lands in the set. Tie: static hands of every size against led cards, every state of generated boards for the full-information env, the observer\'s own hand and declarer\'s dummy hand, and RandomPlay.play at every state; compared with model and Spec in Coq.',
   design='4/C06', technique='Coq proof (all hands, all led cards); differential correspondence and Spec oracle evaluated by vm_compute',
   note='Trusted: as C04; random.choice(list(set)) modelled as "some index". Print Assumptions: closed.'),
 'C11': dict(
   text='(a) In process: theorem C11_observer_agrees - for every disjoint deal, contract, observer seat and every sequence of plays the full-information model accepts, the observer model accepts every step and its public state (contract data, leader, turn, trick, trick number, history, counts) equals the full state, its own and dummy\'s remaining cards equal the true hands; proved as a step-wise simulation. Tie: four ObservedPlayingPhase replicas fed every accepted play of generated boards, compared in Coq with model and reference. (b) Over the wire: the bundled Client in controlled sessions (see C08/C10 machinery) - replicas of auction and play compared at the end of each board.',
   design='4/C11', technique='Coq proof: simulation relation by induction; differential correspondence evaluated by vm_compute; controlled-scheduler sessions for the network part',
   note='Trusted: as C04; part (b) additionally the controlled scheduler and fake sockets. Print Assumptions: closed.'),
 'C01': dict(
   text='Theorems about the Coq model of BiddingPhase, for every dealer, vulnerability and EVERY list of offered calls, legal or not (induction over the offers with one invariant tying each cached field to a function of the bare history): in every not-ended reachable state the 38-slot vector is exactly the legal set of Spec/Laws.v (pass always; bid iff it outranks the last bid; double iff the last non-pass call is an opponent\'s bid; redouble iff it is an opponent\'s double), a call is accepted iff legal, reported ILLEGAL iff not, a rejected call returns the identical state, an accepted call appends exactly itself. Tie: walks of offers (directed families, the 319-call auction, random/competitive walks, all short sequences) with all 38 calls probed on copies, snapshot comparison around refusals; model and Law-19 oracle both evaluated in Coq on the recorded behaviour.',
   design='4/C01', technique='Coq proof: invariant by induction over arbitrary offer lists; differential correspondence and Spec oracle evaluated by vm_compute',
   note='Trusted: Coq kernel + vm_compute; drivers/auction.py; numpy vector / dict / Enum semantics modelled. Spec/Laws.v is the statement of Laws 18-22. Print Assumptions: closed under the global context.'),
 'C02': dict(
   text='Same model and quantifiers as C01: the seat on turn is the dealer rotated by the number of accepted calls and none once the auction has ended; ended (Spec/Laws.v: four opening passes, or three passes after any bid, double or redouble) holds exactly when the model says done - never earlier, and no reachable history has an ended proper prefix (never later); FINISHED is returned exactly by the call that ends it; each seat\'s personal list is its share of the common history; after the end every call raises and returns the same state; no auction is longer than 319 calls (and the 319-call auction is accepted).',
   design='4/C02', technique='Coq proof: invariant by induction over arbitrary offer lists (+ potential argument for the length bound); correspondence and oracle evaluated by vm_compute',
   note='Trusted: as C01. Print Assumptions: closed under the global context.'),
 'C03': dict(
   text='Same model and quantifiers: when the auction has ended contract() is exactly contract_spec of the bare history - the last bid, x / xx iff a double / redouble follows it, the board\'s vulnerability, declarer = the first member of the last bidder\'s side to have named that strain anywhere in the auction, passed out with no declarer when there is no bid; before the end no contract is reported.',
   design='4/C03', technique='Coq proof: invariant by induction over arbitrary offer lists; correspondence and oracle evaluated by vm_compute',
   note='Trusted: as C01. Print Assumptions: closed under the global context.'),
 'C14': dict(
   text='Theorems for every deal (no sampling, no size bound other than the pack): every deal whose hands are duplicate-free with 13 or 0 cards is written as PBN from any first seat and convert_pbn of that text yields the same four hands; the text has the canonical shape (first seat then clockwise; S.H.D.C; each field exactly the ranks held, strictly high to low; void = empty field; unknown hand = "-"; 16 characters per hand); the 52-slot vectors decode back for any disjoint hands; the JSON list is strictly ascending, lists each card once and decodes back; whatever permutation of the pack the shuffle returns, the dealer yields four disjoint 13-card hands covering the pack. Tie: random, skewed (voids, 7+ suits), partial and odd-sized deals through the real encoders/decoders (numpy form under six dtypes), compared with the model and checked against the statement by an independent checker, both in Coq; dealer under random seeds.',
   design='4/C14', technique='Coq proof by induction over strings / card lists (all deals); differential correspondence and Spec oracle evaluated by vm_compute',
   note='Trusted: Coq kernel + vm_compute; drivers/hands.py; Python re for DEAL_PATTERN/HAND_PATTERN mirrored by direct matchers (hand fields with other than three dots are outside the model), random.shuffle = some permutation, numpy indexing. Print Assumptions: closed under the global context.'),
}

def main():
    checks = []
    for p in PROPS:
        if p in CLAIMED:
            c = CLAIMED[p]
            checks.append(dict(property_id=p, quick_cmd=f'./check {p} --tier quick', thorough_cmd=f'./check {p} --tier thorough',
                               evidence_file=f'/verif/evidence/{p}.json', replay_cmd_template=f'./check {p} --replay {{path}}',
                               engine='coq', level_claimed=dict(category='proof', text=c['text'], design_ref=c['design']),
                               level_note=c['note'], technique=c['technique']))
    na = [dict(property_id=p, reason='check not built yet (work in progress; see DESIGN.md section 7) - no claim is made') for p in PROPS if p not in CLAIMED]
    m = dict(version=1, setup_cmd='./setup.sh',
             hooks=dict(guard='BRIDGE_ENV_VERIF', enable='none needed: the harness substitutes threading/queue/socket objects through module attributes; BRIDGE_ENV_VERIF=1 is set for drivers but no source hook reads it',
                        baseline_off_cmd='cd /repo && /venv/bin/python -m pytest -ra -q -p no:cacheprovider --timeout=900 --continue-on-collection-errors',
                        source_commits=[], add_only=True),
             engines=[dict(name='coq', path='/verif/coq', serves_properties=sorted(CLAIMED), kind_free_text='Coq 8.16.1 models, specs and proofs; generated Gen/ and Cases/ files; Python harness for translators, drivers and the correspondence')],
             checks=checks, not_applicable=na,
             notes='See DESIGN.md. Every check regenerates coq/Gen from /repo, rebuilds the proof cone, runs the correspondence and the Spec oracle in Coq, and writes evidence/<id>.json.')
    json.dump(m, open(os.path.join(V, 'MANIFEST.json'), 'w'), indent=1)

if __name__ == '__main__':
    main()
