"""Writes MANIFEST.json from the table below (run after adding a property check)."""
import json, os
V = os.path.dirname(os.path.dirname(os.path.abspath(__file__)))
PROPS = [json.loads(l)['id'] for l in open(os.path.join(V, 'properties.jsonl'))]

CLAIMED = {
 'C07': dict(
   text='Kernel-checked theorems over the complete finite domain: the Coq model of score.py (constants regenerated from the source on every run) equals the Law 77 formulas on all 35x4x4x4x14 + passed-out points, and equals the running implementation on every one of those points (graph regenerated on every run and compared by vm_compute inside a theorem). Nothing is sampled.',
   design='4/C07', technique='Coq proof by complete-domain evaluation (vm_compute + forallb_forall); translator for constants; complete-domain graph tie',
   note='Trusted: Coq kernel + vm_compute; harness/gen.py reads score.py constants; drivers/score_graph.py prints what the implementation returned; Spec/Duplicate.v is the statement of Law 77. Print Assumptions: closed under the global context for all five theorems.'),
}

def main():
    checks = []
    for p in PROPS:
        if p in CLAIMED:
            c = CLAIMED[p]
            checks.append(dict(property_id=p, quick_cmd=f'./check {p} --tier quick', thorough_cmd=f'./check {p} --tier thorough',
                               evidence_file=f'/verif/evidence/{p}.json', replay_cmd_template=f'./check {p} --replay {{path}}',
                               engine='coq', level_claimed=dict(category='proof', text=c['text'], design_ref=c['design']),
                               level_note=c['note'], technique=c['technique']))
    na = [dict(property_id=p, reason='check not built yet (work in progress; see DESIGN.md section 7) - no claim is made') for p in PROPS if p not in CLAIMED]
    m = dict(version=1, setup_cmd='./setup.sh',
             hooks=dict(guard='BRIDGE_ENV_VERIF', enable='none needed: the harness substitutes threading/queue/socket objects through module attributes; BRIDGE_ENV_VERIF=1 is set for drivers but no source hook reads it',
                        baseline_off_cmd='cd /repo && /venv/bin/python -m pytest -ra -q -p no:cacheprovider --timeout=900 --continue-on-collection-errors',
                        source_commits=[], add_only=True),
             engines=[dict(name='coq', path='/verif/coq', serves_properties=sorted(CLAIMED), kind_free_text='Coq 8.16.1 models, specs and proofs; generated Gen/ and Cases/ files; Python harness for translators, drivers and the correspondence')],
             checks=checks, not_applicable=na,
             notes='See DESIGN.md. Every check regenerates coq/Gen from /repo, rebuilds the proof cone, runs the correspondence and the Spec oracle in Coq, and writes evidence/<id>.json.')
    json.dump(m, open(os.path.join(V, 'MANIFEST.json'), 'w'), indent=1)

if __name__ == '__main__':
    main()
