"""C06 - the playable-card set is exactly the follow-suit rule."""
import lib
from props import play_common as pc

TARGETS = ['Props/C06.vo']
ASSUMPTIONS = ['drivers/play.py records available_cards / current_available_cards* results and RandomPlay.play choices']
T = 'list nat * option nat * list nat'


def run(ctx):
    inp = pc.gen(ctx, {'hands', 'observers', 'avail', 'random_play'})
    out = lib.run_impl('play', inp)
    lib.make(['Spec/PlayOracle.vo', 'Model/PlayTie.vo'])
    triples = [(k['hand'], k['led'], o) for k, o in zip(inp['avail'], out['avail'])]
    for o in out['hands']:
        triples += [tuple(a) for a in o['avail']]
    choices = [tuple(c) for o in out['hands'] for c in o['choices']]
    lits = [pc.lit_avail(*t) for t in triples]
    viol, ties = [], []
    res = pc.run_shards('C06', 'oracle', pc.IMP_O, T, pc.B2N.format('c06_case'), lits, 1500)
    for t, code in zip(triples, res):
        if code:
            viol.append(dict(kind='playable set is not the follow-suit rule', input=dict(hand=t[0], hand_names=pc.names(t[0]), led=t[1], led_name=None if t[1] is None else pc.CARD(t[1])),
                             observed=t[2], expected='whole hand when leading or void in the suit led, otherwise the cards of the suit led',
                             how_found='available_cards / current_available_cards* on a generated hand or a state of a board in progress',
                             theorem_or_tie='C06_available_spec', signature=dict(kind='c06')))
    cl = [f"({pc.nl(h)}, {lib.copt(l, str)}, {c})" for h, l, c in choices]
    cres = pc.run_shards('C06', 'oracle_choice', pc.IMP_O, 'list nat * option nat * nat', pc.B2N.format('c06_choice'), cl, 1500) if cl else []
    for t, code in zip(choices, cres):
        if code:
            viol.append(dict(kind='bundled player chose outside the playable set', input=dict(hand=t[0], led=t[1]), observed=t[2], expected='a member of the playable set',
                             how_found='RandomPlay.play in a board state', theorem_or_tie='C06_random_play_in_set', signature=dict(kind='c06 choice')))
    viol.sort(key=lambda v: len(str(v['input'])))
    try:
        tr = pc.run_shards('C06', 'tie', pc.IMP_T, T, pc.B2N.format('t06_case'), lits, 1500)
        if any(tr):
            ties.append(dict(what='Model/Play.v available differs from the implementation', count=sum(1 for c in tr if c)))
    except lib.CoqEvalError as e:
        ties.append(dict(what='tie case file does not evaluate', detail=str(e)[-600:]))
    nontriv = {(tuple(h), l) for h, l, _ in triples if l is not None and any(c // 13 == l // 13 for c in h) and any(c // 13 != l // 13 for c in h)}
    sizes = {}
    for h, l, _ in triples:
        sizes[len(h)] = sizes.get(len(h), 0) + 1
    return dict(evaluations=len(triples) + len(choices), distinct_nontrivial=len(nontriv),
                rule='static hands of every size 1..13 against led cards (every led card against two fixed hands), and every state of generated boards: the full-information '
                     "env's set for the seat on turn, the observer's own-hand set and declarer's dummy-hand set; RandomPlay.play at every state; "
                     'non-trivial = the hand holds both cards of the suit led and other cards; distinct by (hand, led)',
                samples=[dict(hand=pc.names(triples[3][0]), led=triples[3][1], result=pc.names(triples[3][2]))],
                distribution=dict(hand_sizes=sizes, leading=sum(1 for t in triples if t[1] is None), random_play_choices=len(choices)),
                violations=viol[:10], tie_mismatches=ties)


def replay(ctx, rp):
    i = rp['input']
    out = lib.run_impl('play', dict(avail=[dict(hand=i['hand'], led=i['led'])]))
    return any(pc.run_shards('C06', 'replay', pc.IMP_O, T, pc.B2N.format('c06_case'), [pc.lit_avail(i['hand'], i['led'], out['avail'][0])], 10))
