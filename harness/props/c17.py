"""C17 - board-settings files (JSON and PBN import) are read back as the boards that were written, in order."""
import json
import lib
from props import play_common as pc
from props import json_common as jc
from props import pbn_common as pb

TARGETS = ['Props/C17.vo']
ASSUMPTIONS = ['drivers/jsonlog.py and drivers/pbn.py write / read with the real classes (PBN text through io.StringIO(newline="") so CR LF survives) and print value objects as indices']
IMP_O = 'From BE Require Import Model.Json Model.JsonTie Spec.JsonOracle Model.CaseLib.\nFrom Coq Require Import ZArith.'
IMP_TJ = 'From BE Require Import Model.Json Model.Schema Model.JsonTie Model.CaseLib Gen.JsonFraming Gen.Schemas.\nFrom Coq Require Import ZArith.'
IMP_TP = 'From BE Require Import Model.Json Model.JsonTie Model.Pbn Model.PbnTie Model.CaseLib.\nFrom Coq Require Import ZArith.'
STYLES = [
    dict(name='plain', eol='\n', blanks='empty', extras=False, header=False, lead=[0], between=[1], trail=[0, 1]),
    dict(name='export-like', eol='\n', blanks='empty', extras=True, header=True, lead=[0], between=[1], trail=[1]),
    dict(name='blank runs', eol='\n', blanks='ws', extras=True, header=True, lead=[0, 1, 3], between=[1, 2, 4], trail=[0, 2]),
    dict(name='crlf', eol='\r\n', blanks='ws', extras=True, header=True, lead=[0, 2], between=[1, 3], trail=[0, 1, 2]),
    dict(name='tag spacing', eol='\n', blanks='ws', extras=True, header=False, lead=[0, 1], between=[1, 2], trail=[1], tagspace=True),
]


def ol(x, f):
    return 'None' if x is None else f'(Some {f(x)})'


def run(ctx):
    r = lib.rng(ctx['seed'], 'C17')
    th = ctx['tier'] == 'thorough'
    LJ = lambda l: '[' + '; '.join(jc.cj(x) for x in l) + ']'
    viol, ties = [], []
    # ---- JSON half
    jcases = [[]] + [[jc.gen_setting(r) for _ in range(r.randint(1, 5))] for _ in range(200 if th else 30)]
    jout = lib.run_impl('jsonlog', dict(settings=jcases))['settings']
    # ---- PBN half
    pcases = []
    for i in range(600 if th else 80):
        st = STYLES[i % len(STYLES)]
        boards = [pb.gen_board(r, j) for j in range(r.choice([0, 1, 1, 2, 3, 5]))]
        pcases.append(dict(boards=boards, style=st['name'], text=pb.render_layout(r, boards, st)))
    pout = lib.run_impl('pbn', dict(imports=[dict(text=c['text']) for c in pcases]))['imports']
    lib.make(['Spec/JsonOracle.vo', 'Model/JsonTie.vo', 'Gen/JsonFraming.vo', 'Gen/Schemas.vo', 'Model/PbnTie.vo'])
    lits = [f"({LJ([jc.written_setting(x) for x in ss])}, {ol(o['settings'].get('ok'), LJ)})" for ss, o in zip(jcases, jout)]
    lits += [f"({LJ([pb.setting_norm(b) for b in c['boards']])}, {ol(o['settings'].get('ok'), LJ)})" for c, o in zip(pcases, pout)]
    res = pc.run_shards('C17', 'oracle', IMP_O, 'list json * option (list json)', pc.B2N.format('read_equals_written'), lits, 12)
    for ss, o, code in zip(jcases, jout, res[:len(jcases)]):
        if code:
            viol.append(dict(kind='JSON board settings not read back as written', input=dict(settings=ss[:2]), observed=o['settings'],
                             expected='same boards in the same order', how_found='JsonBoardSettingWriter -> JsonParser.parse_board_settings',
                             theorem_or_tie='C17_json_settings_roundtrip', signature=dict(kind='c17 json')))
    for c, o, code in zip(pcases, pout, res[len(jcases):]):
        if code:
            got = o['settings'].get('ok')
            what = o['settings'].get('err') or first_diff([pb.setting_norm(b) for b in c['boards']], got)
            viol.append(dict(kind='PBN import file not read back as the boards written', input=dict(text=c['text'], boards=len(c['boards']), layout=c['style']),
                             observed=what, expected='the boards in order with the same deal, dealer, vulnerability and board id',
                             how_found='rendered layout -> PbnParser.parse_board_settings', theorem_or_tie='C17_pbn_layouts',
                             signature=dict(kind='c17 pbn', what=str(what)[:40])))
    viol.sort(key=lambda v: len(str(v['input'])))
    try:
        tl = [f"([{'; '.join(jc.csetting(x) for x in ss)}], {ol(o['doc'].get('ok'), jc.cj)}, {ol(o['settings'].get('ok'), LJ)})" for ss, o in zip(jcases, jout)]
        tr = pc.run_shards('C17', 'tie_json', IMP_TJ, 'list setting * option json * option (list json)', 't17_case json_framing k', tl, 8)
        if any(tr):
            ties.append(dict(what='Model/Json.v (board settings) differs from the implementation', count=sum(1 for c in tr if c)))
        pl = [f"({lib.cstr(c['text'])}, {ol(o['settings'].get('ok'), LJ)}, {ol(games_lit(o['games'].get('ok')), lambda x: x)})" for c, o in zip(pcases, pout)]
        tp = pc.run_shards('C17', 'tie_pbn', IMP_TP, 'string * option (list json) * option (list (list (string * string)))', 'tpbn_case k', pl, 10)
        bad = [(c['style'], code) for c, code in zip(pcases, tp) if code]
        if bad:
            ties.append(dict(what='Model/Pbn.v differs from PbnParser (1 parse_board_settings, 2 parse_all)', count=len(bad), which=bad[:6]))
    except lib.CoqEvalError as e:
        ties.append(dict(what='tie case file does not evaluate', detail=str(e)[-800:]))
    styles = {}
    for c in pcases:
        styles[c['style']] = styles.get(c['style'], 0) + 1
    return dict(evaluations=len(jcases) + len(pcases), distinct_nontrivial=len({c['text'] for c in pcases if c['boards']}) + len(jcases) - 1,
                rule='JSON: lists of 0..5 board settings with/without double-dummy tables, any Unicode ids. PBN: lists of 0..5 boards rendered under five layout families '
                     '(plain; export-like with header lines and extra tags; runs of blank / whitespace-only lines before, between and after games; CR LF line ends; blanks inside tag brackets), '
                     'needed tags in any order, deal from any first seat, every vulnerability spelling, repeated tags and table rows, ids over the stated alphabet incl. blank runs and leading/trailing blanks; '
                     'non-trivial = a file with at least one board; distinct by text',
                samples=[dict(layout=pcases[1]['style'], text=pcases[1]['text'][:300])],
                distribution=dict(pbn_layouts=styles, json_files=len(jcases), boards_per_file=[len(c['boards']) for c in pcases[:15]]),
                violations=viol[:8], tie_mismatches=ties)


def games_lit(games):
    if games is None:
        return None
    return '[' + '; '.join('[' + '; '.join(f'({lib.cstr(k)}, {lib.cstr(v)})' for k, v in g) + ']' for g in games) + ']'


def first_diff(want, got):
    if got is None:
        return 'raises'
    if len(want) != len(got):
        return dict(boards_written=len(want), boards_read=len(got))
    for i, (w, g) in enumerate(zip(want, got)):
        for k in w:
            if w[k] != g.get(k):
                return dict(board=i, field=k, written=w[k], read=g.get(k))
    return '?'


def replay(ctx, rp):
    return True
