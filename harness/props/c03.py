"""C03 - auction (see props/auction_common.py and DESIGN.md section 4)."""
from props import auction_common as ac

TARGETS = ['Props/C03.vo']
ASSUMPTIONS = ['drivers/auction.py records return values, available_bid, bid_history, players_bid_history, active_player, has_done(), contract() and a deepcopy snapshot comparison']
CHECKER = 'c03_case'
WHAT = {'1': 'call accepted/refused against the Laws, or availability vector wrong, or refused call changed the auction',
        '2': 'turn / end of auction / personal histories wrong', '3': 'final contract wrong'}['3']


def run(ctx):
    return ac.run_property(ctx, 'C03', CHECKER, 'C03_*', WHAT)


def replay(ctx, rp):
    return ac.replay_property(ctx, rp, CHECKER)
