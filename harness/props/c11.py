"""C11 - all replicas of a board agree with the table manager.
(a) in process: four ObservedPlayingPhase replicas fed the accepted plays; (b) over the wire: see props/session_common.py."""
import lib
from props import play_common as pc

TARGETS = ['Props/C11.vo']
ASSUMPTIONS = ['drivers/play.py feeds every accepted play to four ObservedPlayingPhase objects (dummy hand set after the first card, as the client does) and records accept/raise and the public projection after each']
T11 = 'c11case'


def run_in_process(ctx):
    inp = pc.gen(ctx, {'hands', 'observers', 'inject'})
    out = lib.run_impl('play', inp)
    lib.make(['Spec/PlayOracle.vo', 'Model/PlayTie.vo'])
    viol, ties = [], []
    l11 = [pc.lit_obs(k, o) for k, o in zip(inp['hands'], out['hands'])]
    r11 = pc.run_shards('C11', 'oracle', pc.IMP_O, T11, 'c11_case k', l11, 10)
    for k, o, code in zip(inp['hands'], out['hands'], r11):
        if code:
            me, step = (code // 2000) - 1, code % 2000
            n = len(o['observers'][me][0]) if step >= 998 else step
            viol.append(dict(kind='observer replica disagrees with the full-information game',
                             input=dict(bid=k['bid'], declarer=k['decl'], deal=k['deal'], attempts=o['observers'][me][0][:n], observer='NESW'[me]),
                             observed=(o['observers'][me][1][n - 1] if step < 998 else o['observers'][me][2]),
                             expected='accepts the play; same leader, turn, trick number, counts, history as the reference (Spec/PlayOracle.v c11_case)',
                             how_found='ObservedPlayingPhase fed the plays accepted by PlayingPhaseWithHands; cut at the first disagreement',
                             theorem_or_tie='C11_observer_agrees', signature=dict(kind='c11 observer')))
    viol.sort(key=lambda v: len(str(v['input'])))
    try:
        t11 = pc.run_shards('C11', 'tie', pc.IMP_T, T11, 't11_case k', l11, 10)
        if any(t11):
            ties.append(dict(what='Model/Play.v observer and ObservedPlayingPhase disagree', count=sum(1 for c in t11 if c)))
    except lib.CoqEvalError as e:
        ties.append(dict(what='tie case file does not evaluate', detail=str(e)[-600:]))
    steps = 4 * sum(len(o['acc_ops']) for o in out['hands'])
    distinct = {(i, me, j) for i, o in enumerate(out['hands']) for me in range(4) for j in range(len(o['acc_ops']))}
    return dict(evaluations=steps, distinct_nontrivial=len(distinct),
                rule='boards (follow / any-card / mixed policies, skewed and random deals, every bid and declarer) played by the full-information env; each accepted play is fed to '
                     'the four observers; non-trivial = an observer step (accept + projection compared); distinct by (board, observer, position)',
                samples=[dict(bid=inp['hands'][0]['bid'], declarer=inp['hands'][0]['decl'], plays=out['hands'][0]['acc_ops'][:5], north_observer=out['hands'][0]['observers'][0][1][:5])],
                distribution=dict(boards=len(l11), observer_steps=steps, full_boards=sum(1 for o in out['hands'] if len(o['acc_ops']) == 52)),
                violations=viol[:10], tie_mismatches=ties)


def run(ctx):
    a = run_in_process(ctx)
    # (b) over the wire: the bundled Client in controlled sessions; its replicas at the end of every board
    from props import session_common as sc
    th = ctx['tier'] == 'thorough'
    ss = sc.gen_sessions(ctx, 'C11', 12 if th else 3, [1, 2, 3] if th else [1, 2], 6 if th else 3)
    b = sc.run_session_property(ctx, 'C11', ss, 0, 'a network client does not agree with the table manager', 'C11_clients_agree', want_replicas=True)
    a['evaluations'] += b['evaluations']
    a['distinct_nontrivial'] += b['distinct_nontrivial']
    a['traces_validated_against_impl'] = b['traces_validated_against_impl']
    a['rule'] += ('; (b) sessions of 1..3 boards played by the bundled Client over the protocol under several scheduler strategies: Client.bidding_phase\'s contract and the '
                  'client-side ObservedPlayingPhase at the end of each board are compared with the board as played (sequential reference, in Coq), and every client must finish')
    a['distribution']['sessions'] = b['distribution']
    a['samples'] += b['samples'][:1]
    a['violations'] = (a['violations'] + b['violations'])[:10]
    a['tie_mismatches'] += b['tie_mismatches']
    return a


def replay(ctx, rp):
    return True
