"""Shared by C01, C02, C03: walk generation, implementation run, Coq case files."""
import concurrent.futures as cf
import lib

P, X, XX = 35, 36, 37


def longest():
    o = [P, P, P]
    for b in range(35):
        o += [b, P, P, X, P, P, XX, P, P]
    return o + [P]


def directed():
    fam = [
        [P, P, P, P], [P, P, P, 0, P, P, P], [P, P, P, 0, P, P, X, P, P, P], [0, P, P, X, P, P, P],
        [0, P, P, X, XX, P, P, P], [0, X, P, P, XX, P, P, P], [0, X, XX, P, P, P], [P, 0, P, P, P],
        [P, P, 0, P, P, P], [P, P, P, 34, P, P, P], [0, P, 1, P, 5, P, P, P], [0, 1, 5, 6, 10, P, P, P],
        [0, X, 5, X, XX, 10, P, P, P], [4, P, 9, P, 14, X, P, P, XX, P, P, P], [0, P, P, 1, P, P, 5, P, P, P],
        [2, 3, 7, 8, 12, 13, 17, X, P, P, P], [0, P, 5, P, 10, P, 15, P, 20, P, 25, P, 30, P, P, P],
        [P, 1, X, P, P, 6, P, P, X, P, P, XX, P, P, P], [3, P, P, P], [3, X, P, P, P], [3, X, XX, P, P, P],
        [P, P, 7, P, 12, P, 17, P, P, P], [P, 0, P, 5, X, P, P, P], [0, 0, X, X, XX, XX, P, P, P, P, P],
        [X, XX, P, X, P, XX, P, P, 0, XX, X, X, XX, XX, P, P, P, 5],
    ]
    return fam


def gen_walk(r, kind):
    offers, last = [], -1
    n = r.randint(4, 28) if kind == 'random' else r.randint(20, 90)
    while len(offers) < n:
        u = r.random()
        if kind == 'random':
            if u < 0.34: c = P
            elif u < 0.46: c = X
            elif u < 0.55: c = XX
            elif u < 0.83: c = min(34, last + r.randint(1, 4))
            else: c = r.randint(0, 37)
        else:  # competitive: slow climb with many doubles
            if u < 0.45: c = P
            elif u < 0.62: c = X
            elif u < 0.74: c = XX
            elif u < 0.95: c = min(34, last + r.randint(1, 2))
            else: c = r.randint(0, 37)
        if c <= 34 and c > last:
            last = c
        offers.append(c)
    if r.random() < 0.5:
        offers += [P, P, P, P] + [r.randint(0, 37) for _ in range(r.randint(0, 3))]
    return offers


def walks(ctx, salt='auction'):
    r = lib.rng(ctx['seed'], salt)
    thorough = ctx['tier'] == 'thorough'
    ws = []
    for d in range(4):
        for k, f in enumerate(directed()):
            ws.append(dict(dealer=d, vul=(d + k) % 4, offers=f + [P, r.randint(0, 37)], probe=True, kind='directed'))
    ws.append(dict(dealer=r.randint(0, 3), vul=r.randint(0, 3), offers=longest() + [P, 0, X], probe=thorough, kind='longest'))
    n = 2400 if thorough else 240
    for i in range(n):
        kind = 'random' if i % 3 else 'competitive'
        ws.append(dict(dealer=r.randint(0, 3), vul=r.randint(0, 3), offers=gen_walk(r, kind), probe=(i % 3 == 0), kind=kind))
    # small scope, exhaustively: every sequence of <= 1 (quick) / <= 2 (thorough) offers, all 38 calls probed at each state
    for d in range(4):
        ws.append(dict(dealer=d, vul=d, offers=[P], probe=True, kind='scope'))
        for a in range(38):
            if thorough:
                for b in range(38):
                    ws.append(dict(dealer=d, vul=(a + b) % 4, offers=[a, b, P], probe=True, kind='scope'))
            else:
                ws.append(dict(dealer=d, vul=a % 4, offers=[a, (a * 7 + d) % 38, P], probe=True, kind='scope'))
    return ws


def cN(n):
    return f'{n}%N'


def case_lit(w, o):
    steps = []
    for s in o['steps']:
        f = (1 if s['knone'] else 0) + (2 if s['done'] else 0) + (4 if s['unchanged'] else 0) + (8 if s['appended'] else 0) \
            + (16 if s['availbad'] or s.get('pbad', 0) else 0)
        pr = f"(Some ({cN(s['pacc'])}, {cN(s['pfin'])}, {cN(s['prai'])}))" if 'pacc' in s else 'None'
        steps.append(f"({s['c']}, {cN(s['mask'])}, {s['active']}, {f}, {s['ret']}, {pr})")
    fi = o['final']
    k = fi['contract']
    ks = 'None' if k is None else '(Some (' + ', '.join([lib.copt(k[0], str), lib.cbool(k[1]), lib.cbool(k[2]), str(k[3]),
                                                         lib.copt(k[4], str), lib.cbool(k[5])]) + '))'
    nl = lambda l: '[' + ';'.join(str(x) for x in l) + ']'
    fin = f"({nl(fi['hist'])}, [{';'.join(nl(p) for p in fi['ph'])}], {4 if fi['active'] is None else fi['active']}, {lib.cbool(fi['done'])}, {ks})"
    return f"({w['dealer']}, {w['vul']}, [{'; '.join(steps)}], {fin})"


def evaluate(prop, ws, obs, checker, imports, tag, shard=40):
    """Return per-walk result codes (0 ok, i+1 first bad step, 1000 final) of `checker` over all cases."""
    shards = [list(range(i, min(i + shard, len(ws)))) for i in range(0, len(ws), shard)]

    def one(k_idx):
        k, idx = k_idx
        body = 'Definition cases : list acase := [\n' + ';\n'.join(case_lit(ws[i], obs[i]) for i in idx) + '].\n'
        return lib.coq_cases(prop, f'{tag}_{k}', imports, body, [f'map {checker} cases'])[0]
    with cf.ThreadPoolExecutor(max_workers=12) as ex:
        res = list(ex.map(one, enumerate(shards)))
    out = []
    for r in res:
        out += r
    assert len(out) == len(ws), (len(out), len(ws))
    return out


def accepted_history(o, upto=None):
    h = []
    for s in o['steps'][:upto]:
        if s['ret'] in (2, 3):
            h.append(s['c'])
    return h


def stats(ws, obs):
    distinct, nontriv, kinds, rets, maxlen = set(), set(), {}, {0: 0, 1: 0, 2: 0, 3: 0, 9: 0}, 0
    evals = 0
    for w, o in zip(ws, obs):
        kinds[w['kind']] = kinds.get(w['kind'], 0) + 1
        h = []
        for s in o['steps']:
            evals += 38 if 'pacc' in s else 1
            key = (w['dealer'], tuple(h), s['c'])
            distinct.add(key)
            if s['c'] != P and any(c < 35 for c in h):
                nontriv.add(key)
            if 'pacc' in s and any(c < 35 for c in h):
                nontriv.add((w['dealer'], tuple(h), 'probe'))
            rets[s['ret']] = rets.get(s['ret'], 0) + 1
            if s['ret'] in (2, 3):
                h.append(s['c'])
        maxlen = max(maxlen, len(h))
    return dict(evaluations=evals, distinct_nontrivial=len(nontriv), distinct_offers=len(distinct),
                distribution=dict(walk_kinds=kinds, returns=dict(raises=rets[0], illegal=rets[1], ongoing=rets[2], finished=rets[3]),
                                  longest_accepted_history=maxlen, walks=len(ws)))


NAMES = [f'{l}{s}' for l in range(1, 8) for s in ('C', 'D', 'H', 'S', 'NT')] + ['Pass', 'X', 'XX']


def run_property(ctx, prop, checker, theorem, what):
    ws = walks(ctx)
    obs = lib.run_impl('auction', dict(walks=ws))
    lib.make(['Spec/AuctionOracle.vo', 'Model/AuctionTie.vo'])
    viol, ties = [], []
    res = evaluate(prop, ws, obs, checker, 'From BE Require Import Spec.AuctionOracle.\nFrom Coq Require Import NArith.', 'oracle')
    for i, code in enumerate(res):
        if code:
            w, o = ws[i], obs[i]
            upto = len(o['steps']) if code == 1000 else code
            h = accepted_history(o, upto - 1 if code != 1000 else None)
            step = None if code == 1000 else o['steps'][code - 1]
            viol.append(dict(kind=what, input=dict(dealer='NESW'[w['dealer']], vul=['None', 'NS', 'EW', 'Both'][w['vul']],
                                                   accepted_history=[NAMES[c] for c in h],
                                                   offered=None if step is None else NAMES[step['c']],
                                                   replay_offers=h + ([] if step is None else [step['c']]), dealer_idx=w['dealer'], vul_idx=w['vul']),
                             observed=(o['final'] if step is None else step), expected=f'Spec/Laws.v ({checker})',
                             how_found=f'walk of kind {w["kind"]}; Spec oracle evaluated in Coq on the recorded behaviour; shrunk to the accepted history + the offending offer',
                             theorem_or_tie=theorem, signature=dict(kind=what)))
    viol.sort(key=lambda v: len(v['input']['replay_offers']))
    tres = evaluate(prop, ws, obs, 'tie_case', 'From BE Require Import Model.AuctionTie.\nFrom Coq Require Import NArith.', 'tie')
    bad = [(i, c) for i, c in enumerate(tres) if c]
    if bad:
        i, c = min(bad, key=lambda ic: len(ws[ic[0]]['offers']))
        ties.append(dict(what='Model/Auction.v and BiddingPhase disagree', walks=len(bad), first=dict(
            dealer=ws[i]['dealer'], vul=ws[i]['vul'], offers=ws[i]['offers'][:c if c != 1000 else None], at=('final' if c == 1000 else c - 1))))
    st = stats(ws, obs)
    st.update(rule='walks of offered calls (legal or not) from every dealer: directed families (opening passes, re-opening, doubles superseded, offers after the end), '
                   'the 319-call longest auction, random and competitive walks, and all offer sequences of small length; on a third of the states all 38 calls '
                   'are offered to a deepcopy. evaluations = offers incl. probes; non-trivial = the offered call is not a pass and some bid has been made '
                   '(legality depends on rank / side / doubling state); distinct by (dealer, accepted history, call)',
              samples=[dict(dealer=ws[k]['dealer'], offers=[NAMES[c] for c in ws[k]['offers']], returns=[s['ret'] for s in obs[k]['steps']]) for k in (4, 101, len(ws) // 2)],
              violations=viol[:10], tie_mismatches=ties)
    return st


def replay_property(ctx, rp, checker):
    i = rp['input']
    ws = [dict(dealer=i['dealer_idx'], vul=i['vul_idx'], offers=i['replay_offers'], probe=True, kind='replay')]
    obs = lib.run_impl('auction', dict(walks=ws))
    res = evaluate(ctx['prop'], ws, obs, checker, 'From BE Require Import Spec.AuctionOracle.\nFrom Coq Require Import NArith.', 'replay')
    return any(res)
