"""C08 - the table manager's log records exactly what was played (every schedule)."""
from props import session_common as sc

TARGETS = ['Props/C08.vo']
ASSUMPTIONS = ['as C09: controlled scheduler, in-memory sockets, real Server.run / PlayerThread / Client.run; the output file is read with json.loads']


def run(ctx):
    th = ctx['tier'] == 'thorough'
    ss = sc.gen_sessions(ctx, 'C08', 20 if th else 4, [1, 2, 3, 5, 8] if th else [1, 2, 3], 8 if th else 4)
    r = sc.run_session_property(ctx, 'C08', ss, 1, 'log does not record what was played', 'C08_log')
    r['rule'] = ('sessions of 1..8 boards with competitive / short / all-pass policies (long auctions with doubles, passed-out boards, dummy on lead), random letter case, alert suffixes, '
                 'both card notations, double-dummy tables, each under several scheduler strategies; the written file is compared with the sequential reference evaluated in Coq; '
                 'distinct by (boards, arrivals, strategy, seed)')
    return r


def replay(ctx, rp):
    i = rp['input']
    s = dict(boards=i['boards'], arrivals=i['arrivals'], strategy=i['strategy'], sched_seed=i['sched_seed'])
    o = sc.run_sessions([s])[0]
    return bool(sc.spec_check('C08', 'replay', [(s, o.get('scripts') or {}, sc.observed(s, o))])[0] & 1)
