"""C13 - an aborted session still leaves a well-formed log of the completed boards."""
import json
import lib
from props import play_common as pc
from props import session_common as sc

TARGETS = ['Props/C13.vo']
ASSUMPTIONS = ['as C09; faults are injected by a client that sends an illegal / unparseable call or card or a card it does not hold (respelled at the socket), '
               'or by raising an exception in the main thread at one of its blocking queue reads (operator interrupt)',
               'one write() of a record to the file is not torn']
KINDS = ['illegal_call', 'garbage_call', 'garbage_card', 'card_not_held', 'interrupt']


def plan(ctx):
    r = lib.rng(ctx['seed'], 'C13')
    th = ctx['tier'] == 'thorough'
    bases = []
    for i in range(6 if th else 2):
        nb = r.choice([2, 3]) if not th else r.choice([2, 3, 4])
        bases.append(dict(boards=sc.gen_boards(r, nb), arrivals=sc.four_arrivals(r, style=r.choice(['competitive', 'short']))))
    return r, bases, (12 if th else 3)


def boards_finished_before(fault, ref):
    return fault['board'] - 1


def run(ctx):
    r, bases, per_kind = plan(ctx)
    # reference (fault-free) runs: they tell how many calls/cards each seat makes on each board and where main blocks
    refs = sc.run_sessions([dict(b, strategy='rr', sched_seed=1, want_ops=True) for b in bases])
    ss, meta = [], []
    for b, ref in zip(bases, refs):
        if ref['result'] != 'finished':
            continue
        nb = len(b['boards'])
        main_ops = [op for n, op in ref['ops'] if n == 'main']
        first_leave = next(i for i, op in enumerate(main_ops) if op[0] == 'bar.leave')
        gets = [i for i, op in enumerate(main_ops) if op[0] == 'q.get' and i > first_leave]
        for kind in KINDS:
            for _ in range(per_kind):
                s = dict(boards=b['boards'], arrivals=[dict(a) for a in b['arrivals']], strategy=r.choice(['rr', 'random', 'low:main', 'high:main', 'pct:2']),
                         sched_seed=r.randint(0, 10 ** 6))
                if kind == 'interrupt':
                    j = r.randrange(len(gets))
                    s['fault'] = dict(kind='interrupt', point=gets[j] + 1)
                    s['model_interrupt'] = j
                    # boards finished = number of log writes before that read: count NEXT_BOARD / end markers is schedule independent: derive from ops
                    done = sum(1 for op in main_ops[:gets[j]] if op[0] == 'q.put' and op[2] == 'next board') // 4
                    m = dict(kind=kind, boards_before=done, where=f'main blocked in queue read #{j}')
                else:
                    ci = r.randrange(4)
                    board = r.randint(1, nb)
                    sc_b = ref['scripts'][f'cli{ci}'][board - 1]
                    n_dec = len(sc_b['calls']) if 'call' in kind else len(sc_b['cards'])
                    if n_dec == 0:
                        continue
                    nth = r.randint(1, n_dec)
                    s['arrivals'][ci]['fault'] = dict(kind=kind, board=board, nth=nth)
                    m = dict(kind=kind, boards_before=board - 1, where=f"client {ci} ({sc.FORMAL[b['arrivals'][ci]['seat']]}) board {board} decision {nth}")
                ss.append(s); meta.append(m)
    outs = sc.run_sessions(ss)
    lib.make(['Model/SessionTie.vo'])
    viol, ties = [], []
    items = []
    for s, m, o in zip(ss, meta, outs):
        raised = (o['ends'].get('main') or '').startswith('raised')
        problem = None
        logs = None
        try:
            logs = json.loads(o['log_text'])['logs'] if o.get('log_text') is not None else None
        except Exception as e:
            problem = 'output file is not a JSON document: ' + str(e)[:80] + ' ... file ends with ' + repr((o.get('log_text') or '')[-30:])
        if problem is None:
            if not raised:
                problem = None if o['result'] == 'finished' else f"session {o['result']} without the server giving up (main: {o['ends'].get('main')})"
                # an injected fault that did not make the server abandon the session (e.g. the illegal call was never reached) is not a case
                if o['result'] == 'finished':
                    m['not_an_abort'] = True
            elif logs is None:
                problem = 'no output file'
            else:
                want = [b['board_id'] for b in s['boards'][:m['boards_before']]]
                got = [l.get('board_id') for l in logs]
                if got != want:
                    problem = f'log lists boards {got}, finished before the abort: {want}'
        if problem:
            viol.append(dict(kind='aborted session leaves a bad log', input=dict(boards=s['boards'], arrivals=s['arrivals'], fault=s.get('fault'), strategy=s['strategy'],
                                                                                sched_seed=s['sched_seed'], fault_kind=m['kind'], where=m['where']),
                             observed=dict(problem=problem, main=o['ends'].get('main'), result=o['result']),
                             expected='a complete JSON log containing exactly the boards finished before the abort',
                             how_found=f"controlled session with fault {m['kind']} at {m['where']}", theorem_or_tie='C13_abort_log',
                             signature=dict(kind='c13', fault=m['kind'], problem=problem.split(':')[0])))
        if not m.get('not_an_abort'):
            ref = next(rf for b2, rf in zip(bases, refs) if b2['boards'] is s['boards'])
            items.append((s, scripts_with_fault(s, ref, o), sc.observed(s, o)))
    viol.sort(key=lambda v: len(str(v['input'])))
    try:
        res = sc.tie('C13', 'tie', items)
        bad = [(it[0].get('fault') or [a.get('fault') for a in it[0]['arrivals'] if a.get('fault')], c) for it, c in zip(items, res) if c]
        if bad:
            ties.append(dict(what='Model/Session.v differs from the real aborted run (bits 1 not final, 2 thread ends, 4 lines to clients, 8 lines to server, 16 log)',
                             count=len(bad), which=bad[:6]))
    except lib.CoqEvalError as e:
        ties.append(dict(what='tie case file does not evaluate', detail=str(e)[-800:]))
    kinds = {}
    for m in meta:
        kinds[m['kind']] = kinds.get(m['kind'], 0) + 1
    return dict(evaluations=len(ss), distinct_nontrivial=len({json.dumps([s.get('fault'), [a.get('fault') for a in s['arrivals']], s['strategy'], s['sched_seed']]) for s in ss}),
                traces_validated_against_impl=len(items),
                rule='sessions of 2-4 boards with one fault: an illegal call, an unparseable call, an unparseable card, a card not held (each by a random seat at a random decision of a random board) '
                     'or an operator interrupt at a random blocking queue read of the main thread after the log was opened; each under a random scheduler strategy; distinct by (fault, strategy, seed)',
                samples=[dict(fault=meta[0], result=outs[0]['result'], main=outs[0]['ends'].get('main'), log_tail=(outs[0].get('log_text') or '')[-40:])] if outs else [],
                distribution=dict(fault_kinds=kinds, aborted=sum(1 for m in meta if not m.get('not_an_abort')), boards_before_abort=[m['boards_before'] for m in meta][:20]),
                violations=viol[:6], tie_mismatches=ties)


def scripts_with_fault(s, ref, o):
    """What the clients said in this run: as recorded by the driver (values are the decisions, texts as sent)."""
    return o.get('scripts') or ref['scripts']


def replay(ctx, rp):
    i = rp['input']
    s = dict(boards=i['boards'], arrivals=i['arrivals'], strategy=i['strategy'], sched_seed=i['sched_seed'])
    if i.get('fault'):
        s['fault'] = i['fault']
    o = sc.run_sessions([s])[0]
    try:
        json.loads(o['log_text'])
        return False
    except Exception:
        return True
