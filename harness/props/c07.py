"""C07 - scoring.  Complete-domain graph (tie) + Law 77 oracle, both evaluated in Coq."""
import lib
import graphs

TARGETS = ['Props/C07.vo']
ASSUMPTIONS = ['harness/drivers/score_graph.py prints what calc_score/calc_bid_score returned on every point of the domain']
TRUSTED = ['Gen/ScoreGraph.v = the implementation evaluated on all 31 920 + 3 920 points by drivers/score_graph.py']
VULS = ['NONE', 'NS', 'EW', 'BOTH']
SEATS = ['N', 'E', 'S', 'W']
FLAGS = [(False, False), (True, False), (False, True), (True, True)]
STRAINS = ['C', 'D', 'H', 'S', 'NT']
_graph = {}


def pre(ctx):
    _graph['g'] = graphs.gen_score_graph()


def decode_row(i):
    b, r = divmod(i, 64)
    f, r = divmod(r, 16)
    v, d = divmod(r, 4)
    return dict(bid=f'{b // 5 + 1}{STRAINS[b % 5]}', bid_idx=b, x=FLAGS[f][0], xx=FLAGS[f][1], vul=VULS[v], declarer=SEATS[d])


def decode_bid_row(i):
    b, r = divmod(i, 8)
    f, vb = divmod(r, 2)
    return dict(bid=f'{b // 5 + 1}{STRAINS[b % 5]}', bid_idx=b, x=FLAGS[f][0], xx=FLAGS[f][1], vul_flag=bool(vb))


IMPORTS_SPEC = 'From BE Require Import Model.CaseLib Spec.Duplicate Spec.Domains Gen.ScoreGraph.\nOpen Scope Z_scope.'
SPEC_BODY = '''
Definition oz_eqb (a b : option Z) : bool := opt_eqb Z.eqb a b.
Definition spec_score (k : contract) (t : Z) : option Z :=
  match final_bid k, cdeclarer k with
  | None, _ => Some 0
  | Some (l, s), Some d => Some (dup_score (Z.of_nat (level_val l)) s (cstatus k) (declarer_vulnerable d (cvul k)) t)
  | Some _, None => None end.
Definition spec_rows := map (fun k => map (spec_score k) tricks14) score_domain.
Definition spec_bid_rows := map (fun '((l, s), (x, xx), vb) =>
  map (fun t => Some (dup_score (Z.of_nat (level_val l)) s (status_of x xx) vb t)) tricks14) bid_score_domain.
Definition spec_po_rows := map (fun k => map (fun _ => Some 0) tricks14) (passed_out_domain).
'''


def run(ctx):
    g = _graph.get('g') or graphs.gen_score_graph()
    ok, log = lib.make(['Gen/ScoreGraph.vo', 'Spec/Duplicate.vo', 'Spec/Domains.vo', 'Model/CaseLib.vo'])
    viol, ties = [], []
    bad = lib.coq_cases('C07', 'oracle', IMPORTS_SPEC, SPEC_BODY, [
        'mismatches (list_eqb oz_eqb) spec_rows score_graph',
        'mismatches (list_eqb oz_eqb) spec_bid_rows bid_score_graph',
        'mismatches (list_eqb oz_eqb) spec_po_rows passed_out_graph'])
    if any(bad):
        exp = expected_rows(bad)
        for i in bad[0][:20]:
            row, erow = g['rows'][i], exp[0][i]
            for t in range(14):
                if row[t] != erow[t]:
                    inp = dict(decode_row(i), tricks=t, api='calc_score')
                    viol.append(dict(kind='wrong score', input=inp, observed=row[t], expected=erow[t],
                                     how_found='complete-domain graph against the Law 77 formulas (evaluated in Coq)',
                                     theorem_or_tie='C07_all_contracts / model_eq_graph',
                                     signature=dict(kind='wrong score', api='calc_score')))
                    break
        for i in bad[1][:20]:
            row, erow = g['bid_rows'][i], exp[1][i]
            for t in range(14):
                if row[t] != erow[t]:
                    viol.append(dict(kind='wrong score', input=dict(decode_bid_row(i), tricks=t, api='calc_bid_score'),
                                     observed=row[t], expected=erow[t],
                                     how_found='complete-domain graph against the Law 77 formulas (evaluated in Coq)',
                                     theorem_or_tie='C07_bid_score / model_eq_graph_bid',
                                     signature=dict(kind='wrong score', api='calc_bid_score')))
                    break
        for i in bad[2][:20]:
            viol.append(dict(kind='wrong score', input=dict(passed_out_row=i, api='calc_score'), observed=g['po_rows'][i],
                             expected=[0] * 14, how_found='complete-domain graph', theorem_or_tie='C07_passed_out_scores_zero',
                             signature=dict(kind='wrong score', api='calc_score passed out')))
    # the tie itself (model vs graph) -- also a theorem (model_eq_graph); evaluated here to name the rows
    try:
        tb = lib.coq_cases('C07', 'tie', 'From BE Require Import Model.CaseLib Model.Score Spec.Domains Gen.ScoreGraph.\nOpen Scope Z_scope.',
                           'Definition oz_eqb (a b : option Z) : bool := opt_eqb Z.eqb a b.', [
            'mismatches (list_eqb oz_eqb) (map (fun k => map (calc_score k) tricks14) score_domain) score_graph',
            "mismatches (list_eqb oz_eqb) (map (fun '((l, s), (x, xx), vb) => map (calc_bid_score l s x xx vb) tricks14) bid_score_domain) bid_score_graph",
            'mismatches (list_eqb oz_eqb) (map (fun k => map (calc_score k) tricks14) passed_out_domain) passed_out_graph'])
        if any(tb):
            ties.append(dict(what='Model/Score.v differs from the implementation graph',
                             rows=[decode_row(i) for i in tb[0][:5]], bid_rows=[decode_bid_row(i) for i in tb[1][:5]], po_rows=tb[2][:5]))
    except lib.CoqEvalError as e:
        ties.append(dict(what='Model/Score.v does not evaluate against the regenerated constants', detail=str(e)[-800:]))
    n = 14 * (len(g['rows']) + len(g['bid_rows']) + len(g['po_rows']))
    distinct = len({(i, t) for i, r in enumerate(g['rows']) for t in range(14)}) + 14 * len(g['bid_rows'])
    samples = [dict(decode_row(i), tricks=t, implementation=g['rows'][i][t]) for i, t in ((0, 7), (1234, 3), (2239, 13))]
    return dict(evaluations=n, distinct_nontrivial=distinct, exhaustive=True,
                rule='every point of the complete domain: 35 bids x 4 (x,xx) flag pairs x 4 vul x 4 declarers x 14 tricks for calc_score, '
                     '35 x 4 x 2 x 14 for calc_bid_score, 2 spellings x 4 vul x 5 declarer options x 14 passed out; '
                     'all points are distinct; non-trivial = a real contract (not passed out)',
                samples=samples, violations=viol, tie_mismatches=ties,
                domain=dict(calc_score=len(g['rows']) * 14, calc_bid_score=len(g['bid_rows']) * 14, passed_out=len(g['po_rows']) * 14))


def expected_rows(bad):
    """Ask Coq for the spec's values on the disagreeing rows."""
    import re
    outs = []
    for name, idxs in (('spec_rows', bad[0]), ('spec_bid_rows', bad[1])):
        res = {}
        if idxs:
            sel = lib.clist(str(i) for i in idxs[:20])
            body = SPEC_BODY + f'\nDefinition sel := map (fun i => map (fun o => match o with Some z => z | None => (-999999) end) (nth i {name} [])) {sel}%nat.'
            d = lib.os.path.join(lib.COQ, 'Cases', 'C07')
            path = lib.os.path.join(d, 'exp_' + name + '.v')
            open(path, 'w').write(IMPORTS_SPEC + body + '\nEval vm_compute in sel.\n')
            rc, out, err = lib.coqc(path)
            vals = lib.parse_eval(out)
            nums = [int(x) for x in re.findall(r'-?\d+', vals[0].replace('%Z', ''))] if vals else []
            for j, i in enumerate(idxs[:20]):
                res[i] = nums[14 * j:14 * j + 14]
        outs.append(res)
    return outs


def replay(ctx, rp):
    r = lib.run_impl('score_point', rp['input'])
    return r['value'] != rp['expected']
