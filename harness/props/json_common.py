"""Shared by C12 and C17 (JSON half): record generation, literals."""
import json
import lib
from props import play_common as pc

SCORINGS = ['MP', 'MatchPoints', 'IMP', 'Cavendish', 'Chicago', 'Rubber', 'BAM', 'Instant']


def uname(r):
    pools = ['abcXYZ 019', '"\\/\b\f\n\r\t', 'éßñøÿ', '日本語テスト', '😀𝔘𝕟𝕚', "',.:;-_()[]{}#+*%&$", '\u0000\u001f\u007f', ' ']
    n = r.choice([0, 1, 2, 5, 9, 20])
    return ''.join(r.choice(r.choice(pools)) for _ in range(n))


def gen_dda(r):
    if r.random() < 0.5:
        return None
    seats = [p for p in range(4) if r.random() < 0.85]
    return [[p, [[s, r.randint(0, 13)] for s in range(5)]] for p in seats]


def gen_record(r):
    po = r.random() < 0.15
    if po:
        k = dict(bid=None, x=False, xx=False, vul=r.randint(0, 3), decl=None)
    else:
        st = r.choice([(False, False), (True, False), (True, True)])
        k = dict(bid=r.randint(0, 34), x=st[0], xx=st[1], vul=r.randint(0, 3), decl=r.randint(0, 3))
    deal = pc.deal_of(r) if r.random() < 0.8 else pc.skewed_deal(r)
    ntr = 0 if po else r.choice([0, 1, 5, 13, 13, 13, r.randint(0, 13)])
    play = None if po else [[r.randint(0, 3), [r.randint(0, 51) for _ in range(4)]] for _ in range(ntr)]
    return dict(board_id=uname(r) if r.random() < 0.5 else str(r.randint(1, 99)), players=[uname(r) for _ in range(4)], dealer=r.randint(0, 3), deal=deal,
                scoring=r.choice(SCORINGS), bids=[r.randint(0, 37) for _ in range(r.choice([0, 4, 7, 12, 30]))], contract=k, play=play,
                taken=None if po else r.randint(0, 13), scores=[r.randint(-7600, 7600), r.randint(-7600, 7600)] if r.random() < 0.7 else [0, 0], dda=gen_dda(r))


def gen_setting(r):
    return dict(board_id=uname(r) if r.random() < 0.5 else str(r.randint(1, 99)), dealer=r.randint(0, 3), vul=r.randint(0, 3),
                deal=pc.deal_of(r) if r.random() < 0.7 else pc.skewed_deal(r), dda=gen_dda(r))


# ---- Coq literals
def cj(o):
    """Python JSON object -> Coq json term"""
    if o is None:
        return 'JNull'
    if isinstance(o, bool):
        return f'(JBool {lib.cbool(o)})'
    if isinstance(o, int):
        return f'(JNum {lib.cZ(o)})'
    if isinstance(o, str):
        return f'(JStr {lib.cstr(o)})'
    if isinstance(o, list):
        return '(JArr [' + '; '.join(cj(x) for x in o) + '])'
    if isinstance(o, dict):
        return '(JObj [' + '; '.join(f'({lib.cstr(k)}, {cj(v)})' for k, v in o.items()) + '])'
    raise ValueError(f'not a JSON value the model covers: {type(o).__name__}')


def ll(d):
    return '[' + ';'.join(pc.nl(h) for h in d) + ']'


def cdda(d):
    if d is None:
        return 'None'
    return '(Some [' + '; '.join(f"(sn {p}, [{'; '.join(f'(match strain_of_val {s + 1} with Some x => x | None => NT end, {lib.cZ(n)})' for s, n in row)}])" for p, row in d) + '])'


def ccontract(k):
    if k['bid'] is None:
        return f"(mkcontract None {lib.cbool(k['x'])} {lib.cbool(k['xx'])} (vn {k['vul']}) None)"
    return f"(mkcontract (match bn {k['bid']} with Bid l s => Some (l, s) | _ => None end) {lib.cbool(k['x'])} {lib.cbool(k['xx'])} (vn {k['vul']}) {lib.copt(k['decl'], lambda d: f'(sn {d})')})"


def crecord(r):
    play = 'None' if r['play'] is None else '(Some [' + '; '.join(f"(sn {ld}, map cn {pc.nl(cs)})" for ld, cs in r['play']) + '])'
    return f"(mkLog (pfn [{'; '.join(lib.cstr(n) for n in r['players'])}]) {lib.cstr(r['board_id'])} (sn {r['dealer']}) (dfn {ll(r['deal'])}) (map bn {pc.nl(r['bids'])}) " \
           f"{ccontract(r['contract'])} {play} {lib.copt(r['taken'], lib.cZ)} {lib.cstr(r['scoring'])} {lib.cZ(r['scores'][0])} {lib.cZ(r['scores'][1])} {cdda(r['dda'])})"


def csetting(s):
    return f"(mkSetting {lib.cstr(s['board_id'])} (sn {s['dealer']}) (dfn {ll(s['deal'])}) (vn {s['vul']}) {cdda(s['dda'])})"


# ---- normal forms of what was written (the statement's right-hand side), same shape as drivers/jsonlog.py prints
def written_log(r):
    k = r['contract']
    po = k['bid'] is None
    st = 2 if k['xx'] else 1 if k['x'] else 0
    return dict(board_id=r['board_id'], hands=[sorted(h) for h in r['deal']], dealer=r['dealer'], vul=k['vul'],
                declarer=None if po else k['decl'], contract=[k['bid'], 0 if po else st, k['vul'], None if po else k['decl']], taken=r['taken'],
                players=[[p, r['players'][p]] for p in range(4)], bids=r['bids'], play=r['play'], dda=r['dda'], score_type=r['scoring'],
                scores=[[0, r['scores'][0]], [1, r['scores'][1]]])


def written_setting(s, vul=None):
    return dict(board_id=s['board_id'], hands=[sorted(h) for h in s['deal']], dealer=s['dealer'], vul=s['vul'] if vul is None else vul, dda=s['dda'])
