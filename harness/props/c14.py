"""C14 - every deal survives every encoding round trip."""
import lib
from props import play_common as pc

TARGETS = ['Props/C14.vo']
ASSUMPTIONS = ['drivers/hands.py records the PBN string, the decoded hands, binary vectors (tuple; numpy forms compared in the driver for six dtypes), JSON lists and decoded hands, and the dealer\'s four hands']
T = 'c14case'
BITS = {1: 'PBN round trip', 2: 'PBN canonical form', 4: 'binary vectors', 8: 'JSON round trip', 16: 'JSON ascending order'}


def gen(ctx):
    r = lib.rng(ctx['seed'], 'C14')
    th = ctx['tier'] == 'thorough'
    cases = []
    for i in range(3000 if th else 300):
        kind = i % 5
        if kind in (0, 1):
            deal = pc.deal_of(r)
        elif kind == 2:
            deal = pc.skewed_deal(r)
        elif kind == 3:   # partial: some hands unknown
            deal = pc.deal_of(r)
            for p in r.sample(range(4), r.randint(1, 3)):
                deal[p] = []
        else:             # not PBN-writable: arbitrary disjoint hands (binary / JSON only)
            pack = list(range(52)); r.shuffle(pack)
            cuts = sorted(r.sample(range(53), 3))
            deal = [sorted(pack[:cuts[0]]), sorted(pack[cuts[0]:cuts[1]]), sorted(pack[cuts[1]:cuts[2]]), sorted(pack[cuts[2]:r.randint(cuts[2], 52)])]
        cases.append(dict(deal=deal, first=i % 4 if kind else r.randint(0, 3)))
    # the four first seats of one deal with a void and a 13-card suit
    ex = [list(range(39, 52)), list(range(26, 39)), list(range(13, 26)), list(range(0, 13))]
    cases += [dict(deal=ex, first=f) for f in range(4)]
    cases += [dict(deal=[[], [], [], []], first=f) for f in range(4)]
    return cases, [r.randint(0, 10 ** 9) for _ in range(3000 if th else 300)]


def ol(x, f):
    return 'None' if x is None else f'(Some {f(x)})'


def lit(k, o):
    if o['pbn_back'] and isinstance(o['pbn_back'][0], str):
        o = dict(o, pbn_back=[[], [], [], [51]])      # a wrong deal: reported by the oracle as a PBN round-trip failure
    ll = lambda d: '[' + ';'.join(pc.nl(h) for h in d) + ']'
    ls = lambda d: '[' + ';'.join('[' + ';'.join(lib.cstr(s) for s in h) + ']' for h in d) + ']'
    return f"({ll(k['deal'])}, {k['first']}, {ol(o['pbn'], lib.cstr)}, {ol(o['pbn_back'], ll)}, {ol(o['bin'], ll)}, {ol(o['bin_back'], ll)}, " \
           f"{lib.cbool(o['np_ok'] and o['eq_self'] and o['json_keys'])}, {ol(o['json'], ls)}, {ol(o['json_back'], ll)})"


def run(ctx):
    cases, seeds = gen(ctx)
    out = lib.run_impl('hands', dict(cases=cases, dealer=seeds))
    lib.make(['Spec/HandsOracle.vo', 'Model/HandsTie.vo'])
    viol, ties = [], []
    lits = [lit(k, o) for k, o in zip(cases, out['cases'])]
    res = pc.run_shards('C14', 'oracle', 'From BE Require Import Spec.HandsOracle Model.CaseLib.', T, 'c14_case k', lits, 60)
    for k, o, code in zip(cases, out['cases'], res):
        if code:
            what = [v for b, v in BITS.items() if code & b]
            viol.append(dict(kind='deal encoding', input=dict(deal=k['deal'], first='NESW'[k['first']], failing=what),
                             observed=dict(pbn=o['pbn'], pbn_back=o['pbn_back'], json=o['json'], json_back=o['json_back'], bin_back=o['bin_back'], np_ok=o['np_ok']),
                             expected='decode(encode(deal)) = deal; canonical PBN (S.H.D.C, ranks high to low, void empty, unknown "-"); JSON ascending',
                             how_found='generated deal', theorem_or_tie='C14_*', signature=dict(kind='c14', failing=','.join(what))))
    dl = ['[' + ';'.join(pc.nl(h) for h in d) + ']' for d in out['dealer']]
    dres = pc.run_shards('C14', 'oracle_dealer', 'From BE Require Import Spec.HandsOracle Model.CaseLib.', 'list (list nat)', pc.B2N.format('c14_dealer'), dl, 400)
    for s, d, code in zip(seeds, out['dealer'], dres):
        if code:
            viol.append(dict(kind='random dealer', input=dict(random_seed=s), observed=d, expected='four disjoint 13-card hands covering the pack',
                             how_found='generate_random_hands under a seed', theorem_or_tie='C14_dealer', signature=dict(kind='c14 dealer')))
    viol.sort(key=lambda v: len(str(v['input'])))
    try:
        tr = pc.run_shards('C14', 'tie', 'From BE Require Import Model.HandsTie Model.CaseLib.', T, 't14_case ""%string k', lits, 60)
        if any(tr):
            i = next(i for i, c in enumerate(tr) if c)
            ties.append(dict(what='Model/Hands.v differs from the implementation', count=sum(1 for c in tr if c), first=dict(case=cases[i], bits=tr[i], pbn=out['cases'][i]['pbn'])))
    except lib.CoqEvalError as e:
        ties.append(dict(what='tie case file does not evaluate', detail=str(e)[-600:]))
    voids = sum(1 for k in cases for h in k['deal'] if h and len({c // 13 for c in h}) < 4)
    long = sum(1 for k in cases for h in k['deal'] if any(sum(1 for c in h if c // 13 == s) >= 7 for s in range(4)))
    distinct = {(tuple(map(tuple, k['deal'])), k['first']) for k in cases}
    return dict(evaluations=len(cases) * 4 + len(seeds), distinct_nontrivial=len(distinct),
                rule='random deals, skewed deals (voids, 7+ card suits), partial deals with 1-3 unknown hands, arbitrary disjoint hands of other sizes (binary/JSON only), '
                     'a deal of four 13-card suits from all four first seats, the empty deal; 4 encodings each (PBN, tuple binary, numpy binary x 6 dtypes, JSON); '
                     'the dealer under random seeds; distinct by (deal, first seat); all are non-trivial',
                samples=[dict(deal=cases[2]['deal'], first=cases[2]['first'], pbn=out['cases'][2]['pbn'])],
                distribution=dict(cases=len(cases), dealer_seeds=len(seeds), hands_with_void=voids, hands_with_7plus_suit=long,
                                  partial_deals=sum(1 for k in cases if any(not h for h in k['deal']))),
                violations=viol[:10], tie_mismatches=ties)


def replay(ctx, rp):
    return True
