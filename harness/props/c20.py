"""C20 - admission seats one conforming client per seat and turns the others away."""
from props import session_common as sc

TARGETS = ['Props/C20.vo']
ASSUMPTIONS = ['as C09; connection requests arrive in the order given (the only race between clients is accept, and every arrival order is an input)']


def arrivals(r):
    """4..12 well-formed requests in random order; every seat is eventually offered an acceptable one."""
    teams = (r.choice(['NS team', 'a', 'A b  c']), r.choice(['E/W', 'b', 'x.Y']))
    good = [dict(seat=s, team=teams[s % 2], version=18) for s in range(4)]
    bad = []
    for _ in range(r.randint(0, 8) if r.random() < 0.5 else r.randint(4, 8)):
        k = r.random()
        s = r.randint(0, 3)
        if k < 0.3:
            bad.append(dict(seat=s, team=teams[s % 2], version=r.choice([17, 19, 1, 180])))       # wrong protocol version
        elif k < 0.55:
            bad.append(dict(seat=s, team=teams[s % 2], version=18))                                 # duplicate seat (or an early good one)
        else:
            bad.append(dict(seat=s, team=r.choice(['other', teams[(s + 1) % 2], teams[s % 2] + ' ', ' ' + teams[s % 2], teams[s % 2].swapcase(), teams[s % 2].swapcase(), teams[s % 2].upper() + '!', teams[s % 2][:-1]]), version=18))   # partner mismatch (if partner seated)
    arr = good + bad
    r.shuffle(arr)
    # a mismatching team that arrives before its partner would be seated and then block the real partner: keep the property's premise
    # (each seat eventually offered an acceptable request) by moving every foreign-named request behind the acceptable request of its
    # partner seat - it is then looked at while the partner is seated (unless the table is already full) and must be turned away
    foreign = [a for a in arr if a['team'] != teams[a['seat'] % 2]]
    for a in foreign:
        arr.remove(a)
        j = next(i for i, g in enumerate(arr) if g in good and g['seat'] == (a['seat'] + 2) % 4)
        arr.insert(r.randint(j + 1, len(arr)), a)
    if r.random() < 0.25:
        arr = [a for a in arr if a in good] + [a for a in arr if a not in good]      # the four acceptable ones first: nobody else is looked at
    for a in arr:
        a.update(policy_seed=r.randint(0, 10 ** 6), style=r.choice(['short', 'pass']), variant={})
    return arr


def run(ctx):
    th = ctx['tier'] == 'thorough'
    ss = sc.gen_sessions(ctx, 'C20', 40 if th else 8, [1], 5 if th else 3, arrivals_fn=arrivals)
    r = sc.run_session_property(ctx, 'C20', ss, 2 | 4, 'admission went wrong', 'C20_*')
    r['rule'] = ('4..12 well-formed connection requests in random order: the four acceptable ones plus wrong protocol versions, requests for seats already taken and team names '
                 'different from the seated partner\'s; one board is then played; every connection\'s complete transcript (turned-away ones included) is compared with the sequential reference; '
                 'several scheduler strategies each')
    return r


def replay(ctx, rp):
    i = rp['input']
    s = dict(boards=i['boards'], arrivals=i['arrivals'], strategy=i['strategy'], sched_seed=i['sched_seed'])
    o = sc.run_sessions([s])[0]
    return bool(sc.spec_check('C20', 'replay', [(s, o.get('scripts') or {}, sc.observed(s, o))])[0] & 6)
