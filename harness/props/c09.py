"""C09 - a session with four conforming clients always runs to completion (every schedule)."""
import json
import lib
from props import play_common as pc
from props import session_common as sc

TARGETS = ['Props/C09.vo']
ASSUMPTIONS = ['harness/sched.py serialises the real threads (one synchronisation operation per step) and reports enabledness; drivers/session.py runs the real Server.run / PlayerThread / Client.run on in-memory sockets',
               'threading.Barrier, queue.Queue, Thread.join and sockets are replaced by instrumented twins with their documented semantics; time.sleep is a scheduling point']


def sessions(ctx, nsess, boards_choices, strategies_per):
    """The session mixes of session_common (played / passed-out boards in both orders, several played boards, one-suit deals),
    each under round-robin, "main runs only when nothing else can" and further strategies."""
    return sc.gen_sessions(ctx, 'C09', nsess, boards_choices, strategies_per, must=('low:main',), extra=dict(want_schedule=True))


def complete(sess, o):
    """The statement, on the observation: every thread finished, every client was told End of session, the log is complete."""
    if o['result'] != 'finished':
        return False, f"session {o['result']}"
    bad = [k for k, v in o['ends'].items() if v != 'returned']
    if bad:
        return False, f'threads did not finish: {bad}'
    for i in range(len(sess['arrivals'])):
        ls = sc.lines(o['transcripts'][f'cli{i}']['to_client'])
        if not ls or ls[-1] != 'End of session':
            return False, f'client {i} was not sent End of session'
    try:
        logs = json.loads(o['log_text'])['logs']
    except Exception:
        return False, 'log is not a complete JSON document'
    if len(logs) != len(sess['boards']):
        return False, f'log has {len(logs)} of {len(sess["boards"])} boards'
    return True, ''


def run(ctx):
    th = ctx['tier'] == 'thorough'
    ss = sessions(ctx, 24 if th else 4, [1, 2, 3, 5] if th else [1, 2], 10 if th else 6)
    outs = sc.run_sessions(ss)
    lib.make(['Model/SessionTie.vo'])
    viol, ties = [], []
    oks = []
    for s, o in zip(ss, outs):
        ok, why = complete(s, o)
        oks.append(ok)
        if not ok:
            viol.append(dict(kind='session does not run to completion', input=dict(boards=s['boards'], arrivals=s['arrivals'], strategy=s['strategy'], sched_seed=s['sched_seed'],
                                                                                  schedule=o.get('schedule')),
                             observed=dict(result=o['result'], why=why, steps=o.get('steps'), blocked_at=o.get('detail'), ends=o.get('ends')),
                             expected='every board played, End of session to every client, log closed, every thread finished',
                             how_found=f"controlled scheduler, strategy {s['strategy']}; the schedule (list of thread names) replays it",
                             theorem_or_tie='C09_completes / maximal_runs_agree',
                             signature=dict(kind='c09', result=o['result'], blocked_main=str((o.get('detail') or {}).get('main') if isinstance(o.get('detail'), dict) else ''))))
    viol.sort(key=lambda v: (len(v['input']['boards']), v['observed'].get('steps') or 0))
    for v in viol[3:]:
        v['input'].pop('schedule', None)
    # tie: model (canonical schedule) against every real run; scripts are taken from a completed run of the same input
    items = []
    for s, o in zip(ss, outs):
        ref = next((o2 for s2, o2, k in zip(ss, outs, oks) if k and s2['boards'] is s['boards'] and s2['arrivals'] is s['arrivals']), None)
        if ref is not None:
            items.append((s, ref['scripts'], sc.observed(s, o)))
    try:
        res = sc.tie('C09', 'tie', items)
        bad = [(it[0]['strategy'], c) for it, c in zip(items, res) if c]
        if bad:
            ties.append(dict(what='Model/Session.v (canonical schedule) differs from the real run: bits 1 model not final, 2 thread ends, 4 lines to clients, 8 lines to server, 16 log',
                             count=len(bad), which=bad[:8]))
    except lib.CoqEvalError as e:
        ties.append(dict(what='tie case file does not evaluate', detail=str(e)[-800:]))
    # the same with real sockets and the OS scheduling the real threads (no controlled scheduler): a smoke test that the
    # controlled runs are representative; compared with the sequential reference and with the model like the others
    r2 = lib.rng(ctx['seed'], 'C09real')
    real = []
    for i in range(6 if th else 1):
        real.append(dict(boards=sc.gen_boards(r2, r2.choice([1, 2, 3])), arrivals=sc.four_arrivals(r2), strategy='os-threads-real-sockets', sched_seed=0))
    routs = lib.run_impl('session_real', dict(sessions=real), timeout=1200)
    ritems = [(s, o['scripts'], sc.observed(s, o)) for s, o in zip(real, routs)]
    rcodes = sc.spec_check('C09', 'real_oracle', ritems)
    rties = sc.tie('C09', 'real_tie', ritems)
    for s, o, code, tcode in zip(real, routs, rcodes, rties):
        ok, why = complete(s, o)
        if not ok or code:
            viol.append(dict(kind='real-socket session does not complete as the reference says', input=dict(boards=s['boards'], arrivals=s['arrivals'], strategy=s['strategy'], sched_seed=0),
                             observed=dict(result=o['result'], why=why, spec_bits=code, ends=o['ends']), expected='completion; log and transcripts equal to the sequential reference',
                             how_found='real Server / Client over localhost sockets, OS scheduling', theorem_or_tie='C09 (validation of the controlled scheduler)',
                             signature=dict(kind='c09 real', result=o['result'])))
        if tcode:
            ties.append(dict(what='Model/Session.v differs from a real-socket run', bits=tcode))
    strat = {}
    for s in ss:
        strat[s['strategy'].split(':')[0]] = strat.get(s['strategy'].split(':')[0], 0) + 1
    return dict(evaluations=len(ss), distinct_nontrivial=len({(json.dumps(s['boards']), s['strategy'], s['sched_seed']) for s in ss}),
                traces_validated_against_impl=len(items),
                rule='sessions of 1..5 boards (competitive / short / all-pass / mixed policies, random letter case, alerts, both card notations) each run under several scheduler strategies: '
                     'round robin, random, each thread lowest / highest priority, PCT with 1-3 priority change points; non-trivial = one controlled run; distinct by (boards, strategy, seed)',
                samples=[dict(strategy=ss[0]['strategy'], steps=outs[0].get('steps'), result=outs[0]['result'], first_ops=(outs[0].get('schedule') or [])[:12])],
                distribution=dict(real_socket_sessions=len(real), strategies=strat, boards=[len(s['boards']) for s in ss[::6]], steps=[o.get('steps') for o in outs][:12],
                                  results={r: sum(1 for o in outs if o['result'] == r) for r in {o['result'] for o in outs}}),
                violations=viol[:6], tie_mismatches=ties)


def replay(ctx, rp):
    i = rp['input']
    s = dict(boards=i['boards'], arrivals=i['arrivals'], strategy=i['strategy'], sched_seed=i['sched_seed'])
    if i.get('schedule'):
        s['replay'] = i['schedule']
    o = sc.run_sessions([s])[0]
    return not complete(s, o)[0]
