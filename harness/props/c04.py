"""C04 - tricks are won, led and counted by the laws of play (bare PlayingPhase and with hands)."""
import lib
from props import play_common as pc

TARGETS = ['Props/C04.vo']
ASSUMPTIONS = ['drivers/play.py records leader, active_player, trick_num, taken_tricks, playing_history.history, has_done() after every card']


def run(ctx):
    inp = pc.gen(ctx, {'bare', 'hands'})
    out = lib.run_impl('play', inp)
    lib.make(['Spec/PlayOracle.vo', 'Model/PlayTie.vo'])
    viol, ties = [], []
    T = 'nat * nat * (nat * nat * nat * nat * nat) * list nat * list proj * list (nat * list nat)'
    # bare cases + the accepted plays of the with-hands boards, seen as card lists
    cases = [(k, o) for k, o in zip(inp['bare'], out['bare'])]
    lits = [pc.lit_bare(k, o) for k, o in cases]
    res = pc.run_shards('C04', 'oracle', pc.IMP_O, T, 'c04_case k', lits, 60)
    for (k, o), code in zip(cases, res):
        if code:
            n = len(k['cards']) if code >= 998 else code
            viol.append(dict(kind='trick won/led/counted wrongly', input=dict(bid=k['bid'], declarer=k['decl'], cards=k['cards'][:n], card_names=pc.names(k['cards'][:n])),
                             observed=(o['obs'][n - 1] if 0 < n <= len(o['obs']) else o['init']) if code != 1000 else o['hist'][-2:],
                             expected='Spec/PlayLaws.v winner / Spec/PlayOracle.v reference',
                             how_found='bare PlayingPhase fed an arbitrary card list; reference evaluated in Coq; cut at the first wrong observation',
                             theorem_or_tie='C04_trick_done / C04_winner', signature=dict(kind='play bookkeeping')))
    hl = [f"({k['suit']}, {pc.nl(k['cards'])}, {lib.copt(o, str)})" for k, o in zip(inp['highest'], out['highest'])]
    hres = pc.run_shards('C04', 'oracle_h', pc.IMP_O, 'nat * list nat * option nat', pc.B2N.format('c04_highest'), hl, 4000)
    for k, o, code in zip(inp['highest'], out['highest'], hres):
        if code:
            viol.append(dict(kind='calc_highest wrong', input=dict(suit_value=k['suit'], cards=k['cards'], card_names=pc.names(k['cards'])), observed=o,
                             expected='first card of maximal rank in that suit, -1 if none / NT', how_found='direct call', theorem_or_tie='C04_calc_highest_spec',
                             signature=dict(kind='calc_highest')))
    # with hands: the projections after each accepted play must follow the same reference (C05's oracle covers refusal)
    T5 = 'nat * nat * list (list nat) * list (nat * nat) * list (bool * bool * proj) * (list (list nat) * list nat * list (nat * list nat))'
    l5 = [pc.lit_hands(k, o) for k, o in zip(inp['hands'], out['hands'])]
    r5 = pc.run_shards('C04', 'oracle5', pc.IMP_O, T5, 'c05_case k', l5, 12)
    for k, o, code in zip(inp['hands'], out['hands'], r5):
        if code:
            n = len(o['ops']) if code >= 998 else code
            viol.append(dict(kind='trick won/led/counted wrongly (with hands)', input=dict(bid=k['bid'], declarer=k['decl'], deal=k['deal'], ops=o['ops'][:n]),
                             observed=o['obs'][n - 1] if code < 998 else o['final'], expected='Spec/PlayOracle.v reference',
                             how_found='PlayingPhaseWithHands board', theorem_or_tie='C04_*', signature=dict(kind='play bookkeeping')))
    viol.sort(key=lambda v: len(str(v['input'])))
    try:
        t = pc.run_shards('C04', 'tie', pc.IMP_T, T, 't04_case k', lits, 60)
        th = pc.run_shards('C04', 'tie_h', pc.IMP_T, 'nat * list nat * option nat', pc.B2N.format('t04_highest'), hl, 4000)
        t5 = pc.run_shards('C04', 'tie5', pc.IMP_T, T5, 't05_case k', l5, 12)
        if any(t) or any(th) or any(t5):
            i = next((i for i, c in enumerate(t) if c), None)
            ties.append(dict(what='Model/Play.v and PlayingPhase disagree', bare=sum(1 for c in t if c), highest=sum(1 for c in th if c), hands=sum(1 for c in t5 if c),
                             first=None if i is None else dict(case=inp['bare'][i], at=t[i])))
    except lib.CoqEvalError as e:
        ties.append(dict(what='tie case file does not evaluate', detail=str(e)[-600:]))
    cards_played = sum(len(k['cards']) for k in inp['bare']) + sum(len(o['ops']) for o in out['hands'])
    tricks = set()
    pos = [0, 0, 0, 0]
    for k, o in cases:
        for t in o['hist']:
            tricks.add((k['bid'] % 5, tuple(t[1])))
    for k, o in zip(inp['hands'], out['hands']):
        for t in o['final'][2]:
            tricks.add((k['bid'] % 5, tuple(t[1])))
    for k, o in cases:
        h = o['hist']
        for a, b in zip(h, h[1:] + [None]):
            if b is not None:
                pos[(b[0] - a[0]) % 4] += 1
    return dict(evaluations=cards_played + len(inp['highest']), distinct_nontrivial=len(tricks),
                rule='bare PlayingPhase fed arbitrary card lists (a shuffled pack, arbitrary repeats, few-suit lists that force ruffs/over-ruffs, single-suit lists) for every bid, '
                     'with-hands boards under follow / any-card / mixed policies, calc_highest on random (and, thorough, all 4-card tricks over a 12-card sub-deck x 5 strains) inputs; '
                     'non-trivial = a completed trick; distinct by (strain, the four cards in order)',
                samples=[dict(bid=cases[0][0]['bid'], declarer=cases[0][0]['decl'], cards=pc.names(cases[0][0]['cards'][:8]), history=cases[0][1]['hist'][:2])],
                distribution=dict(bare_cases=len(cases), highest_cases=len(hl), boards_with_hands=len(l5), winner_position_counts=pos),
                violations=viol[:10], tie_mismatches=ties)


def replay(ctx, rp):
    i = rp['input']
    if 'suit_value' in i:
        inp = dict(highest=[dict(suit=i['suit_value'], cards=i['cards'])])
        out = lib.run_impl('play', inp)
        hl = [f"({i['suit_value']}, {pc.nl(i['cards'])}, {lib.copt(out['highest'][0], str)})"]
        return any(pc.run_shards('C04', 'replay', pc.IMP_O, 'nat * list nat * option nat', pc.B2N.format('c04_highest'), hl, 10))
    if 'cards' in i:
        k = dict(bid=i['bid'], decl=i['declarer'], cards=i['cards'])
        out = lib.run_impl('play', dict(bare=[k]))
        T = 'nat * nat * (nat * nat * nat * nat * nat) * list nat * list proj * list (nat * list nat)'
        return any(pc.run_shards('C04', 'replay', pc.IMP_O, T, 'c04_case k', [pc.lit_bare(k, out['bare'][0])], 10))
    return True
