"""C12 - JSON game logs are schema-valid and read back exactly as written."""
import json, os, subprocess
import lib
from props import play_common as pc
from props import json_common as jc

TARGETS = ['Props/C12.vo']
ASSUMPTIONS = ['drivers/jsonlog.py writes with the real JsonLogWriter into a StringIO, reads back with json.loads and JsonParser, and prints value objects as indices with type tags',
               'json.dumps / json.load below the token level (escaping, number syntax) are trusted; jsonschema (tooling venv) cross-checks the schema verdict']
IMP_T = 'From BE Require Import Model.Json Model.Schema Model.JsonTie Model.CaseLib Gen.JsonFraming Gen.Schemas.\nFrom Coq Require Import ZArith.'
IMP_O = 'From BE Require Import Model.Json Model.JsonTie Spec.JsonOracle Model.CaseLib.\nFrom Coq Require Import ZArith.'


def jsonschema_verdicts(texts):
    """Independent oracle for schema validity: the jsonschema package in the tooling venv, on the shipped files."""
    script = r'''
import json, sys, os
import jsonschema
d = sys.argv[1]
store = {}
for f in ('log_format.schema.json', 'board_setting_format.schema.json'):
    store[f] = json.load(open(os.path.join(d, f)))
schema = store['log_format.schema.json']
try:
    from referencing import Registry, Resource
    reg = Registry().with_resources([(f, Resource.from_contents(s, default_specification=__import__('referencing.jsonschema', fromlist=['DRAFT7']).DRAFT7)) for f, s in store.items()])
    v = jsonschema.Draft7Validator(schema, registry=reg)
except Exception:
    res = jsonschema.RefResolver('file://' + d + '/log_format.schema.json', schema, store={('file://' + d + '/' + f): s for f, s in store.items()})
    v = jsonschema.Draft7Validator(schema, resolver=res)
out = []
for t in json.load(sys.stdin):
    try:
        errs = sorted(v.iter_errors(json.loads(t)), key=lambda e: list(e.path))
        out.append([list(map(str, e.path))[-1:] + [e.message[:80]] for e in errs[:3]])
    except Exception as e:
        out.append([['invalid', str(e)[:80]]])
print(json.dumps(out))
'''
    p = subprocess.run(['python3-vt', '-c', script, os.path.join(lib.REPO, 'bridge_env/data_handler/json_handler')], input=json.dumps(texts),
                       capture_output=True, text=True, timeout=600)
    if p.returncode != 0:
        raise lib.ImplCrash('jsonschema', p.returncode, p.stdout[-500:], p.stderr[-1500:])
    return json.loads(p.stdout.strip().splitlines()[-1])


def ol(x, f):
    return 'None' if x is None else f'(Some {f(x)})'


def run(ctx):
    r = lib.rng(ctx['seed'], 'C12')
    th = ctx['tier'] == 'thorough'
    cases = [[]] + [[jc.gen_record(r)] for _ in range(400 if th else 40)] + [[jc.gen_record(r) for _ in range(r.randint(2, 5))] for _ in range(200 if th else 25)]
    for _ in range(40 if th else 6):       # the same id used for different boards in one log (two sessions numbered from 1, a redealt board)
        a, b, c = jc.gen_record(r), jc.gen_record(r), jc.gen_record(r)
        b['board_id'] = a['board_id']
        c['board_id'] = a['board_id'] if r.random() < 0.5 else c['board_id']
        cases.append([a, b, c])
    out = lib.run_impl('jsonlog', dict(logs=cases))['logs']
    lib.make(['Spec/JsonOracle.vo', 'Model/JsonTie.vo', 'Gen/JsonFraming.vo', 'Gen/Schemas.vo'])
    viol, ties = [], []
    LJ = lambda l: '[' + '; '.join(jc.cj(x) for x in l) + ']'
    # oracle 1: one valid document, read back equal to what was written (logs) and as the same boards (settings)
    lits_l, lits_s = [], []
    for rs, o in zip(cases, out):
        lits_l.append(f"({LJ([jc.written_log(x) for x in rs])}, {ol(o['logs'].get('ok'), LJ)})")
        lits_s.append(f"({LJ([jc.written_setting(x, x['contract']['vul']) for x in rs])}, {ol(o['settings'].get('ok'), LJ)})")
    res_l = pc.run_shards('C12', 'oracle_l', IMP_O, 'list json * option (list json)', pc.B2N.format('read_equals_written'), lits_l, 8)
    res_s = pc.run_shards('C12', 'oracle_s', IMP_O, 'list json * option (list json)', pc.B2N.format('read_equals_written'), lits_s, 8)
    for rs, o, cl, cs in zip(cases, out, res_l, res_s):
        if 'ok' not in o['doc']:
            viol.append(dict(kind='log is not one valid JSON document', input=dict(records=rs), observed=o['doc'], expected='json.loads succeeds',
                             how_found='JsonLogWriter into StringIO', theorem_or_tie='C12_framing', signature=dict(kind='c12 invalid json')))
            continue
        if cl:
            want, got = [jc.written_log(x) for x in rs], o['logs'].get('ok')
            diff = first_diff(want, got) if got is not None else o['logs']
            viol.append(dict(kind='log not read back as written', input=dict(records=shrink(rs, want, got)), observed=diff,
                             expected='every field equal to what was written, as the library\'s value objects',
                             how_found='JsonLogWriter -> JsonParser.parse_board_logs', theorem_or_tie='C12_roundtrip',
                             signature=dict(kind='c12 roundtrip', field=str(diff.get('field') if isinstance(diff, dict) else 'raises'))))
        if cs:
            viol.append(dict(kind='log not accepted as the same board settings', input=dict(records=rs[:1]), observed=o['settings'],
                             expected='same boards in the same order', how_found='JsonParser.parse_board_settings on the log', theorem_or_tie='C12_as_settings',
                             signature=dict(kind='c12 as settings')))
    # oracle 2: schema validity, by the jsonschema package on the shipped schema files
    verdicts = jsonschema_verdicts([o['text'] for o in out])
    for rs, o, v in zip(cases, out, verdicts):
        if v:
            viol.append(dict(kind='written log does not conform to the published schema', input=dict(records=rs[:1]), observed=v,
                             expected='valid against log_format.schema.json', how_found='jsonschema.Draft7Validator on the shipped schema',
                             theorem_or_tie='C12_schema', signature=dict(kind='c12 schema', at=str(v[0][0]))))
    viol.sort(key=lambda v: len(str(v['input'])))
    # tie: model document / parser results / schema verdict
    try:
        tl = [f"([{'; '.join(jc.crecord(x) for x in rs)}], {ol(o['doc'].get('ok'), jc.cj)}, {ol(o['logs'].get('ok'), LJ)}, {ol(o['settings'].get('ok'), LJ)})"
              for rs, o in zip(cases, out)]
        tr = pc.run_shards('C12', 'tie', IMP_T, 'list logrec * option json * option (list json) * option (list json)', 't12_case json_framing k', tl, 8)
        bad = [(rs, c) for rs, c in zip(cases, tr) if c]
        if bad:
            ties.append(dict(what='Model/Json.v differs from the implementation (1 document, 2 parse_board_logs, 4 parse_board_settings)', count=len(bad),
                             bits=sorted({c for _, c in bad}), first=min((rs for rs, _ in bad), key=lambda x: len(str(x)))[:1]))
        sl = [ol(o['doc'].get('ok'), jc.cj) for o in out]
        sr = pc.run_shards('C12', 'tie_schema', IMP_T, 'option json', 'if Bool.eqb (t12_schema log_schema k) true then 0 else 1', sl, 8)
        mism = [i for i, (c, v) in enumerate(zip(sr, verdicts)) if bool(c) != bool(v)]
        if mism:
            ties.append(dict(what='Model/Schema.v validates disagrees with jsonschema on the shipped schema', count=len(mism), first=cases[mism[0]][:1]))
    except (lib.CoqEvalError, ValueError) as e:
        ties.append(dict(what='tie case file does not evaluate', detail=str(e)[-800:]))
    nrec = sum(len(c) for c in cases)
    distinct = {json.dumps(x, sort_keys=True) for c in cases for x in c}
    return dict(evaluations=nrec + len(cases), distinct_nontrivial=len(distinct),
                rule='lists of 0, 1 and 2-5 board results: every contract incl. passed out, all doubling states, arbitrary call lists, 0..13 recorded tricks with arbitrary leaders/cards, '
                     'names and ids over ASCII, quotes, backslashes, control characters, Latin-1, CJK and non-BMP, every scoring value, with and without (partial) double-dummy tables; '
                     'distinct by record; all non-trivial',
                samples=[dict(record=cases[1][0], text=out[1]['text'][:300])],
                distribution=dict(documents=len(cases), records=nrec, passed_out=sum(1 for c in cases for x in c if x['contract']['bid'] is None),
                                  with_dda=sum(1 for c in cases for x in c if x['dda'] is not None), empty_documents=1),
                violations=viol[:12], tie_mismatches=ties)


def first_diff(want, got):
    if len(want) != len(got):
        return dict(field='number of records', written=len(want), read=len(got))
    for i, (w, g) in enumerate(zip(want, got)):
        for k in w:
            if w[k] != g.get(k):
                return dict(record=i, field=k, written=w[k], read=g.get(k))
    return dict(field='?')


def shrink(rs, want, got):
    if got is None or len(want) != len(got):
        return rs
    for x, w, g in zip(rs, want, got):
        if w != g:
            return [x]
    return rs[:1]


def replay(ctx, rp):
    rs = rp['input']['records']
    o = lib.run_impl('jsonlog', dict(logs=[rs]))['logs'][0]
    if 'ok' not in o['doc'] or 'ok' not in o['logs']:
        return True
    if o['logs']['ok'] != [jc.written_log(x) for x in rs]:
        return True
    return bool(jsonschema_verdicts([o['text']])[0])
