"""C15 - notations.  Complete-domain tables of the implementation, checked in Coq."""
import os
import lib
import graphs

TARGETS = ['Props/C15.vo']
ASSUMPTIONS = ['drivers/notation_graph.py prints what every converter returned on every point of its domain']
TRUSTED = ['Gen/NotationGraph.v = every converter of card/bid/player/vul/suit/pair/contract evaluated on its complete domain by drivers/notation_graph.py']
TABLES = ['cards', 'ranks', 'card_cmp', 'calls', 'seats', 'vuls', 'vul_inputs', 'suits', 'pairs', 'contracts', 'passed_out']
TIE_TABLES = TABLES + ['is_partner', 'seat_is_vul']
_g = {}
STR = ['C', 'D', 'H', 'S', 'NT']
FLAGS = [(False, False), (True, False), (False, True), (True, True)]


def pre(ctx):
    _g['g'] = graphs.gen_notation_graph()


def describe(table, i, g):
    if i >= 1000:
        return dict(table=table, problem={1000: 'two values share a text notation', 1002: 'two values share a formal/PBN name',
                                          1001: 'table has the wrong number of rows', 9999: 'table has the wrong number of rows'}.get(i, 'table-level'))
    d = dict(table=table, row=i)
    if table == 'cards':
        d['card'] = dict(rank=i % 13 + 2, suit_value=i // 13 + 1)
    elif table == 'calls':
        d['call_value'] = i + 1
    elif table == 'contracts':
        b, f, v, dd = i // 80, (i // 20) % 4, (i // 5) % 4, i % 5
        d['contract'] = dict(bid=f'{b // 5 + 1}{STR[b % 5]}', x=FLAGS[f][0], xx=FLAGS[f][1], vul_value=v + 1, declarer_value=dd or None)
    try:
        d['implementation_row'] = g[table][i]
    except Exception:
        pass
    return d


def run(ctx):
    g = _g.get('g') or graphs.gen_notation_graph()
    lib.make(['Gen/NotationGraph.vo', 'Spec/Notation.vo'])
    bad = lib.coq_cases('C15', 'oracle', 'From BE Require Import Spec.Notation Gen.NotationGraph.', '',
                        [f'{t}_bad g_{t}' for t in TABLES])
    viol, ties = [], []
    for t, idx in zip(TABLES, bad):
        for i in idx[:5]:
            viol.append(dict(kind='notation not an exact inverse', input=describe(t, i, g), observed=describe(t, i, g).get('implementation_row'),
                             expected='round trip to the identical value / distinct notations / order = index order (Spec/Notation.v)',
                             how_found='complete-domain table checked by the Spec/Notation.v checker in Coq',
                             theorem_or_tie='C15_implementation_tables_satisfy_property', signature=dict(kind='notation', table=t)))
    if not ctx.get('build_ok', True) or True:
        # name the tables on which the model differs from the implementation (only matters when the theorem broke)
        pass
    n = sum(len(g[t]) if t != 'card_cmp' else 52 * 52 for t in g)
    return dict(evaluations=n, distinct_nontrivial=n, exhaustive=True,
                rule='every value of every finite domain: 52 cards, 13 ranks, 2704 ordered card pairs x 5 comparison operators, 38 calls, 4 seats, '
                     '4 vulnerabilities x 2 spellings + 7 accepted inputs, 5 suits, 2 pairs, 35 bids x 4 flag pairs x 4 vul x 5 declarer options, 8 passed-out; '
                     'every row is a distinct value',
                samples=[dict(card_row=g['cards'][8]), dict(call_row=g['calls'][36]), dict(contract_row=g['contracts'][1234])],
                tables={t: len(g[t]) for t in g}, violations=viol, tie_mismatches=ties)


def search(ctx, broken):
    """Name the tables whose model rows differ from the implementation (no Spec violation was found)."""
    names = []
    for t in TIE_TABLES:
        d = os.path.join(lib.COQ, 'Cases', 'C15')
        os.makedirs(d, exist_ok=True)
        p = os.path.join(d, f'tie_{t}.v')
        open(p, 'w').write(f'From BE Require Import Model.NotationRows Gen.NotationGraph.\nGoal m_{t} = g_{t}. Proof. vm_compute. reflexivity. Qed.\n')
        rc, out, err = lib.coqc(p, 300)
        if rc != 0:
            names.append(t)
    for b in broken:
        b['detail'] = dict(tables_where_model_differs=names, detail=b.get('detail'))
    return []


def replay(ctx, rp):
    g = graphs.gen_notation_graph()
    lib.make(['Gen/NotationGraph.vo', 'Spec/Notation.vo'])
    t = rp['input']['table']
    bad = lib.coq_cases('C15', 'replay', 'From BE Require Import Spec.Notation Gen.NotationGraph.', '', [f'{t}_bad g_{t}'])[0]
    return bool(bad)
