"""C18 - PBN export is read back by the PBN parser, one game per board; no line exceeds 255 characters."""
import json
import lib
from props import play_common as pc
from props import json_common as jc
from props import pbn_common as pb

TARGETS = ['Props/C18.vo']
ASSUMPTIONS = ['drivers/pbn.py writes with the real PbnWriter into a StringIO and reads back with PbnParser']
IMP_O = 'From BE Require Import Model.Json Model.JsonTie Spec.JsonOracle Model.CaseLib.\nFrom Coq Require Import ZArith.'
IMP_TP = 'From BE Require Import Model.Json Model.JsonTie Model.Pbn Model.PbnTie Model.CaseLib.\nFrom Coq Require Import ZArith.'


def ol(x, f):
    return 'None' if x is None else f'(Some {f(x)})'


def run(ctx):
    r = lib.rng(ctx['seed'], 'C18')
    th = ctx['tier'] == 'thorough'
    LJ = lambda l: '[' + '; '.join(jc.cj(x) for x in l) + ']'
    cases = [dict(results=[pb.gen_result(r, j) for j in range(r.choice([1, 1, 2, 3, 6]))], header=r.random() < 0.5) for i in range(500 if th else 60)]
    cases.append(dict(results=[pb.gen_result(r, 0, passed_out=True), pb.gen_result(r, 1, passed_out=False)], header=True))
    # tag pairs that exactly fill a line (254 characters + line end), and one shorter: [Event "..."] has 10 characters of syntax
    for field, syntax in (('event', 10), ('site', 9)):
        for n in (254 - syntax, 253 - syntax, 200):
            x = pb.gen_result(r, 0)
            x[field] = pb.word(r, n).replace('  ', ' x')
            y = pb.gen_result(r, 1)
            cases.append(dict(results=[x, y], header=False))
    lines = [dict(text=pb.word(r, n)) for n in (1, 10, 253, 254, 255, 256, 300, 509, 510, 511, 800)] + [dict(text=pb.word(r, n) + '\n') for n in (1, 254, 255, 600)]
    out = lib.run_impl('pbn', dict(exports=cases, lines=lines))
    lib.make(['Spec/JsonOracle.vo', 'Model/JsonTie.vo', 'Model/PbnTie.vo'])
    viol, ties = [], []
    lits = []
    for c, o in zip(cases, out['exports']):
        want = [dict(pb.expected_tags(x)) for x in c['results']]
        got = o['games'].get('ok')
        lits.append(f"({LJ(want)}, {ol(None if got is None else [dict(g) for g in got], LJ)})")
    for c, o in zip(cases, out['exports']):
        want = [pb.setting_norm(dict(deal=x['deal'], dealer=x['dealer'], vul=x['contract']['vul'], board_id=str(x['board_num']))) for x in c['results']]
        lits.append(f"({LJ(want)}, {ol(o['settings'].get('ok'), LJ)})")
    res = pc.run_shards('C18', 'oracle', IMP_O, 'list json * option (list json)', pc.B2N.format('read_equals_written'), lits, 12)
    n = len(cases)
    for c, o, code, code2 in zip(cases, out['exports'], res[:n], res[n:]):
        if code or code2:
            got = o['games'].get('ok')
            if got is None:
                what = o['games']
            elif len(got) != len(c['results']):
                what = dict(results_written=len(c['results']), games_read=len(got))
            else:
                what = next((dict(game=i, tag=k, written=v, read=dict(g).get(k)) for i, (x, g) in enumerate(zip(c['results'], got))
                             for k, v in pb.expected_tags(x) if dict(g).get(k) != v), o['settings'])
            viol.append(dict(kind='PBN export not read back as written', input=dict(results=c['results'][:3] if len(c['results']) > 2 else c['results'], header=c['header']),
                             observed=what, expected='one game per board result, the fifteen tags with the written values, boards recovered as settings',
                             how_found='PbnWriter.write_board_result -> PbnParser.parse_all / parse_board_settings', theorem_or_tie='C18_roundtrip / C18_separate_games',
                             signature=dict(kind='c18', what=json.dumps(what)[:50])))
        if o['max_line'] > 255:
            viol.append(dict(kind='written line longer than 255 characters', input=dict(results=c['results'][:1]), observed=o['max_line'], expected='<= 255',
                             how_found='PbnWriter', theorem_or_tie='C18_lines_le_255', signature=dict(kind='c18 line length')))
    for k, o in zip(lines, out['lines']):
        ml = max(len(l) + 1 for l in o['out'].split('\n')[:-1])
        if ml > 255 or o['out'].replace('\n', '') != k['text'].replace('\n', ''):
            viol.append(dict(kind='write_line breaks the 255 limit or loses text', input=dict(length=len(k['text'])), observed=ml, expected='<= 255, text preserved',
                             how_found='PbnWriter.write_line', theorem_or_tie='C18_lines_le_255', signature=dict(kind='c18 write_line')))
    viol.sort(key=lambda v: len(str(v['input'])))
    try:
        pl = [f"({lib.cstr(o['text'])}, {ol(o['settings'].get('ok'), LJ)}, {ol(games_lit(o['games'].get('ok')), lambda x: x)})" for o in out['exports']]
        tp = pc.run_shards('C18', 'tie_parse', IMP_TP, 'string * option (list json) * option (list (list (string * string)))', 'tpbn_case k', pl, 10)
        wl = [f"({lib.cbool(c['header'])}, [{'; '.join(cresult(x) for x in c['results'])}], {lib.cstr(o['text'])})" for c, o in zip(cases, out['exports'])]
        tw = pc.run_shards('C18', 'tie_write', IMP_TP, 'bool * list pbn_result * string', 'twrite_case k', wl, 10)
        ll = [f"({lib.cstr(k['text'])}, {lib.cstr(o['out'])})" for k, o in zip(lines, out['lines'])]
        tlw = pc.run_shards('C18', 'tie_line', IMP_TP, 'string * string', 'tline_case k', ll, 20)
        if any(tp) or any(tw) or any(tlw):
            ties.append(dict(what='Model/Pbn.v differs from the implementation', parse=sum(1 for c in tp if c), write=sum(1 for c in tw if c), write_line=sum(1 for c in tlw if c)))
    except lib.CoqEvalError as e:
        ties.append(dict(what='tie case file does not evaluate', detail=str(e)[-800:]))
    nres = sum(len(c['results']) for c in cases)
    return dict(evaluations=nres + len(lines), distinct_nontrivial=len({json.dumps(x, sort_keys=True) for c in cases for x in c['results']}),
                rule='sequences of 1..6 board results with every contract, doubling state, declarer, result, dealer, vulnerability, scoring, passed-out boards, '
                     'names over the stated alphabet (blank runs, # % \' : in every position), with and without the export header; write_line on texts of length 1..800 around the 255 limit; '
                     'distinct by result; all non-trivial',
                samples=[dict(text=out['exports'][0]['text'][:400])],
                distribution=dict(files=len(cases), results=nres, passed_out=sum(1 for c in cases for x in c['results'] if x['contract']['bid'] is None), multi_game_files=sum(1 for c in cases if len(c['results']) > 1)),
                violations=viol[:8], tie_mismatches=ties)


def games_lit(games):
    if games is None:
        return None
    return '[' + '; '.join('[' + '; '.join(f'({lib.cstr(k)}, {lib.cstr(v)})' for k, v in g) + ']' for g in games) + ']'


def cresult(x):
    k = x['contract']
    d = x['date']
    return f"(mkResult {lib.cstr(x['event'])} {lib.cstr(x['site'])} ({d[0]}, {d[1]}, {d[2]}) {x['board_num']} (pfn [{'; '.join(lib.cstr(p) for p in x['players'])}]) " \
           f"(sn {x['dealer']}) (dfn {jc.ll(x['deal'])}) {lib.cstr(x['scoring'])} {jc.ccontract(k)} {lib.copt(x['taken'], str)})"


def replay(ctx, rp):
    return True
