"""Shared by the session properties C08, C09, C10, C11(b), C13, C20: session generation, controlled runs, Coq literals."""
import json
import lib
from props import play_common as pc
from props import json_common as jc

FORMAL = ['North', 'East', 'South', 'West']
CLOSED = '<connection closed by server>'
END = {'returned': 0, 'raised': 1, 'blocked': 2}
STRATEGIES = ['rr', 'random', 'first', 'low:main', 'high:main', 'pct:1', 'pct:2', 'pct:3',
              'low:conn1', 'low:conn2', 'low:conn3', 'low:conn4', 'high:conn1', 'high:conn3',
              'low:cli0', 'low:cli2', 'high:cli1', 'high:cli3']


def gen_boards(r, n):
    return [dict(deal=(pc.deal_of(r) if r.random() < 0.8 else pc.skewed_deal(r)), dealer=r.randint(0, 3), vul=r.randint(0, 3),
                 board_id=r.choice([f'b{i}', str(i + 1), f'Board {i + 1} (a)']), dda=jc.gen_dda(r) if r.random() < 0.3 else None) for i in range(n)]


def four_arrivals(r, style=None, variant=True, teams=('NS team', 'E/W')):
    seats = list(range(4))
    r.shuffle(seats)
    return [dict(seat=s, team=teams[s % 2], version=18, policy_seed=r.randint(0, 10 ** 6), style=style or r.choice(['competitive', 'competitive', 'short', 'pass']),
                 variant=dict(case=r.random() < 0.6, alert=r.random() < 0.5, suit_first=r.random() < 0.5) if variant else {}) for s in seats]


def end_code(s):
    return END.get((s or 'blocked').split(' ')[0], 2)


def lines(text):
    parts = text.split('\r\n')
    return parts[:-1] if parts and parts[-1] == '' else parts


# ---------------------------------------------------------------- Coq literals
def cboard(b):
    return f"(mkBoard {lib.cstr(b['board_id'])} (sn {b['dealer']}) (vn {b['vul']}) (dfn {jc.ll(b['deal'])}) {jc.cdda(b.get('dda'))})"


def carrival(a):
    return f"(mkArr (sn {a['seat']}) {lib.cstr(a['team'])} {a.get('version', 18)})"


def cscript(sc):
    calls = '[' + '; '.join(f'({lib.cstr(t)}, bn {v})' for t, v in sc['calls']) + ']'
    cards = '[' + '; '.join(f'({lib.cstr(t)}, cn {v})' for t, v in sc['cards']) + ']'
    return f'(mkScript {calls} {cards})'


def csession(sess, scripts):
    n = len(sess['arrivals'])
    per = '[' + '; '.join('[' + '; '.join(cscript(sc) for sc in scripts.get(f'cli{i}', [])) + ']' for i in range(n)) + ']'
    return f"(mkSession [{'; '.join(cboard(b) for b in sess['boards'])}] [{'; '.join(carrival(a) for a in sess['arrivals'])}] {per} {lib.copt(sess.get('model_interrupt'), str)})"


def observed(sess, o):
    n = len(sess['arrivals'])
    ends = [end_code(o['ends'].get('main'))] + [end_code(o['ends'].get(f'conn{i + 1}')) for i in range(n)] + [end_code(o['ends'].get(f'cli{i}')) for i in range(n)]
    down, up = [], []
    for i in range(n):
        t = o['transcripts'].get(f'cli{i}')
        if t is None:
            down.append([]); up.append([])
            continue
        d = lines(t['to_client'])
        if t['closed_by_server']:
            # the marker follows the error line that announced the close
            d = d + [CLOSED]
        down.append(d)
        up.append(lines(t['to_server']))
    log = None
    if o.get('log_text') is not None:
        try:
            log = json.loads(o['log_text'])['logs']
        except Exception:
            log = None
    elif o.get('log_text') is None:
        log = []
    return dict(ends=ends, down=down, up=up, log=log)


def cobserved(ob):
    sl = lambda ls: '[' + '; '.join('[' + '; '.join(lib.cstr(x) for x in l) + ']' for l in ls) + ']'
    log = 'None' if ob['log'] is None else '(Some [' + '; '.join(jc.cj(r) for r in ob['log']) + '])'
    return f"(mkObs {pc.nl(ob['ends'])} {sl(ob['down'])} {sl(ob['up'])} {log})"


IMP_T = 'From BE Require Import Model.Session Model.SessionTie Model.JsonTie Model.Json Model.CaseLib.\nFrom Coq Require Import ZArith.'


def run_sessions(sessions, timeout=3000, procs=8):
    """Controlled sessions are independent: run them in several driver processes."""
    if len(sessions) <= 2:
        return lib.run_impl('session', dict(sessions=sessions), timeout=timeout)
    import concurrent.futures as cf
    n = min(procs, len(sessions))
    parts = [sessions[i::n] for i in range(n)]
    with cf.ThreadPoolExecutor(max_workers=n) as ex:
        outs = list(ex.map(lambda part: lib.run_impl('session', dict(sessions=part), timeout=timeout), parts))
    res = [None] * len(sessions)
    for k, part in enumerate(outs):
        for j, o in enumerate(part):
            res[k + j * n] = o
    return res


def tie(prop, tag, items, shard=2):
    """items: (session dict, scripts, observed dict) -> list of bit codes from Model/SessionTie.tie_session"""
    lits = [f'({csession(s, sc)}, {cobserved(ob)})' for s, sc, ob in items]
    return pc.run_shards(prop, tag, IMP_T, 'session * observed', 'tie_session (fst k) (snd k)', lits, shard)


# ---------------------------------------------------------------- the sequential reference (Spec/SessionSpec.v)
IMP_S = 'From BE Require Import Spec.SessionSpec Model.Json Model.JsonTie Model.CaseLib.\nFrom Coq Require Import ZArith.'


def csaid(sc):
    calls = '[' + '; '.join(f'({lib.cstr(t)}, bn {v})' for t, v in sc['calls']) + ']'
    cards = '[' + '; '.join(f'({lib.cstr(t)}, cn {v})' for t, v in sc['cards']) + ']'
    return f'(mkSaid {calls} {cards})'


def spec_lit(sess, scripts, ob):
    n = len(sess['arrivals'])
    boards = '[' + '; '.join(f"(mkSB {lib.cstr(b['board_id'])} (sn {b['dealer']}) (vn {b['vul']}) (dfn {jc.ll(b['deal'])}) {jc.cdda(b.get('dda'))})" for b in sess['boards']) + ']'
    reqs = '[' + '; '.join(f"(mkReq (sn {a['seat']}) {lib.cstr(a['team'])} {a.get('version', 18)})" for a in sess['arrivals']) + ']'
    per = '[' + '; '.join('[' + '; '.join(csaid(sc) for sc in scripts.get(f'cli{i}', [])) + ']' for i in range(n)) + ']'
    log = 'None' if ob['log'] is None else '(Some [' + '; '.join(jc.cj(r) for r in ob['log']) + '])'
    down = '[' + '; '.join('[' + '; '.join(lib.cstr(x) for x in l) + ']' for l in ob['down']) + ']'
    return f'({boards}, {reqs}, {per}, {log}, {down})'


def spec_check(prop, tag, items, shard=2):
    """items: (session, scripts, observed) -> bit codes of Spec/SessionSpec.session_ok (1 log, 2 lines to seated clients, 4 turned-away handling)"""
    lits = [spec_lit(s, sc, ob) for s, sc, ob in items]
    T = 'list sboard * list request * list (list said) * option (list json) * list (list string)'
    return pc.run_shards(prop, tag, IMP_S, T, "let '(b, r, s, l, d) := k in session_ok b r s l d", lits, shard)


def replica_lit(rep):
    k = rep['contract']
    pl = rep.get('play')
    if pl is None or pl == 'unobserved':
        play = 'None'
    else:
        hist = '[' + '; '.join(f"({t[0]}, {pc.nl(t[1])})" for t in pl['history']) + ']'
        play = f"(Some ({pl['leader']}, {pl['active']}, {pl['trick_num']}, {pl['ns']}, {pl['ew']}, {lib.cbool(pl['done'])}, {hist}, {pc.nl(pl['hand'])}, {lib.copt(pl['dummy'], pc.nl)}))"
    return f"({lib.copt(k[0], str)}, {lib.cbool(k[1])}, {lib.cbool(k[2])}, {k[3]}, {lib.copt(k[4], str)}, {play})"


def replicas_check(prop, tag, items, shard=2):
    """items: (session, scripts, replicas dict from the driver) -> 0 ok / 1 bad"""
    lits = []
    for s, scr, reps in items:
        n = len(s['arrivals'])
        boards = '[' + '; '.join(f"(mkSB {lib.cstr(b['board_id'])} (sn {b['dealer']}) (vn {b['vul']}) (dfn {jc.ll(b['deal'])}) {jc.cdda(b.get('dda'))})" for b in s['boards']) + ']'
        reqs = '[' + '; '.join(f"(mkReq (sn {a['seat']}) {lib.cstr(a['team'])} {a.get('version', 18)})" for a in s['arrivals']) + ']'
        per = '[' + '; '.join('[' + '; '.join(csaid(x) for x in scr.get(f'cli{i}', [])) + ']' for i in range(n)) + ']'
        rl = '[' + '; '.join('[' + '; '.join(replica_lit(x) for x in reps.get(f'cli{i}', [])) + ']' for i in range(n)) + ']'
        lits.append(f'({boards}, {reqs}, {per}, {rl})')
    T = 'list sboard * list request * list (list said) * list (list obs_replica)'
    return pc.run_shards(prop, tag, IMP_S, T, "let '(b, r, s, x) := k in if replicas_ok b r s x then 0 else 1", lits, shard)


def gen_sessions(ctx, salt, nsess, boards_choices, strategies_per, arrivals_fn=None, styles=('competitive', 'short', 'pass', None), must=(), extra=None):
    r = lib.rng(ctx['seed'], salt)
    out = []
    for i in range(nsess):
        nb = r.choice(boards_choices)
        if i % 4 in (0, 1, 2) and max(boards_choices) >= 2:
            nb = max(nb, 2)        # these sessions mix a passed-out board with played ones, in both orders
        arr = arrivals_fn(r) if arrivals_fn else four_arrivals(r, style=styles[i % len(styles)])
        # some boards of a multi-board session are passed out by the whole table (played and passed-out boards in either order)
        po = [b for b in range(1, nb + 1) if r.random() < 0.35] if nb > 1 else []
        if nb > 1 and i % 4 in (0, 1, 2):
            for a in arr:
                if a.get('style') == 'pass':
                    a['style'] = 'competitive'
            if i % 4 == 0:        # a passed-out board after a played one
                k = r.randint(2, nb)
                po = [b for b in po if b != 1 and b != k] + [k]
            elif i % 4 == 2:      # a passed-out board before a played one
                po = [1]
            else:                 # every board played (two or more played boards in one session)
                po = []
        for a in arr:
            a['passout_boards'] = po
        boards = gen_boards(r, nb)
        for j, b in enumerate(boards):        # every vulnerability occurs among the first boards of any three consecutive sessions
            b['vul'] = (i + j) % 4
        if i % 8 == 1 and not arrivals_fn:
            # the two ends of the trick count: each hand is one complete suit; the dealer opens 1NT (the defence cashes thirteen tricks,
            # declarer's side wins none) on the first such board and seven of its own suit (thirteen tricks) on the second
            forced = {}
            for k, kind in list(zip([b for b in range(1, nb + 1) if b not in po], ('nt', 'trump'))):
                suits = [0, 1, 2, 3]
                r.shuffle(suits)
                boards[k - 1]['deal'] = [list(range(13 * x, 13 * x + 13)) for x in suits]
                forced[str(k)] = kind
            for a in arr:
                a['forced'] = forced      # on these boards every seat also plays its lowest playable card: the first ruff is the deuce of trumps
        base = dict(boards=boards, arrivals=arr)
        strats = ['rr'] + list(must) + r.sample([x for x in STRATEGIES[1:] if x not in must], strategies_per - 1 - len(must))
        for st in strats:
            out.append(dict(base, strategy=st, sched_seed=r.randint(0, 10 ** 6), **(extra or {})))
    return out


def run_session_property(ctx, prop, ss, oracle_bits, what, theorem, want_replicas=False, need_finished=True):
    """Common body of C08 / C10 / C20 / C11(b): controlled runs, Spec oracle (bits selected), model tie."""
    outs = run_sessions(ss)
    lib.make(['Model/SessionTie.vo', 'Spec/SessionSpec.vo'])
    viol, ties = [], []
    items = []
    for s, o in zip(ss, outs):
        ref = next((o2 for s2, o2 in zip(ss, outs) if o2['result'] == 'finished' and s2['boards'] is s['boards'] and s2['arrivals'] is s['arrivals']), None)
        scripts = o.get('scripts') if o['result'] == 'finished' else (ref['scripts'] if ref else o.get('scripts') or {})
        items.append((s, scripts, observed(s, o)))
    codes = spec_check(prop, 'oracle', items)
    reps = replicas_check(prop, 'replicas', [(s, sc, o.get('replicas') or {}) for (s, sc, _), o in zip(items, outs)]) if want_replicas else [0] * len(ss)
    for (s, scr, ob), o, code, rc in zip(items, outs, codes, reps):
        bad = code & oracle_bits
        # connections that arrive after the four seats are taken are never accepted: such a client may wait for ever
        accepted = len([k for k in o.get('ends', {}) if k.startswith('conn')])
        stuck = [k for k, v in o.get('ends', {}).items() if v == 'blocked' and not (k.startswith('cli') and int(k[3:]) >= accepted)]
        incomplete = need_finished and (o['result'] not in ('finished', 'deadlock') or bool(stuck) or o['ends'].get('main') != 'returned')
        if bad or rc or incomplete:
            bits = [n for b, n in ((1, 'log records'), (2, 'lines sent to a seated client'), (4, 'turned-away connection not answered with an error and closed')) if bad & b]
            if rc:
                bits.append('a client replica differs from the board as played')
            if incomplete:
                bits.append(f"session {o['result']}")
            viol.append(dict(kind=what, input=dict(boards=s['boards'], arrivals=s['arrivals'], strategy=s['strategy'], sched_seed=s['sched_seed']),
                             observed=dict(differs=bits, result=o['result'], first_lines={k: lines(v['to_client'])[:3] for k, v in list(o.get('transcripts', {}).items())[:2]}),
                             expected='the sequential reference of Spec/SessionSpec.v', how_found=f"controlled session, strategy {s['strategy']}",
                             theorem_or_tie=theorem, signature=dict(kind=prop.lower(), differs=','.join(bits))))
    viol.sort(key=lambda v: len(str(v['input'])))
    try:
        res = tie(prop, 'tie', items)
        bad = [(it[0]['strategy'], c) for it, c in zip(items, res) if c]
        if bad:
            ties.append(dict(what='Model/Session.v (canonical schedule) differs from the real run: bits 1 model not final, 2 thread ends, 4 lines to clients, 8 lines to server, 16 log',
                             count=len(bad), which=bad[:8]))
    except lib.CoqEvalError as e:
        ties.append(dict(what='tie case file does not evaluate', detail=str(e)[-800:]))
    strat = {}
    for s in ss:
        strat[s['strategy'].split(':')[0]] = strat.get(s['strategy'].split(':')[0], 0) + 1
    return dict(evaluations=len(ss), distinct_nontrivial=len({(json.dumps(s['boards'])[:2000], json.dumps(s['arrivals']), s['strategy'], s['sched_seed']) for s in ss}),
                traces_validated_against_impl=len(items),
                samples=[dict(strategy=ss[0]['strategy'], steps=outs[0].get('steps'), arrivals=[(a['seat'], a['team'], a.get('version', 18)) for a in ss[0]['arrivals']],
                              first_lines_to_client0=lines(outs[0]['transcripts']['cli0']['to_client'])[:6] if outs[0].get('transcripts') else None)],
                distribution=dict(strategies=strat, boards=[len(s['boards']) for s in ss][:12], arrivals=[len(s['arrivals']) for s in ss][:12],
                                  steps=[o.get('steps') for o in outs][:12], results={r: sum(1 for o in outs if o['result'] == r) for r in {o['result'] for o in outs}}),
                violations=viol[:6], tie_mismatches=ties)
