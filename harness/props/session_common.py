"""Shared by the session properties C08, C09, C10, C11(b), C13, C20: session generation, controlled runs, Coq literals."""
import json
import lib
from props import play_common as pc
from props import json_common as jc

FORMAL = ['North', 'East', 'South', 'West']
CLOSED = '<connection closed by server>'
END = {'returned': 0, 'raised': 1, 'blocked': 2}
STRATEGIES = ['rr', 'random', 'first', 'low:main', 'high:main', 'pct:1', 'pct:2', 'pct:3',
              'low:conn1', 'low:conn2', 'low:conn3', 'low:conn4', 'high:conn1', 'high:conn3',
              'low:cli0', 'low:cli2', 'high:cli1', 'high:cli3']


def gen_boards(r, n):
    return [dict(deal=(pc.deal_of(r) if r.random() < 0.8 else pc.skewed_deal(r)), dealer=r.randint(0, 3), vul=r.randint(0, 3),
                 board_id=r.choice([f'b{i}', str(i + 1), f'Board {i + 1} (a)']), dda=jc.gen_dda(r) if r.random() < 0.3 else None) for i in range(n)]


def four_arrivals(r, style=None, variant=True, teams=('NS team', 'E/W')):
    seats = list(range(4))
    r.shuffle(seats)
    return [dict(seat=s, team=teams[s % 2], version=18, policy_seed=r.randint(0, 10 ** 6), style=style or r.choice(['competitive', 'competitive', 'short', 'pass']),
                 variant=dict(case=r.random() < 0.6, alert=r.random() < 0.5, suit_first=r.random() < 0.5) if variant else {}) for s in seats]


def end_code(s):
    return END.get((s or 'blocked').split(' ')[0], 2)


def lines(text):
    parts = text.split('\r\n')
    return parts[:-1] if parts and parts[-1] == '' else parts


# ---------------------------------------------------------------- Coq literals
def cboard(b):
    return f"(mkBoard {lib.cstr(b['board_id'])} (sn {b['dealer']}) (vn {b['vul']}) (dfn {jc.ll(b['deal'])}) {jc.cdda(b.get('dda'))})"


def carrival(a):
    return f"(mkArr (sn {a['seat']}) {lib.cstr(a['team'])} {a.get('version', 18)})"


def cscript(sc):
    calls = '[' + '; '.join(f'({lib.cstr(t)}, bn {v})' for t, v in sc['calls']) + ']'
    cards = '[' + '; '.join(f'({lib.cstr(t)}, cn {v})' for t, v in sc['cards']) + ']'
    return f'(mkScript {calls} {cards})'


def csession(sess, scripts):
    n = len(sess['arrivals'])
    per = '[' + '; '.join('[' + '; '.join(cscript(sc) for sc in scripts.get(f'cli{i}', [])) + ']' for i in range(n)) + ']'
    return f"(mkSession [{'; '.join(cboard(b) for b in sess['boards'])}] [{'; '.join(carrival(a) for a in sess['arrivals'])}] {per} {lib.copt(sess.get('model_interrupt'), str)})"


def observed(sess, o):
    n = len(sess['arrivals'])
    ends = [end_code(o['ends'].get('main'))] + [end_code(o['ends'].get(f'conn{i + 1}')) for i in range(n)] + [end_code(o['ends'].get(f'cli{i}')) for i in range(n)]
    down, up = [], []
    for i in range(n):
        t = o['transcripts'].get(f'cli{i}')
        if t is None:
            down.append([]); up.append([])
            continue
        d = lines(t['to_client'])
        if t['closed_by_server']:
            # the marker follows the error line that announced the close
            d = d + [CLOSED]
        down.append(d)
        up.append(lines(t['to_server']))
    log = None
    if o.get('log_text') is not None:
        try:
            log = json.loads(o['log_text'])['logs']
        except Exception:
            log = None
    elif o.get('log_text') is None:
        log = []
    return dict(ends=ends, down=down, up=up, log=log)


def cobserved(ob):
    sl = lambda ls: '[' + '; '.join('[' + '; '.join(lib.cstr(x) for x in l) + ']' for l in ls) + ']'
    log = 'None' if ob['log'] is None else '(Some [' + '; '.join(jc.cj(r) for r in ob['log']) + '])'
    return f"(mkObs {pc.nl(ob['ends'])} {sl(ob['down'])} {sl(ob['up'])} {log})"


IMP_T = 'From BE Require Import Model.Session Model.SessionTie Model.JsonTie Model.Json Model.CaseLib.\nFrom Coq Require Import ZArith.'


def run_sessions(sessions, timeout=1800):
    return lib.run_impl('session', dict(sessions=sessions), timeout=timeout)


def tie(prop, tag, items, shard=2):
    """items: (session dict, scripts, observed dict) -> list of bit codes from Model/SessionTie.tie_session"""
    lits = [f'({csession(s, sc)}, {cobserved(ob)})' for s, sc, ob in items]
    return pc.run_shards(prop, tag, IMP_T, 'session * observed', 'tie_session (fst k) (snd k)', lits, shard)
