"""C10 - each seat is told exactly what the protocol entitles it to, and nothing else (every schedule)."""
from props import session_common as sc

TARGETS = ['Props/C10.vo']
ASSUMPTIONS = ['as C09; the complete byte stream the server sent on each connection is compared']


def run(ctx):
    th = ctx['tier'] == 'thorough'
    ss = sc.gen_sessions(ctx, 'C10', 20 if th else 4, [1, 2, 3, 5] if th else [1, 2], 8 if th else 4)
    r = sc.run_session_property(ctx, 'C10', ss, 2, 'a seat was sent something other than what it is entitled to', 'C10_transcripts')
    r['rule'] = ('as C08; the complete list of lines sent on each of the four connections is compared with view_spec of the sequential reference '
                 '(own cards only, dummy after the opening lead to the three other seats, every call and card once and in order to everyone but its sender, '
                 'lead prompts to the leader / to declarer for dummy, configured board header)')
    return r


def replay(ctx, rp):
    i = rp['input']
    s = dict(boards=i['boards'], arrivals=i['arrivals'], strategy=i['strategy'], sched_seed=i['sched_seed'])
    o = sc.run_sessions([s])[0]
    return bool(sc.spec_check('C10', 'replay', [(s, o.get('scripts') or {}, sc.observed(s, o))])[0] & 2)
