"""C16 - IMP scale.  Theorems for every integer; tie = differential run evaluated in Coq."""
import ast, os
import lib
import gen

TARGETS = ['Props/C16.vo']
ASSUMPTIONS = ['drivers/imps.py prints what point_difference_to_imps / score_to_imp returned']
OFFICIAL = [20, 50, 90, 130, 170, 220, 270, 320, 370, 430, 500, 600, 750, 900, 1100, 1300, 1500, 1750,
            2000, 2250, 2500, 3000, 3500, 4000]


def source_thresholds():
    try:
        tree = gen.parse('bridge_env/score.py')
        for n in tree.body:
            if isinstance(n, ast.Assign) and getattr(n.targets[0], 'id', '') == '_IMPS_LIST':
                return [gen.const_int(e, 'imps') for e in n.value.elts]
    except Exception:
        pass
    return []


def inputs(ctx):
    r = lib.rng(ctx['seed'], 'C16')
    thorough = ctx['tier'] == 'thorough'
    span = 12000 if thorough else 5000
    one = list(range(-span, span + 1))
    ths = sorted(set(OFFICIAL + source_thresholds()))
    for t in ths:
        for dlt in (-11, -10, -9, -1, 0, 1, 9, 10, 11):
            one += [t + dlt, -(t + dlt)]
    for _ in range(20000 if thorough else 2000):
        mag = r.choice([10 ** r.randint(1, 30), 2 ** r.randint(1, 100), r.randint(0, 10 ** r.randint(1, 30))])
        one.append(r.choice([-1, 1]) * (mag + r.randint(-5, 5)))
    base = sorted(set([0, 5, 19, 20, -20, 21, 49, 50, 400, 420, 430, 620, -620, 1430, -1440, 2220, 7600, -7600, 3999, 4000, 4001, 10 ** 12, -10 ** 12]
                      + [r.randint(-8000, 8000) for _ in range(120 if thorough else 37)]))
    two = [(a, b) for a in base for b in base]
    return one, two


def chunks(l, n):
    return [l[i:i + n] for i in range(0, len(l), n)]


def oz(v):
    return 'None' if v is None else f'(Some {lib.cZ(v)})'


def run(ctx):
    one, two = inputs(ctx)
    obs = lib.run_impl('imps', dict(one=[str(d) for d in one], two=[[str(a), str(b)] for a, b in two]))
    lib.make(['Spec/Duplicate.vo', 'Model/CaseLib.vo', 'Model/Score.vo'])
    viol, ties = [], []
    flat = [('one', d, o) for d, o in zip(one, obs['one'])] + [('two', ab, o) for ab, o in zip(two, obs['two'])]
    # encode: every case as a difference d (one) or a pair (two)
    for k, part in enumerate(chunks(flat, 4000)):
        ins = lib.clist(lib.cZ(c[1]) if c[0] == 'one' else lib.cZ(c[1][0] + c[1][1]) for c in part)
        ob = lib.clist(oz(c[2]) for c in part)
        body = f'Definition ins : list Z := {ins}.\nDefinition obs : list (option Z) := {ob}.\n'
        bad = lib.coq_cases('C16', f'oracle_{k}', 'From BE Require Import Model.CaseLib Spec.Duplicate.\nOpen Scope Z_scope.', body,
                            ['mismatches (opt_eqb Z.eqb) (map (fun d => Some (official_imps d)) ins) obs'])[0]
        for i in bad[:10]:
            c = part[i]
            viol.append(dict(kind='wrong imps', input=dict(api='point_difference_to_imps' if c[0] == 'one' else 'score_to_imp',
                                                           arg=str(c[1]) if c[0] == 'one' else [str(c[1][0]), str(c[1][1])]),
                             observed=c[2], expected='official scale (Spec/Duplicate.v official_imps)',
                             how_found='differential run against the official IMP scale evaluated in Coq',
                             theorem_or_tie='C16_official', signature=dict(kind='wrong imps')))
        try:
            # score_to_imp is modelled as point_difference_to_imps (a + b): the pair cases go through the sum
            tb = lib.coq_cases('C16', f'tie_{k}', 'From BE Require Import Model.CaseLib Model.Score.\nOpen Scope Z_scope.', body,
                               ['mismatches (opt_eqb Z.eqb) (map (fun d => Some (point_difference_to_imps d)) ins) obs'])[0]
            if tb:
                ties.append(dict(what='Model/Score.v point_difference_to_imps differs from the implementation',
                                 first=[str(part[i][1]) for i in tb[:5]]))
        except lib.CoqEvalError as e:
            ties.append(dict(what='Model/Score.v does not evaluate', detail=str(e)[-500:]))
    viol.sort(key=lambda v: len(str(v['input']['arg'])))
    nontriv = len({str(c[1]) for c in flat if (abs(c[1]) if c[0] == 'one' else abs(c[1][0] + c[1][1])) >= 20})
    return dict(evaluations=len(flat), distinct_nontrivial=nontriv,
                rule='every integer of a window around 0, every threshold of the official and of the source list +-0,1,9,10,11 in both signs, '
                     'random magnitudes up to 1e30 / 2^100, all ordered pairs of a value set for score_to_imp; '
                     'non-trivial = |difference| >= 20 (a non-zero IMP result); distinct by value',
                samples=[dict(arg=str(one[0]), observed=obs['one'][0]), dict(arg=str(one[-1]), observed=obs['one'][-1]),
                         dict(pair=[str(two[5][0]), str(two[5][1])], observed=obs['two'][5])],
                distribution=dict(window=[one[0], one[-1] if False else None], single=len(one), pairs=len(two)),
                violations=viol, tie_mismatches=ties)


def replay(ctx, rp):
    i = rp['input']
    if i['api'] == 'point_difference_to_imps':
        o = lib.run_impl('imps', dict(one=[i['arg']], two=[]))['one'][0]
        d = int(i['arg'])
    else:
        o = lib.run_impl('imps', dict(one=[], two=[i['arg']]))['two'][0]
        d = int(i['arg'][0]) + int(i['arg'][1])
    sgn = (d > 0) - (d < 0)
    return o != sgn * sum(1 for t in OFFICIAL if t <= abs(d))
