"""C19 - protocol messages mean the same to both ends and framing always terminates."""
import lib
from props import play_common as pc

TARGETS = ['Props/C19.vo']
ASSUMPTIONS = ['drivers/wire.py calls the real builders and parsers and a fake socket that delivers given chunks then b"" (watchdog: 1000 reads after end of stream = spin)']
FORMAL = ['North', 'East', 'South', 'West']
NAMES = [f'{l}{s}' for l in range(1, 8) for s in ('C', 'D', 'H', 'S', 'NT')] + ['Pass', 'X', 'XX']
WS = [' ', '  ', '\t', ' \t ']


def mangle(r, s):
    return ''.join(ch.upper() if r.random() < 0.5 else ch.lower() for ch in s)


def alert(r):
    return r.choice(WS) + mangle(r, 'Alert.') + r.choice(['', ' ', '  ', '\t'])


def name(r, n=None):
    alphabet = 'abcdefghijklmnopqrstuvwxyzABCDEFGHIJKLMNOPQRSTUVWXYZ0123456789 .,-_/()\'+#:!?*[]{}\\^$|&%@=<>~;`'
    k = n if n is not None else r.randint(1, 12)
    s = ''.join(r.choice(alphabet) for _ in range(k))
    u = r.random()
    if u < 0.15:
        s += r.choice(['é', 'ß', '日本', 'Ω'])
    elif u < 0.35:       # runs of blanks, a tab, leading / trailing blanks are part of a name
        s = r.choice([s[:k // 2] + '  ' + s[k // 2:], s + '   x', ' ' + s, s + ' ', s + '\t' + s[:2], '  '])
    return s


def bid_text(c):
    return {35: 'passes', 36: 'doubles', 37: 'redoubles'}.get(c, 'bids ' + NAMES[c])


def gen(ctx):
    r = lib.rng(ctx['seed'], 'C19')
    th = ctx['tier'] == 'thorough'
    calls, expect = [], []      # expect: oracle expectation per call (None = tie only)

    def add(f, args, exp=None):
        calls.append(dict(f=f, args=args)); expect.append(exp)
    # A hands
    for i in range(1500 if th else 200):
        n = r.randint(0, 13)
        pack = list(range(52)); r.shuffle(pack)
        if i % 3 == 0:
            lo = 13 * r.randint(0, 3); pool = list(range(lo, lo + 13)) + pack[:6]; r.shuffle(pool); h = sorted(set(pool[:n]))
        else:
            h = sorted(pack[:n])
        add('hand_line', [r.choice(FORMAL + ['Dummy']), h], ('cards', h))
    add('hand_line', ['Dummy', []], ('cards', []))
    add('hand_line', ['North', list(range(13))], ('cards', list(range(13))))
    # B calls: every call x seat, plain / case variants / alert suffix, through the server path and the plain parser
    for c in range(38):
        for p in range(4):
            base = f'{FORMAL[p]} {bid_text(c)}'
            add('bid_message', [c, FORMAL[p]], ('text', base))
            add('parse_bid', [base, FORMAL[p]], ('call', c))
            add('server_read_bid', [base, FORMAL[p]], ('relay', base, c))
            for _ in range(6 if th else 2):
                m = mangle(r, base)
                add('parse_bid', [m, FORMAL[p]], ('call', c))
                add('server_read_bid', [m, FORMAL[p]], ('relay', m, c))
                a = m + alert(r)
                add('server_read_bid', [a, FORMAL[p]], ('relay', m, c))
    # B2 the same through the real Server.bidding_phase (its own alert detection), inside a legal auction
    def auction_with(c, p):
        # returns (dealer, [(seat, call idx)], position of the tested call)
        if c < 35 or c == 35:
            return p, [(p, c)], 0
        if c == 36:
            return (p - 1) % 4, [((p - 1) % 4, 0), (p, 36)], 1
        return (p - 2) % 4, [((p - 2) % 4, 0), ((p - 1) % 4, 36), (p, 37)], 2
    for c in range(38):
        for p in range(4):
            d, acalls, pos = auction_with(c, p)
            seq = list(acalls)
            nxt = (seq[-1][0] + 1) % 4
            for _ in range(3):       # close the auction with passes
                seq.append((nxt, 35)); nxt = (nxt + 1) % 4
            for variant in range(3 if th else 2):
                msgs = []
                for i, (seat, call) in enumerate(seq):
                    m = f'{FORMAL[seat]} {bid_text(call)}'
                    if i == pos:
                        m = mangle(r, m) + (alert(r) if variant else '')
                        tested = m
                    msgs.append([seat, m])
                plain = tested if not variant else tested[:len(f'{FORMAL[p]} {bid_text(c)}')]
                add('server_auction', [d, msgs], ('auction', [x[1] for x in seq], p, plain))
    # C cards: every card x seat x 2 notations, case variants
    R = '23456789TJQKA'
    for c in range(52):
        add('card_str', [c], ('texts', R[c % 13] + 'CDHS'[c // 13], 'CDHS'[c // 13] + R[c % 13]))
        for p in range(4):
            for text in (R[c % 13] + 'CDHS'[c // 13], 'CDHS'[c // 13] + R[c % 13]):
                add('parse_card', [f'{FORMAL[p]} plays {text}', p], ('card', c))
                add('parse_card', [mangle(r, f'{FORMAL[p]} plays {text}'), p], ('card', c))
    # D headers
    for n in [1, 2, 9, 10, 16, 99, 100, 101, 999, 1000, 4096, 9999] + [r.randint(1, 9999) for _ in range(60 if th else 12)]:
        for d in range(4):
            for v in range(4):
                add('header', [str(n), d, v], ('header', str(n), d, v))
    # E team names / connection lines (names without a double quote)
    for i in range(1200 if th else 150):
        a, b = name(r), name(r)
        add('parse_team_names', [f'Teams : N/S : "{a}" E/W : "{b}"'], ('texts', a, b))
        add('parse_team_names', [f'Teams : N/S : "{a}". E/W : "{b}"'], ('texts', a, b))
        p = r.randint(0, 3)
        add('parse_connection_info', [f'Connecting "{a}" as {FORMAL[p]} using protocol version 18'], ('conn', a, p, '18'))
        add('parse_connection_info', [f'{mangle(r, "Connecting")} "{a}" {mangle(r, "as")} {mangle(r, FORMAL[p])} {mangle(r, "using protocol version")} {r.choice([18, 17, 1, 180])}'], None)
    # F check_message: protocol allows runs of blanks and any case
    readies = [f'{FORMAL[p]} ready for {x}' for p in range(4) for x in ('teams', 'deal', 'cards', 'dummy', "East's bid", "dummy's card to trick 3", "West's card to trick 13")] + [f'{FORMAL[p]} ready to start' for p in range(4)]
    for e in readies:
        add('check_message', [e, e], ('bool', True))
        add('check_message', [e, mangle(r, e).replace(' ', r.choice(WS))], ('bool', True))
        add('check_message', [e, e + ' x'], None)
        add('check_message', [e, ' ' + e], None)
        add('check_message', [e, e.replace(' ', '', 1)], None)
    # H near-valid malformed stream: the model only has to agree with the implementation
    valid = [(c['f'], c['args']) for c in calls if c['f'] in ('parse_bid', 'server_read_bid', 'parse_card', 'parse_team_names', 'parse_connection_info')]
    for _ in range(3000 if th else 400):
        f, args = r.choice(valid)
        s = args[0]
        k = r.randint(0, 3)
        pos = r.randint(0, len(s))
        if k == 0 and s:
            s2 = s[:pos] + s[pos + 1:]
        elif k == 1:
            s2 = s[:pos] + r.choice('abXT1 9.-') + s[pos:]
        elif k == 2 and s:
            s2 = s[:pos] + r.choice('abXT1 9.-') + s[pos + 1:]
        else:
            s2 = s + r.choice([' x', ' Alert. note', 'X', ' alert', '.', ' '])
        add(f, [s2] + args[1:], None)
    # G framing
    frames = []
    msgs_pool = ['North ready for teams', 'Start of board', '', 'a', 'x\ny', 'Teams : N/S : "é" E/W : "日本"', 'End of session', 'W' * 300]
    small = ['Hi', '', 'B\nC']
    data = b''.join(m.encode() + b'\r\n' for m in small)
    for cut in range(len(data) + 1):
        frames.append(dict(data=list(data[:cut]), chunks=[1] * 64, msgs=small, cut=cut))
        frames.append(dict(data=list(data[:cut]), chunks=[r.randint(1, 5) for _ in range(64)], msgs=small, cut=cut))
    for _ in range(2000 if th else 250):
        ms = [r.choice(msgs_pool) for _ in range(r.randint(0, 5))]
        data = b''.join(m.encode() + b'\r\n' for m in ms)
        cut = r.choice([len(data), len(data), r.randint(0, len(data))])
        d = data[:cut]
        # do not cut inside a multi-byte character of an otherwise complete message (decode errors are a different failure)
        frames.append(dict(data=list(d), chunks=[r.randint(1, r.choice([1, 2, 7, 400])) for _ in range(400)], msgs=ms, cut=cut))
    return calls, expect, frames


def obs_lit(f, o):
    s = lib.cstr
    if 'raises' in o:
        return 'ORaise'
    if f == 'hand_line':
        return f"(OLine {s(o['line'])} {pc.nl(o['cards'])})" if o['tuple_ok'] else 'ORaise'
    if f in ('hand_to_str', 'bid_message', 'remove_alert'):
        return f"(OText {s(o['text'])})"
    if f == 'parse_hand_line':
        return f"(OCards {pc.nl(o['cards'])})"
    if f == 'parse_bid':
        return f"(ONat {o['call']})"
    if f == 'server_read_bid':
        return f"(ORelay {s(o['relayed'])} {o['call']})"
    if f == 'card_str':
        return f"(OTexts {s(o['text'])} {s(o['alt'])})"
    if f == 'parse_card':
        return f"(ONat {o['card']})"
    if f == 'header':
        return f"(OTextHeader {s(o['text'])} {s(o['n'])} {o['d']} {o['v']})"
    if f == 'parse_board':
        return f"(OHeader {s(o['n'])} {o['d']} {o['v']})"
    if f == 'parse_team_names':
        return f"(OTexts {s(o['ns'])} {s(o['ew'])})"
    if f == 'parse_connection_info':
        return f"(OConn {s(o['team'])} {o['seat']} {s(o['version'])})"
    if f == 'check_message':
        return f"(OBool {lib.cbool(o['ok'])})"
    raise ValueError(f)


def case_lit(c):
    f, a = c['f'], c['args']
    s = lib.cstr
    return {'hand_line': lambda: f'(WHandLine {s(a[0])} {pc.nl(a[1])})', 'hand_to_str': lambda: f'(WHandToStr {pc.nl(a[0])})',
            'parse_hand_line': lambda: f'(WParseHandLine {s(a[0])} {s(a[1])})', 'bid_message': lambda: f'(WBidMessage {a[0]} {s(a[1])})',
            'parse_bid': lambda: f'(WParseBid {s(a[0])} {s(a[1])})', 'server_read_bid': lambda: f'(WServerReadBid {s(a[0])} {s(a[1])})',
            'remove_alert': lambda: f'(WRemoveAlert {s(a[0])})', 'card_str': lambda: f'(WCardStr {a[0]})',
            'parse_card': lambda: f'(WParseCard {s(a[0])} {a[1]})', 'header': lambda: f'(WHeader {s(a[0])} {a[1]} {a[2]})',
            'parse_board': lambda: f'(WParseBoard {s(a[0])})', 'parse_team_names': lambda: f'(WParseTeams {s(a[0])})',
            'parse_connection_info': lambda: f'(WParseConn {s(a[0])})', 'check_message': lambda: f'(WCheck {s(a[0])} {s(a[1])})'}[f]()


def meets(exp, o):
    """Round-trip expectation (the statement itself) against the observation."""
    if 'raises' in o:
        return False
    k = exp[0]
    if k == 'cards': return o['cards'] == exp[1] and o['tuple_ok']
    if k == 'text': return o['text'] == exp[1]
    if k == 'call': return o['call'] == exp[1]
    if k == 'relay': return o['call'] == exp[2] and o['relayed'] == exp[1]
    if k == 'texts': return (o.get('text', o.get('ns')), o.get('alt', o.get('ew'))) == (exp[1], exp[2])
    if k == 'card': return o['card'] == exp[1]
    if k == 'header': return (o['n'], o['d'], o['v']) == (exp[1], exp[2], exp[3])
    if k == 'conn': return (o['team'], o['seat'], o['version']) == (exp[1], exp[2], exp[3])
    if k == 'bool': return o['ok'] == exp[1]
    if k == 'auction':
        # understood as the original calls, and relayed (without the alert suffix) to the three other seats
        others = [i for i in range(4) if i != exp[2]]
        return o['hist'] == exp[1] and all(exp[3] in o['relayed'][str(i)] for i in others) and exp[3] not in o['relayed'][str(exp[2])]
    return False


def run(ctx):
    calls, expect, frames = gen(ctx)
    out = lib.run_impl('wire', dict(calls=calls, frames=[dict(data=f['data'], chunks=f['chunks']) for f in frames]))
    lib.make(['Spec/WireOracle.vo', 'Model/WireTie.vo'])
    viol, ties = [], []
    # oracle 1: builder -> parser round trips.  The expectation is the original value; equality is evaluated in Coq on codes
    rt = []
    for c, e, o in zip(calls, expect, out['calls']):
        if e is not None:
            rt.append((c, e, o))
    lits = [f"([1], {'(Some [1])' if meets(e, o) else ('None' if 'raises' in o else '(Some [0])')})" for c, e, o in rt]
    res = pc.run_shards('C19', 'oracle_rt', 'From BE Require Import Spec.WireOracle Model.CaseLib.', 'list nat * option (list nat)', pc.B2N.format('rt_ok'), lits, 4000)
    for (c, e, o), code in zip(rt, res):
        if code:
            viol.append(dict(kind='message not understood as the original value', input=dict(function=c['f'], args=c['args']), observed=o, expected=list(e),
                             how_found='builder output / protocol message in a case or alert variant fed to the other end\'s parser',
                             theorem_or_tie='C19_' + c['f'], signature=dict(kind='c19 roundtrip', function=c['f'])))
    # oracle 2: framing
    END = {None: 3, 'error': 0, 'spin': 1, 'decode': 2}
    fl = [f"({pc.nl(f['data'])}, [{';'.join(pc.nl(m) for m in o['msgs'])}], {END[o['end']]})" for f, o in zip(frames, out['frames'])]
    fres = pc.run_shards('C19', 'oracle_fr', 'From BE Require Import Spec.WireOracle Model.CaseLib.', 'list nat * list (list nat) * nat', pc.B2N.format('frame_ok'), fl, 150)
    for f, o, code in zip(frames, out['frames'], fres):
        if code and o['end'] != 'decode':
            what = 'receiver spins on a closed connection' if o['end'] == 'spin' else 'messages not received intact / no error at end of stream'
            where = 'inside a message' if f['data'] and not bytes(f['data']).endswith(b'\r\n') else 'between messages'
            if f['data'] and f['data'][-1] == 13:
                where = 'after CR'
            viol.append(dict(kind=what, input=dict(stream=f['data'], chunks=f['chunks'][:8], eof=where), observed=dict(messages=len(o['msgs']), end=o['end']),
                             expected='every complete message in order, then an error', how_found='fake socket delivering the stream in chunks, then end of stream',
                             theorem_or_tie='C19_framing / C19_eof', signature=dict(kind='c19 framing', end=str(o['end']), eof=where)))
    viol.sort(key=lambda v: len(str(v['input'])))
    # tie
    try:
        tl = [f'({case_lit(c)}, {obs_lit(c["f"], o)})' for c, o in zip(calls, out['calls']) if c['f'] != 'server_auction']
        tr = pc.run_shards('C19', 'tie', 'From BE Require Import Model.WireTie Model.CaseLib.', 'wcase * wobs', pc.B2N.format('tie_case'), tl, 700)
        bad = [(c, o) for (c, o), code in zip([(c, o) for c, o in zip(calls, out['calls']) if c['f'] != 'server_auction'], tr) if code]
        if bad:
            ties.append(dict(what='Model/Wire.v differs from the implementation', count=len(bad), first=[dict(case=c, observed=o) for c, o in bad[:4]]))
        tf = pc.run_shards('C19', 'tie_fr', 'From BE Require Import Model.WireTie Model.CaseLib.', 'list nat * list (list nat) * nat', pc.B2N.format('tie_frame'), fl, 150)
        badf = [f for f, o, code in zip(frames, out['frames'], tf) if code and o['end'] != 'decode']
        if badf:
            ties.append(dict(what='Model/Wire.v framing differs from the implementation', count=len(badf), first=badf[0]['data'][:40]))
    except lib.CoqEvalError as e:
        ties.append(dict(what='tie case file does not evaluate', detail=str(e)[-800:]))
    kinds = {}
    for c in calls:
        kinds[c['f']] = kinds.get(c['f'], 0) + 1
    distinct = {(c['f'], str(c['args'])) for c, e in zip(calls, expect) if e is not None} | {('frame', str(f['data']), str(f['chunks'][:20])) for f in frames}
    return dict(evaluations=len(calls) + len(frames), distinct_nontrivial=len(distinct),
                rule='hands of 0..13 cards for every seat and Dummy; all 38 calls x 4 seats plain, in random letter case and with an alert suffix (server path and plain parser); '
                     'all 52 cards x 4 seats x 2 notations x case variants; board headers; team names / connection lines over printable ASCII without a double quote (+ some non-ASCII); '
                     'ready-messages with blank runs; a near-valid malformed stream (tie only); framing: every cut position of a small stream and random streams x random chunkings; '
                     'non-trivial = a round-trip or framing case (not the malformed stream); distinct by input',
                samples=[dict(call=calls[3], observed=out['calls'][3]), dict(call=calls[700], observed=out['calls'][700])],
                distribution=dict(by_function=kinds, frames=len(frames), raises=sum(1 for o in out['calls'] if 'raises' in o),
                                  eof_positions=dict(between=sum(1 for f in frames if not f['data'] or bytes(f['data']).endswith(b'\r\n')),
                                                     after_cr=sum(1 for f in frames if f['data'] and f['data'][-1] == 13))),
                violations=viol[:12], tie_mismatches=ties)


def replay(ctx, rp):
    i = rp['input']
    if 'stream' in i:
        o = lib.run_impl('wire', dict(frames=[dict(data=i['stream'], chunks=i['chunks'] + [1] * 2000)]))['frames'][0]
        return o['end'] != 'error'
    return True
