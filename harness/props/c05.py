"""C05 - only the seat on turn can play, only a card it holds; cards are conserved."""
import lib
from props import play_common as pc

TARGETS = ['Props/C05.vo']
ASSUMPTIONS = ['drivers/play.py records accept/raise, a deepcopy-free snapshot comparison of hands/used_cards/public state around each attempt, and the final hands / used_cards / history']
T5 = 'nat * nat * list (list nat) * list (nat * nat) * list (bool * bool * proj) * (list (list nat) * list nat * list (nat * list nat))'
T11 = 'c11case'


def run(ctx):
    inp = pc.gen(ctx, {'hands', 'inject', 'observers'})
    out = lib.run_impl('play', inp)
    lib.make(['Spec/PlayOracle.vo', 'Model/PlayTie.vo'])
    viol, ties = [], []
    l5 = [pc.lit_hands(k, o) for k, o in zip(inp['hands'], out['hands'])]
    r5 = pc.run_shards('C05', 'oracle', pc.IMP_O, T5, 'c05_case k', l5, 10)
    for k, o, code in zip(inp['hands'], out['hands'], r5):
        if code:
            n = len(o['ops']) if code >= 998 else code
            ops = o['ops'][:n]
            viol.append(dict(kind='play accepted/refused wrongly or cards not conserved',
                             input=dict(bid=k['bid'], declarer=k['decl'], deal=k['deal'], ops=ops, last_attempt=None if not ops else dict(card=pc.CARD(ops[-1][0]), seat='NESW'[ops[-1][1]])),
                             observed=(o['obs'][n - 1] if code < 998 else dict(final_hands=o['final'][0], used=o['final'][1])),
                             expected='accepted iff seat on turn and card in its remaining hand; refusal changes nothing; hands + played partition the deal (Spec/PlayOracle.v c05_case)',
                             how_found='board with injected wrong-seat / foreign-card / already-played attempts; cut at the first wrong observation',
                             theorem_or_tie='C05_accept_iff / C05_partition', signature=dict(kind='c05')))
    # the single-seat observers (own hand + dummy) on the same boards: they must accept exactly the accepted plays and conserve their cards
    l11 = [pc.lit_obs(k, o) for k, o in zip(inp['hands'], out['hands'])]
    r11 = pc.run_shards('C05', 'oracle_obs', pc.IMP_O, T11, 'c11_case k', l11, 10)
    for k, o, code in zip(inp['hands'], out['hands'], r11):
        if code:
            viol.append(dict(kind='observer hand bookkeeping wrong', input=dict(bid=k['bid'], declarer=k['decl'], deal=k['deal'], observer='NESW'[(code // 2000) - 1], attempts=o['observers'][(code // 2000) - 1][0][:(code % 2000) if code % 2000 < 998 else None]),
                             observed=(o['observers'][(code // 2000) - 1][1][(code % 2000) - 1] if 0 < code % 2000 < 998 else o['observers'][(code // 2000) - 1][2]), expected='own hand and dummy hand = deal minus the cards played from them',
                             how_found='ObservedPlayingPhase fed the accepted plays', theorem_or_tie='C05 (observer) / C11_observer_agrees', signature=dict(kind='c05 observer')))
    viol.sort(key=lambda v: len(str(v['input'])))
    try:
        t5 = pc.run_shards('C05', 'tie', pc.IMP_T, T5, 't05_case k', l5, 10)
        t11 = pc.run_shards('C05', 'tie_obs', pc.IMP_T, T11, 't11_case k', l11, 10)
        if any(t5) or any(t11):
            ties.append(dict(what='Model/Play.v and the with-hands / observer classes disagree', hands=sum(1 for c in t5 if c), observers=sum(1 for c in t11 if c)))
    except lib.CoqEvalError as e:
        ties.append(dict(what='tie case file does not evaluate', detail=str(e)[-600:]))
    attempts = sum(len(o['ops']) for o in out['hands'])
    refused = sum(1 for o in out['hands'] for a in o['obs'] if not a[0])
    distinct = {(i, tuple(op)) for i, o in enumerate(out['hands']) for op, a in zip(o['ops'], o['obs']) if not a[0]}
    return dict(evaluations=attempts + 4 * sum(len(o['acc_ops']) for o in out['hands']), distinct_nontrivial=len(distinct),
                rule='boards played through PlayingPhaseWithHands with wrong-seat, foreign-card, already-played and arbitrary attempts injected before every position '
                     '(rates 0 / 0.15 / 0.4), four ObservedPlayingPhase replicas fed the accepted plays; non-trivial = a refused attempt (state snapshot compared); distinct by (board, card, seat)',
                samples=[dict(bid=inp['hands'][1]['bid'], declarer=inp['hands'][1]['decl'], first_ops=out['hands'][1]['ops'][:6], first_obs=out['hands'][1]['obs'][:6])],
                distribution=dict(boards=len(l5), attempts=attempts, refused=refused, accepted=attempts - refused,
                                  full_boards=sum(1 for o in out['hands'] if len(o['final'][1]) == 52)),
                violations=viol[:10], tie_mismatches=ties)


def replay(ctx, rp):
    return True
