"""Shared by C04, C05, C06, C11: case generation, implementation run, Coq case files."""
import concurrent.futures as cf
import lib


def nl(l):
    return '[' + ';'.join(str(x) for x in l) + ']'


def pj(p):
    return '(' + ', '.join(str(x) for x in p[:6]) + ', ' + lib.cbool(p[6]) + ')'


def hl(h):
    return '[' + ';'.join(f'({t[0]}, {nl(t[1])})' for t in h) + ']'


def deal_of(r):
    pack = list(range(52)); r.shuffle(pack)
    return [sorted(pack[13 * i:13 * i + 13]) for i in range(4)]


def skewed_deal(r):
    """long suits and voids: deal suit-sorted pack in chunks"""
    pack = list(range(52))
    cut = r.randint(0, 51)
    pack = pack[cut:] + pack[:cut]
    for _ in range(r.randint(0, 6)):
        a, b = r.randint(0, 51), r.randint(0, 51); pack[a], pack[b] = pack[b], pack[a]
    hands = [sorted(pack[13 * i:13 * i + 13]) for i in range(4)]
    r.shuffle(hands)
    return hands


def gen(ctx, want):
    r = lib.rng(ctx['seed'], 'play')
    th = ctx['tier'] == 'thorough'
    inp = dict(bare=[], highest=[], hands=[], avail=[])
    if 'bare' in want:
        for i in range(1200 if th else 120):
            n = r.choice([52, 52, 52, 8, 13, 60, 3, 0, 4])
            kind = i % 4
            if kind == 0:   # a real deal in random order (revokes everywhere)
                cards = list(range(52)); r.shuffle(cards); cards = cards[:n] if n <= 52 else cards + cards[:n - 52]
            elif kind == 1:  # arbitrary with repeats
                cards = [r.randint(0, 51) for _ in range(n)]
            elif kind == 2:  # few suits, many ties of suit -> ruffs/over-ruffs decided by rank
                lo = 13 * r.randint(0, 2); cards = [r.randint(lo, lo + 25) for _ in range(n)]
            else:            # one suit only
                lo = 13 * r.randint(0, 3); cards = [r.randint(lo, lo + 12) for _ in range(n)]
            inp['bare'].append(dict(bid=r.randint(0, 34), decl=r.randint(0, 3), cards=cards))
        for b in range(35):
            inp['bare'].append(dict(bid=b, decl=b % 4, cards=[(7 * b + 11 * j) % 52 for j in range(8)]))
        for i in range(6000 if th else 800):
            n = r.choice([4, 4, 4, 1, 2, 3, 5, 0])
            lo = r.choice([0, 13, 26, 0, 0]); hi = r.choice([51, lo + 12, lo + 25 if lo + 25 <= 51 else 51])
            inp['highest'].append(dict(suit=r.randint(1, 5), cards=[r.randint(lo, hi) for _ in range(n)]))
        if th:   # exhaustive: all 4-card tricks over a 12-card sub-deck (3 ranks x 4 suits) x 5 strains
            sub = [s * 13 + k for s in range(4) for k in (0, 5, 12)]
            for sv in range(1, 6):
                for a in sub:
                    for b in sub:
                        for c in sub:
                            for d in sub:
                                inp['highest'].append(dict(suit=sv, cards=[a, b, c, d]))
    if 'hands' in want:
        for i in range(900 if th else 90):
            inp['hands'].append(dict(bid=r.randint(0, 34), decl=r.randint(0, 3), deal=(skewed_deal(r) if i % 3 == 0 else deal_of(r)),
                                     seed=r.randint(0, 10 ** 9), plays=r.choice([52, 52, 52, 17, 5]),
                                     inject=(r.choice([0.0, 0.15, 0.4]) if 'inject' in want else 0.0),
                                     policy=r.choice(['follow', 'any', 'mixed']), observers=('observers' in want),
                                     random_play=('random_play' in want),
                                     late=('observers' in want and i % 4 == 3)))     # dummy's hand shown to the observers only after they refused dummy's first play
    if 'avail' in want:
        for i in range(3000 if th else 400):
            n = r.randint(1, 13)
            pack = list(range(52)); r.shuffle(pack)
            lo = 13 * r.randint(0, 2)
            hand = sorted(pack[:n]) if i % 2 else sorted(r.sample(range(lo, lo + 26), n))
            inp['avail'].append(dict(hand=hand, led=(None if i % 7 == 0 else r.randint(0, 51))))
        for led in range(52):   # every led card against a fixed 13-card hand and a void-heavy hand
            inp['avail'].append(dict(hand=[0, 1, 2, 14, 15, 27, 28, 29, 30, 40, 41, 50, 51], led=led))
            inp['avail'].append(dict(hand=[13, 14, 15, 16, 17, 18], led=led))
    return inp


def run_shards(prop, tag, imports, typ, checker, lits, shard):
    shards = [lits[i:i + shard] for i in range(0, len(lits), shard)]

    def one(k_part):
        k, part = k_part
        body = f'Definition cases : list ({typ}) := [\n' + ';\n'.join(part) + '].\n'
        return lib.coq_cases(prop, f'{tag}_{k}', imports, body, [f'map (fun k => {checker}) cases'])[0]
    with cf.ThreadPoolExecutor(max_workers=12) as ex:
        res = list(ex.map(one, enumerate(shards)))
    out = []
    for x in res:
        out += x
    assert len(out) == len(lits)
    return out


IMP_O = 'From BE Require Import Spec.PlayOracle Model.CaseLib.'
IMP_T = 'From BE Require Import Model.PlayTie Model.CaseLib.'
B2N = 'if {} k then 0 else 1'


def lit_bare(k, o):
    return f"({k['bid']}, {k['decl']}, ({', '.join(str(x) for x in o['init'])}), {nl(k['cards'])}, [{';'.join(pj(p) for p in o['obs'])}], {hl(o['hist'])})"


def lit_hands(k, o):
    ops = '[' + ';'.join(f'({c}, {p})' for c, p in o['ops']) + ']'
    obs = '[' + ';'.join(f'({lib.cbool(a)}, {lib.cbool(u)}, {pj(p)})' for a, u, p in o['obs']) + ']'
    fh, fu, fhist = o['final']
    return f"({k['bid']}, {k['decl']}, [{';'.join(nl(h) for h in k['deal'])}], {ops}, {obs}, ([{';'.join(nl(h) for h in fh)}], {nl(fu)}, {hl(fhist)}))"


def lit_obs(k, o):
    per = []
    for ops, steps, (fh, fd, fhist) in o['observers']:
        opl = '[' + ';'.join(f'({c}, {p})' for c, p in ops) + ']'
        st = '[' + ';'.join(f'({lib.cbool(a)}, {lib.cbool(u)}, {pj(p)})' for a, u, p in steps) + ']'
        per.append(f"({opl}, {st}, ({nl(fh)}, {lib.copt(fd, nl)}, {hl(fhist)}))")
    return f"({k['bid']}, {k['decl'] + (4 if k.get('late') else 0)}, [{';'.join(nl(h) for h in k['deal'])}], [{';'.join(per)}])"


def lit_avail(hand, led, res):
    return f"({nl(hand)}, {lib.copt(led, str)}, {nl(res)})"


CARD = lambda c: 'CDHS'[c // 13] + '23456789TJQKA'[c % 13]


def names(cards):
    return [CARD(c) for c in cards]
