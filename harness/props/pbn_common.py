"""Shared by C17 (PBN half) and C18: layouts, results, literals."""
import lib
from props import play_common as pc
from props import json_common as jc

ALPHA = "abcdefghijklmnopqrstuvwxyzABCDEFGHIJKLMNOPQRSTUVWXYZ0123456789 .,-_/()'+#:"
R = 'AKQJT98765432'
VUL_SPELL = {0: ['None', 'Love', '-'], 1: ['NS'], 2: ['EW'], 3: ['All', 'Both']}


def word(r, n=None, alphabet=ALPHA):
    k = n if n is not None else r.choice([1, 2, 5, 9, 14])
    return ''.join(r.choice(alphabet) for _ in range(k))


def hand_pbn(h):
    if not h:
        return '-'
    return '.'.join(''.join(R[12 - (c % 13)] for c in sorted([x for x in h if x // 13 == s], reverse=True)) for s in (3, 2, 1, 0))


def deal_pbn(deal, first):
    return 'NESW'[first] + ':' + ' '.join(hand_pbn(deal[(first + i) % 4]) for i in range(4))


def gen_board(r, i):
    return dict(deal=pc.deal_of(r) if r.random() < 0.8 else pc.skewed_deal(r), dealer=r.randint(0, 3), vul=r.randint(0, 3),
                board_id=r.choice([str(i + 1), word(r), word(r, 3) + '  ' + word(r, 2), ' ' + word(r, 4), word(r, 4) + ' ']))


def render_layout(r, boards, style):
    """An admissible PBN import file for the boards; returns the text.  style: dict(eol, blanks, extras, header)."""
    eol = style['eol']
    blank = lambda: r.choice(['', ' ', '\t', '  \t '] if style['blanks'] == 'ws' else ['']) + eol
    out = []
    if style['header']:
        out += ['% PBN 2.1' + eol, '% EXPORT' + eol]
        if r.random() < 0.5:
            out.append('%' + word(r, 6, 'abc xyz') + eol)
    for _ in range(r.choice(style['lead'])):
        out.append(blank())
    for gi, b in enumerate(boards):
        first = r.randint(0, 3)
        need = [('Board', b['board_id']), ('Dealer', 'NESW'[b['dealer']]), ('Vulnerable', r.choice(VUL_SPELL[b['vul']])), ('Deal', deal_pbn(b['deal'], first))]
        r.shuffle(need)
        items = [('tag', n, v) for n, v in need]
        if style['extras']:
            for _ in range(r.randint(0, 5)):
                kind = r.random()
                pos = r.randint(0, len(items))
                if kind < 0.5:
                    items.insert(pos, ('tag', r.choice(['Event', 'Site', 'Date', 'West', 'North', 'East', 'South', 'Scoring', 'Declarer', 'Contract', 'Result', 'Annotator', 'OptimumScore', 'Xy']), word(r)))
                elif kind < 0.75:
                    # a repeated tag after its first occurrence must be ignored
                    name = r.choice(['Board', 'Dealer', 'Vulnerable', 'Deal'])
                    firstpos = next(i for i, it in enumerate(items) if it[0] == 'tag' and it[1] == name)
                    items.insert(r.randint(firstpos + 1, len(items)), ('tag', name, r.choice(['N', 'E', '99', 'All', 'junk'])))
                else:
                    items.append(('row', r.choice(['N S 3NT 9', 'W NT 7', 'pass pass 1C', '1 2 3', 'AK.QJ', '* =1= -'])))
        for it in items:
            if it[0] == 'tag':
                sp = style.get('tagspace', False)
                a, b2, c = (r.choice(['', ' ']) if sp else ''), (r.choice([' ', '  ', '\t']) if sp else ' '), (r.choice(['', ' ']) if sp else '')
                out.append(f'[{a}{it[1]}{b2}"{it[2]}"{c}]' + eol)
            else:
                out.append(it[1] + eol)
        last = gi == len(boards) - 1
        nb = r.choice(style['trail']) if last else r.choice(style['between'])
        for _ in range(nb):
            out.append(blank())
    return ''.join(out)


def gen_result(r, i, passed_out=None):
    po = (r.random() < 0.2) if passed_out is None else passed_out
    if po:
        k = dict(bid=None, x=False, xx=False, vul=r.randint(0, 3), decl=None)
    else:
        st = r.choice([(False, False), (True, False), (True, True)])
        k = dict(bid=r.randint(0, 34), x=st[0], xx=st[1], vul=r.randint(0, 3), decl=r.randint(0, 3))
    def name():        # blank runs, leading and trailing blanks are part of a name (space is in the stated alphabet)
        k = r.random()
        return word(r) if k < 0.6 else word(r, 3) + ' ' * r.randint(2, 4) + word(r, 4) if k < 0.8 else ' ' * r.randint(1, 2) + word(r, 5) if k < 0.9 else word(r, 5) + ' ' * r.randint(1, 2)
    return dict(event=name(), site=name(), date=[r.randint(1990, 2030), r.randint(1, 12), r.randint(1, 28)], board_num=r.randint(1, 999),
                players=[name() for _ in range(4)], dealer=r.randint(0, 3), deal=pc.deal_of(r) if r.random() < 0.8 else pc.skewed_deal(r),
                scoring=r.choice(jc.SCORINGS), contract=k, taken=None if po else r.randint(0, 13))


def expected_tags(x):
    """The fifteen mandatory tags with the values that were written (the statement's right-hand side)."""
    k = x['contract']
    po = k['bid'] is None
    NAMES = [f'{l}{s}' for l in range(1, 8) for s in ('C', 'D', 'H', 'S', 'NT')]
    kstr = 'Pass' if po else NAMES[k['bid']] + ('XX' if k['xx'] else 'X' if k['x'] else '')
    return [['Event', x['event']], ['Site', x['site']], ['Date', '%04d.%02d.%02d' % tuple(x['date'])], ['Board', str(x['board_num'])],
            ['West', x['players'][3]], ['North', x['players'][0]], ['East', x['players'][1]], ['South', x['players'][2]],
            ['Dealer', 'NESW'[x['dealer']]], ['Vulnerable', ['None', 'NS', 'EW', 'All'][k['vul']]], ['Deal', deal_pbn(x['deal'], x['dealer'])],
            ['Scoring', x['scoring']], ['Declarer', '' if po else 'NESW'[k['decl']]], ['Contract', kstr], ['Result', '' if po else str(x['taken'])]]


def setting_norm(b, board_id=None):
    return dict(board_id=b['board_id'] if board_id is None else board_id, hands=[sorted(h) for h in b['deal']], dealer=b['dealer'], vul=b['vul'], dda=None)
