"""Translator for class PbnWriter of bridge_env/data_handler/pbn_handler/writer.py: Python `ast` -> Gallina
(coq/Gen/PbnFns.v).  Reads the source TEXT only (never imports or evaluates it) and fails closed: anything outside the
subset below raises Untranslatable with file and line.  Proofs/PbnGen.v proves the generated functions equal to the
writer part of the hand-written model Model/Pbn.v (write_line, write_tag_pair, tags15, write_board_result, write_header).

What is translated.  One Definition per method, callees first:
  write_line          -> g_write_line (v_string : string)            : option (list string)
  write_tag_pair      -> g_write_tag_pair (v_tag v_content : string) : option (list string)
  write_header        -> g_write_header                              : option (list string)
  write_board_result  -> g_write_board_result (x : pbn_result)       : option (list string)
The output stream: `self.writer.write(e)` appends e to the list of chunks written; a method returns the chunks it (and
the methods it calls) wrote, in order.  None = the method raises (an `assert` fails - asserts are guards, as in the
model; an index into an empty string; `Hands.to_pbn` raises) or a `while` loop does not finish within its fuel (below).
The chunks written before a raise are not part of the result (the model also answers None).

Interface (the only hard-wired part, table RESULT).  The parameters of write_board_result are the fields of the model's
record pbn_result, bound by `let v_<parameter> := <projection> in` in front of the translated body; the parameter list
(names, annotations, no defaults, in order) must be exactly the one of the table:
  event -> r_event (str);  site -> r_site (str);  date -> r_date (datetime.date: the triple (year, month, day));
  board_num -> r_board (int: a natural number, so `board_num > 0` is `0 <? v_board_num`; negative numbers are outside the
  model);  west_player/north_player/east_player/south_player -> r_players x West/North/East/South (str);
  dealer -> r_dealer (Player);  deal -> r_deal (Hands);  scoring -> r_scoring (Scoring: the record stores the `.value`
  string of the member);  contract -> r_contract (Contract);  taken_tricks -> r_taken (Optional[int]: option nat).
The parameters of the other methods are taken from the source (annotation `str` or `int`, no defaults, result None).
Everything else comes from the source AST: the tag names, their order, which expression is written under which tag, the
conditionals and their literals, every test and constant (MAX_LINE_CHARS, the `- 1`, the slice bounds, the comparison
operator), every written chunk including the final newline.

Subset.
Module: the imports of table IMPORTS (typing imports are free), class PbnWriter(Writer) and the Enum Scoring; nothing
else.  PbnWriter: docstring, `MAX_LINE_CHARS = <non-negative int literal>`, `__init__` and `create_contents_sequence`
(pinned text, not translated, a call of it is refused) and the four methods above, each defined once, undecorated.
Statements: the docstring; `x = e`, `x: T = e`, `x += e` on a local or parameter (a `let`; the type of a name never
changes); `assert <test>` (`if <test> then .. else None`); `pass`; `self.writer.write(<str>)` (`let o'N := [<str>] in`:
the chunk is named where it is written, so that a later assignment to a local cannot change it);
`self.<translated method>(<arguments>)` (positional or keyword; `match .. with None => None | Some o'N => ..`);
`if <test>:` whose branches only assign names that are already bound (`let '(..) := if .. then .. else .. in`), or
whose branches only assert (one guard `if (if <test> then <asserts> else <asserts>) then .. else None`);
`while <test>:` without else/break/continue, whose test contains `len(v)` for a loop-carried string v: a Fixpoint on
fuel `g_<method>_loopN fuel <carried> <other locals read>` returning the chunks written and the carried locals, called
with fuel `S (String.length v)`; fuel 0 = None.  The translation is sound for any fuel (a `Some` result is the result
of the Python loop, which then has finished within that many iterations); that the fuel is always enough is part of the
equality proved in Proofs/PbnGen.v.  Locals first bound in a loop body are local to one iteration.  Any other statement
(return, raise, for, try, with, attribute or subscript stores, ..) is refused.
Expressions, typed (str, nat, bool, date, seat, deal, scoring, contract, vul, Optional[int], Optional[Player]):
  string literals; non-negative int literals; parameters and locals; `_VERSION` (read from pbn_handler/__init__.py: one
  assignment of a string literal -> k_version); `self.MAX_LINE_CHARS` / `PbnWriter.MAX_LINE_CHARS` (k_max_line_chars);
  f-strings whose interpolations are str expressions without conversion or format (-> concatenation); `a + b` (str or
  nat); `a - b` only on constants with a non-negative result (nat subtraction would truncate; a negative slice bound
  means something else in Python); `s[0]`, `s[-1]` (py_first / py_last: None on the empty string, else the one-character
  string); `s[:k]`, `s[k:]` with k a constant (py_slice_to / py_slice_from); `len(s)`; `str(e)` by the type of e (str:
  e itself; nat: string_of_nat; Player: seat_str; Contract: contract_str; Vul: vul_str; Optional[T]: py_str_opt ..,
  "None" for None); `s.isupper()` (py_isupper: some upper-case and no lower-case letter, ASCII - strings are byte
  strings in the model); `date.strftime(<literal>)` with the directives %Y %m %d %% only (-> four_digits of the year,
  two_digits of month / day, exact for years >= 1000: the C library does not pad smaller years); `contract.vul`,
  `contract.declarer`, `contract.is_passed_out()`; `<vul>.pbn_format()` (vul_pbn); `deal.to_pbn(dealer)` (to_pbn of
  Model/Hands.v; can raise); `scoring.value` / `scoring.name` (py_scoring_value: the stored string; py_scoring_name: the
  member looked up in the pinned list - not the same term, MATCH_POINTS is not MatchPoints); `a if <test> else b` with
  branches that cannot raise.
Tests: an expression of type bool only (truthiness of anything else is refused): `x is None` / `x is not None` for an
  Optional x; `not`; `and` / `or` (later operands must not raise); one-operator comparisons of two nat (< <= > >= == !=;
  `a > b` is written `b <? a`) or two str (== !=).
Evaluation order is source order: the arguments of a call are bound before the call.

Pinned (exact source text, refused otherwise; the model functions named above were written against this text):
  the enums Player, Vul, Suit, Bid (member lists, plain Enum) and Scoring (member list, no methods, no member called
  name/value); Player.__str__ (`return self.name`; PbnFns.v lists the names, PbnGen.v proves seat_str is that list),
  Player.next_player / left; Vul.__str__, Vul.pbn_format; Bid.__str__; Contract (frozen dataclass with its five fields,
  __post_init__, is_passed_out, __str__); Card (frozen dataclass, __post_init__, __int__, __lt__, rank_int_to_str);
  Hands.__init__, __getitem__, to_pbn, _convert_hand_to_pbn; that the package exports Contract, Hands, Player from their
  modules; the imports and the base class of writer.py; PbnWriter.__init__ (`self.writer = writer`) and
  create_contents_sequence; the builtins str and len are not rebound."""
import ast
import os

import gen
import gen_auction
import gen_play
from gen import Untranslatable

REL = 'bridge_env/data_handler/pbn_handler/writer.py'
INIT = 'bridge_env/data_handler/pbn_handler/__init__.py'
CLASS = 'PbnWriter'
CONST = 'MAX_LINE_CHARS'
VERSION = '_VERSION'

# ---------------------------------------------------------------- the interface with Model/Pbn.v
# write_board_result: (parameter, annotation, type, term bound to v_<parameter>)
RESULT = [('event', 'str', 'str', 'r_event x'), ('site', 'str', 'str', 'r_site x'),
          ('date', 'datetime.date', 'date', 'r_date x'), ('board_num', 'int', 'nat', 'r_board x'),
          ('west_player', 'str', 'str', 'r_players x West'), ('north_player', 'str', 'str', 'r_players x North'),
          ('east_player', 'str', 'str', 'r_players x East'), ('south_player', 'str', 'str', 'r_players x South'),
          ('dealer', 'Player', 'seat', 'r_dealer x'), ('deal', 'Hands', 'deal', 'r_deal x'),
          ('scoring', 'Scoring', 'scoring', 'r_scoring x'), ('contract', 'Contract', 'contract', 'r_contract x'),
          ('taken_tricks', 'Optional[int]', 'o:nat', 'r_taken x')]
RECORD_METHOD = 'write_board_result'
NAMES = {'write_line': 'g_write_line', 'write_tag_pair': 'g_write_tag_pair', 'write_header': 'g_write_header',
         'write_board_result': 'g_write_board_result'}
ORDER = ('write_line', 'write_tag_pair', 'write_header', 'write_board_result')
ANN = {'str': 'str', 'int': 'nat'}                         # annotations of the parameters of the other methods
COQTY = {'str': 'string', 'nat': 'nat', 'bool': 'bool', 'date': '(nat * nat * nat)', 'seat': 'seat', 'deal': 'deal',
         'scoring': 'string', 'contract': 'contract', 'vul': 'vul'}
BASES = {CLASS: ['Writer'], 'Scoring': ['Enum']}
# imports of writer.py: name -> 'import' | (level, module); level 3 / module None = the package bridge_env itself
IMPORTS = {'annotations': (0, '__future__'), 'datetime': 'import', 'Enum': (0, 'enum'), VERSION: (1, None),
           'Writer': (2, 'abstract_classes'), 'Contract': (3, None), 'Hands': (3, None), 'Player': (3, None)}
PACKAGE = {'Contract': 'contract', 'Hands': 'hands', 'Player': 'player'}
BUILTINS = ('str', 'len')
SCORING = [('MP', 'MP'), ('MATCH_POINTS', 'MatchPoints'), ('IMP', 'IMP'), ('CAVENDISH', 'Cavendish'),
           ('CHICAGO', 'Chicago'), ('RUBBER', 'Rubber'), ('BAM', 'BAM'), ('INSTANT', 'Instant')]
ENUMS = {c: gen_auction.ENUMS[c] for c in ('Player', 'Vul', 'Suit', 'Bid')}
# members of PbnWriter that are not translated: name -> (decorators, parameters, body), exact text
LOCAL_PINS = {'__init__': ([], 'self, writer: IO[str]', 'self.writer = writer'),
              'create_contents_sequence': (['staticmethod'], 'contents: List[str]', "return ';'.join(contents)")}
# library members relied on: (file, class, name) -> (decorators, parameters, body); the model was written against this text
PINS = dict((k, gen_play.PINS[k]) for k in (('bridge_env/player.py', 'Player', 'next_player'),
                                            ('bridge_env/player.py', 'Player', 'left'),
                                            ('bridge_env/card.py', 'Card', '__post_init__'),
                                            ('bridge_env/contract.py', 'Contract', '__post_init__'),
                                            ('bridge_env/contract.py', 'Contract', 'is_passed_out'),
                                            ('bridge_env/hands.py', 'Hands', '__init__'),
                                            ('bridge_env/hands.py', 'Hands', '__getitem__')))
_PBN_FORMAT = "if self.value == 1:\n    return 'None'\nelif self.value == 4:\n    return '%s'\nreturn self.name"
PINS.update({
    ('bridge_env/player.py', 'Player', '__str__'): ([], 'self', 'return self.name'),
    ('bridge_env/vul.py', 'Vul', '__str__'): ([], 'self', _PBN_FORMAT % 'Both'),
    ('bridge_env/vul.py', 'Vul', 'pbn_format'): ([], 'self', _PBN_FORMAT % 'All'),
    ('bridge_env/bid.py', 'Bid', '__str__'):
        ([], 'self', 'if self.value >= 36:\n    return self.name\nreturn self.name[-1] + self.name[:-1]'),
    ('bridge_env/contract.py', 'Contract', '__str__'):
        ([], 'self', "if self.is_passed_out():\n    return 'Passed_out'\ncontract = str(self.final_bid)\nif self.xx:\n"
                     "    contract += 'XX'\nelif self.x:\n    contract += 'X'\nreturn contract"),
    ('bridge_env/card.py', 'Card', '__int__'): ([], 'self', 'return self.rank - 2 + (self.suit.value - 1) * 13'),
    ('bridge_env/card.py', 'Card', '__lt__'):
        ([], 'self, other: Card', 'if not isinstance(other, self.__class__):\n    raise NotImplementedError\n'
                                  'return int(self) < int(other)'),
    ('bridge_env/card.py', 'Card', 'rank_int_to_str'):
        (['classmethod'], 'cls, rank: int',
         "if rank < 2 or 14 < rank:\n    raise ValueError('card rank is from 2 to 14')\nif rank == 10:\n    return 'T'\n"
         "elif rank == 11:\n    return 'J'\nelif rank == 12:\n    return 'Q'\nelif rank == 13:\n    return 'K'\n"
         "elif rank == 14:\n    return 'A'\nreturn str(rank)"),
    ('bridge_env/hands.py', 'Hands', 'to_pbn'):
        ([], 'self, dealer: Player=Player.N',
         "player = dealer\ncards: List[str] = list()\nfor _ in range(4):\n"
         "    cards.append(self._convert_hand_to_pbn(self[player]))\n    player = player.next_player\n"
         "return f'{dealer}:{cards[0]} {cards[1]} {cards[2]} {cards[3]}'"),
    ('bridge_env/hands.py', 'Hands', '_convert_hand_to_pbn'):
        (['staticmethod'], 'hand: Set[Card]',
         "if len(hand) == 0:\n    return '-'\nassert len(hand) == 13\nhand_list = sorted(list(hand), reverse=True)\n"
         "suits = list()\nfor suit in [Suit.S, Suit.H, Suit.D, Suit.C]:\n"
         "    suits.append(''.join([Card.rank_int_to_str(card.rank) for card in hand_list if card.suit is suit]))\n"
         "return '.'.join(suits)"),
})
# what has to be pinned for a use: kind -> [pin keys / ('enum', cls) / ('dc', cls) / ('pkg', name)]
NEEDS = {
    'seat': [('pkg', 'Player'), ('enum', 'Player')],
    'str:seat': [('bridge_env/player.py', 'Player', '__str__')],
    'vul': [('enum', 'Vul')],
    'str:vul': [('bridge_env/vul.py', 'Vul', '__str__')],
    'pbn_format': [('bridge_env/vul.py', 'Vul', 'pbn_format')],
    'contract': [('pkg', 'Contract'), ('dc', 'Contract'), ('enum', 'Bid'), ('enum', 'Vul'), ('enum', 'Player'),
                 ('bridge_env/contract.py', 'Contract', 'is_passed_out')],
    'str:contract': [('bridge_env/contract.py', 'Contract', '__str__'), ('bridge_env/bid.py', 'Bid', '__str__')],
    'to_pbn': [('pkg', 'Hands'), ('pkg', 'Player'), ('enum', 'Player'), ('enum', 'Suit'), ('dc', 'Card'),
               ('bridge_env/player.py', 'Player', '__str__'), ('bridge_env/player.py', 'Player', 'next_player'),
               ('bridge_env/player.py', 'Player', 'left'), ('bridge_env/hands.py', 'Hands', '__init__'),
               ('bridge_env/hands.py', 'Hands', '__getitem__'), ('bridge_env/hands.py', 'Hands', 'to_pbn'),
               ('bridge_env/hands.py', 'Hands', '_convert_hand_to_pbn'), ('bridge_env/card.py', 'Card', '__int__'),
               ('bridge_env/card.py', 'Card', '__lt__'), ('bridge_env/card.py', 'Card', 'rank_int_to_str')],
}
DATACLASSES = gen_play.DATACLASSES
STRFTIME = {'Y': 'py_date_Y', 'm': 'py_date_m', 'd': 'py_date_d'}

PRELUDE = '''(* this file: harness/gen_pbnw.py.  One Definition per translated method of PbnWriter, callees first: the list of
   chunks handed to self.writer.write, in order; None = the method raises (or a loop runs out of fuel).
   v_<name>: the Python parameter or local <name>; x'N: a value bound by a match; o'N: the chunks written by a call *)
From Coq Require Import List Arith Bool String Ascii.
From BE Require Import Model.CaseLib Model.Pbn.
Import ListNotations.
Local Open Scope string_scope.
Local Open Scope nat_scope.
Local Open Scope list_scope.
Local Infix "+++" := String.append (right associativity, at level 60).
(* fixed prelude - s[0] and s[-1]: the one-character string; None = IndexError (the empty string) *)
Definition py_first (s : string) : option string :=
  match s with EmptyString => None | String a _ => Some (String a EmptyString) end.
Fixpoint py_last_char (s : string) : option ascii :=
  match s with EmptyString => None | String a r => match py_last_char r with Some b => Some b | None => Some a end end.
Definition py_last (s : string) : option string := option_map (fun a => String a EmptyString) (py_last_char s).
(* fixed prelude - s[:j] and s[j:] for a constant j >= 0 *)
Definition py_slice_to (j : nat) (s : string) : string := substring 0 j s.
Definition py_slice_from (j : nat) (s : string) : string := substring j (String.length s - j) s.
(* fixed prelude - str.isupper on a byte string: at least one upper-case letter and no lower-case letter *)
Definition py_isupper (s : string) : bool := sexists is_upper s && negb (sexists is_lower s).
(* fixed prelude - str(x) for an Optional x: str(None) is "None";  `x is None` *)
Definition py_str_opt {A : Type} (f : A -> string) (o : option A) : string :=
  match o with Some x => f x | None => "None"%string end.
Definition py_is_none {A : Type} (o : option A) : bool := match o with None => true | Some _ => false end.
(* fixed prelude - date.strftime directives on a (year, month, day): %Y %m %d *)
Definition py_date_Y (dt : nat * nat * nat) : string := let '(y, _, _) := dt in four_digits y.
Definition py_date_m (dt : nat * nat * nat) : string := let '(_, m, _) := dt in two_digits m.
Definition py_date_d (dt : nat * nat * nat) : string := let '(_, _, d) := dt in two_digits d.
'''

_SRC = {}            # overrides for sensitivity studies: relative path -> file to read instead of the one under the repository


def parse(rel):
    if rel in _SRC:
        try:
            return ast.parse(open(_SRC[rel]).read())
        except (OSError, SyntaxError, ValueError) as e:
            raise Untranslatable(f'{rel}: {e}')
    return gen.parse(rel)


def is_doc(s):
    return isinstance(s, ast.Expr) and isinstance(s.value, ast.Constant) and isinstance(s.value.value, str)


def coqty(ty):
    return f'option {COQTY[ty[2:]]}' if ty.startswith('o:') else COQTY[ty]


def self_attr(n):
    """The name a of `self.a`, else None."""
    if isinstance(n, ast.Attribute) and isinstance(n.value, ast.Name) and n.value.id == 'self':
        return n.attr
    return None


def assigned(ss, acc):
    for s in ss:
        if isinstance(s, (ast.Assign, ast.AnnAssign, ast.AugAssign)):
            for t in (s.targets if isinstance(s, ast.Assign) else [s.target]):
                if isinstance(t, ast.Name) and t.id not in acc:
                    acc.append(t.id)
        elif isinstance(s, (ast.If, ast.While)):
            assigned(s.body + s.orelse, acc)
    return acc


class E:
    """Translated expression: Gallina `term`, its type, the pending option binds [(pattern, option term)] in evaluation
    order (a None among them = Python raises), and its value when it is a compile-time integer constant."""
    def __init__(self, term, ty, binds=(), const=None):
        self.term, self.ty, self.binds, self.const = term, ty, list(binds), const


class Translator:
    def __init__(self, tree):
        self.tree = tree
        self.imports, self.classes = {}, {}
        self.pinned, self.n = set(), 0
        self.done, self.active, self.out = {}, [], []     # method -> [(parameter, type)]; translation stack; definitions
        self.uses_scoring = self.uses_player_names = False
        self.version = None
        self.structure()

    def bad(self, node, msg):
        raise Untranslatable(f'{REL}:{getattr(node, "lineno", "?")}: {msg} [{ast.unparse(node)[:70]!r}]')

    def fresh(self, base='x'):
        self.n += 1
        return f"{base}'{self.n}"

    # ---------------------------------------------------------------- the module and the class
    def structure(self):
        for i, node in enumerate(self.tree.body):
            if isinstance(node, ast.Import):
                for a in node.names:
                    if a.name in self.imports or a.asname is not None:
                        self.bad(node, 'import outside the subset')
                    self.imports[a.name] = 'import'
            elif isinstance(node, ast.ImportFrom):
                for a in node.names:
                    name = a.asname or a.name
                    if name in self.imports or a.name == '*':
                        self.bad(node, f'{name} is imported twice (or a star import)')
                    if node.module == 'typing' and node.level == 0 and a.asname is None:
                        self.imports[name] = 'typing'
                    else:
                        self.imports[name] = (node.level, node.module) if a.asname is None else None
            elif isinstance(node, ast.ClassDef):
                if node.name not in BASES or node.name in self.classes:
                    self.bad(node, f'class {node.name} is outside the subset (or defined twice)')
                if [ast.unparse(b) for b in node.bases] != BASES[node.name] or node.keywords or node.decorator_list:
                    self.bad(node, f'class {node.name} does not have the bases {BASES[node.name]} (or is decorated)')
                self.classes[node.name] = node
            elif not (i == 0 and is_doc(node)):
                self.bad(node, 'module-level statement outside the subset')
        for c in BASES:
            if c not in self.classes:
                raise Untranslatable(f'{REL}: class {c} not found')
        for name, where in IMPORTS.items():
            if self.imports.get(name) != where:
                raise Untranslatable(f'{REL}: {name} is not imported from its module')
        for name, where in self.imports.items():
            if name in BUILTINS or (where != 'typing' and name not in IMPORTS):
                raise Untranslatable(f'{REL}: import of {name} is outside the subset')
        for name in ('Optional', 'IO', 'List'):
            if self.imports.get(name) != 'typing':
                raise Untranslatable(f'{REL}: {name} is not imported from typing')
        # Scoring: a plain Enum with the pinned member list and nothing else
        sc = [s for s in self.classes['Scoring'].body if not is_doc(s)]
        if any(not isinstance(s, ast.Assign) for s in sc) or self.enum_members(self.classes['Scoring']) != SCORING:
            self.bad(self.classes['Scoring'], 'the members of Scoring are not those the model stores (or it has methods)')
        # PbnWriter: the constant, the pinned members, the translated methods; each once
        self.members, self.kconst = {}, None
        for m in self.classes[CLASS].body:
            if is_doc(m):
                continue
            if isinstance(m, ast.Assign) and len(m.targets) == 1 and isinstance(m.targets[0], ast.Name) and \
                    m.targets[0].id == CONST and self.kconst is None and isinstance(m.value, ast.Constant) and \
                    type(m.value.value) is int and 0 <= m.value.value < 100000:
                self.kconst = m.value.value
                continue
            if not isinstance(m, ast.FunctionDef) or m.name in self.members or m.name == CONST:
                self.bad(m, 'class-level statement outside the subset (or a member defined twice)')
            if m.name not in NAMES and m.name not in LOCAL_PINS:
                self.bad(m, f'{CLASS}.{m.name} is outside the subset')
            self.members[m.name] = m
        if self.kconst is None:
            raise Untranslatable(f'{REL}: {CLASS}.{CONST} not found')
        for name, (decos, params, body) in LOCAL_PINS.items():
            if name not in self.members:
                raise Untranslatable(f'{REL}: {CLASS}.{name} not found')
            self.same_text(self.members[name], decos, params, body, self.members[name], f'{CLASS}.{name} is not the pinned text')
        for name in NAMES:
            if name not in self.members:
                raise Untranslatable(f'{REL}: {CLASS}.{name} not found')
        # the version string of the package
        found = [s for s in parse(INIT).body if isinstance(s, (ast.Assign, ast.AnnAssign, ast.AugAssign, ast.FunctionDef,
                                                                ast.ClassDef, ast.Import, ast.ImportFrom, ast.Delete))
                 and VERSION in [n.id for n in ast.walk(s) if isinstance(n, ast.Name)] +
                 [getattr(s, 'name', None)] + [a.asname or a.name for a in getattr(s, 'names', []) if isinstance(a, ast.alias)]]
        if len(found) != 1 or not isinstance(found[0], ast.Assign) or len(found[0].targets) != 1 or \
                not isinstance(found[0].targets[0], ast.Name) or not isinstance(found[0].value, ast.Constant) or \
                type(found[0].value.value) is not str:
            raise Untranslatable(f'{INIT}: {VERSION} is not assigned one string literal, once')
        for s in parse(INIT).body:
            if not (is_doc(s) or isinstance(s, (ast.Assign, ast.Import, ast.ImportFrom))):
                raise Untranslatable(f'{INIT}:{s.lineno}: statement outside the subset')
        self.version = found[0].value.value

    @staticmethod
    def enum_members(cls):
        out = []
        for st in cls.body:
            if isinstance(st, ast.Assign) and len(st.targets) == 1 and isinstance(st.targets[0], ast.Name) and \
                    isinstance(st.value, ast.Constant) and type(st.value.value) is str:
                out.append((st.targets[0].id, st.value.value))
            elif not is_doc(st):
                return None
        return out

    def same_text(self, m, decos, params, body, node, msg):
        got = [s for s in m.body if not is_doc(s)]
        if [ast.unparse(d) for d in m.decorator_list] != decos or ast.unparse(m.args) != params or \
                gen.alpha_dump(got) != gen.alpha_dump(ast.parse(body).body):
            self.bad(node, msg)

    # ---------------------------------------------------------------- pins
    def need(self, kind, node):
        for key in NEEDS[kind]:
            if key in self.pinned:
                continue
            if key[0] == 'pkg':
                self.package(key[1], node)
            elif key[0] == 'enum':
                self.enum(key[1], node)
            elif key[0] == 'dc':
                self.dataclass(key[1], node)
            else:
                self.pin(key, node)
            self.pinned.add(key)

    def find_class(self, rel, cls, node):
        found = [c for c in parse(rel).body if isinstance(c, ast.ClassDef) and c.name == cls]
        if len(found) != 1:
            self.bad(node, f'{rel}: class {cls} not found (or defined twice)')
        return found[0]

    def pin(self, key, node):
        rel, cls, name = key
        decos, params, body = PINS[key]
        found = [m for m in self.find_class(rel, cls, node).body if isinstance(m, ast.FunctionDef) and m.name == name]
        if len(found) != 1:
            self.bad(node, f'{rel}: {cls}.{name} not found (or defined twice)')
        self.same_text(found[0], decos, params, body, node, f'{rel}: {cls}.{name} is not the text the model was written against')

    def package(self, name, node):
        ok = [x for x in parse('bridge_env/__init__.py').body if isinstance(x, ast.ImportFrom) and
              any((a.asname or a.name) == name for a in x.names)]
        if len(ok) != 1 or ok[0].module != PACKAGE[name] or ok[0].level != 1 or \
                any(a.name == name and a.asname is not None for a in ok[0].names):
            self.bad(node, f'bridge_env/__init__.py does not take {name} from .{PACKAGE[name]}')

    def enum(self, cls, node):
        rel, _, members, _ = ENUMS[cls]
        c = self.find_class(rel, cls, node)
        if [ast.unparse(b) for b in c.bases] != ['Enum'] or c.keywords or c.decorator_list or \
                any(isinstance(m, ast.FunctionDef) and m.name in ('__eq__', '__ne__', '__hash__', '__format__', '__new__',
                                                                 '__getattribute__', '__getattr__', '_missing_') for m in c.body):
            self.bad(node, f'{rel}: {cls} is not a plain Enum')
        got = [(st.targets[0].id, st.value.value) for st in c.body if isinstance(st, ast.Assign) and len(st.targets) == 1
               and isinstance(st.targets[0], ast.Name) and isinstance(st.value, ast.Constant) and type(st.value.value) in (int, str)]
        if any(isinstance(st, (ast.Assign, ast.AnnAssign, ast.AugAssign)) for st in c.body) and \
                len(got) != sum(isinstance(st, (ast.Assign, ast.AnnAssign, ast.AugAssign)) for st in c.body):
            self.bad(node, f'{rel}: {cls} has a member that is not a literal')
        if got != members:
            self.bad(node, f'{rel}: the members of {cls} are not those modelled in Model/Basics.v')

    def dataclass(self, cls, node):
        rel, fields = DATACLASSES[cls]
        c = self.find_class(rel, cls, node)
        got = [(s.target.id, ast.unparse(s.annotation), None if s.value is None else ast.unparse(s.value))
               for s in c.body if isinstance(s, ast.AnnAssign) and isinstance(s.target, ast.Name)]
        if got != fields or [ast.unparse(d) for d in c.decorator_list] != ['dataclass(frozen=True)'] or c.bases or c.keywords \
                or any(isinstance(s, ast.FunctionDef) and s.name in ('__init__', '__new__', '__eq__', '__hash__', '__getattr__',
                                                                     '__getattribute__', '__format__') for s in c.body):
            self.bad(node, f'{rel}: the dataclass {cls} is not the one modelled in Model/Basics.v')
        self.pin((rel, cls, '__post_init__'), node)

    def use_type(self, ty, node):
        """Everything a value of this type relies on."""
        base = ty[2:] if ty.startswith('o:') else ty
        if base in ('seat', 'vul', 'contract'):
            self.need(base, node)

    # ---------------------------------------------------------------- methods
    def run(self):
        for name in ORDER:
            self.method(name, self.members[name])
        return self.out

    def method(self, name, fd):
        if name in self.done:
            return self.done[name]
        if name in self.active:
            self.bad(fd, f'recursion through {name} is outside the subset')
        self.active.append(name)
        saved = self.n, getattr(self, 'cur', None), getattr(self, 'loops', 0)
        self.n, self.cur, self.loops = 0, name, 0
        a = fd.args
        if fd.decorator_list or a.posonlyargs or a.kwonlyargs or a.vararg or a.kwarg or a.defaults or a.kw_defaults or \
                not a.args or a.args[0].arg != 'self' or a.args[0].annotation is not None:
            self.bad(fd, 'decorators, defaults or special parameters')
        if not (isinstance(fd.returns, ast.Constant) and fd.returns.value is None):
            self.bad(fd, 'result annotation is not None')
        params, lets = [], ''
        if name == RECORD_METHOD:
            got = [(p.arg, None if p.annotation is None else ast.unparse(p.annotation)) for p in a.args[1:]]
            if got != [(p, ann) for p, ann, _, _ in RESULT]:
                self.bad(fd, 'the parameters are not those of the interface table RESULT')
            for p, _, ty, term in RESULT:
                self.use_type(ty, fd)
                params.append((p, ty))
                lets += f'  let v_{p} := {term} in\n'
            binder = '(x : pbn_result)'
        else:
            for p in a.args[1:]:
                if not (isinstance(p.annotation, ast.Name) and p.annotation.id in ANN):
                    self.bad(p, 'parameter annotation outside str/int')
                params.append((self.local(p, p.arg), ANN[p.annotation.id]))
            binder = ' '.join(f'(v_{p} : {coqty(t)})' for p, t in params)
        if len({p for p, _ in params}) != len(params):
            self.bad(fd, 'a parameter name is repeated')
        body = fd.body[1:] if is_doc(fd.body[0]) else fd.body
        if not body:
            self.bad(fd, 'empty body')

        def fin(env, outs):
            return 'Some ' + ('[]' if not outs else outs[0] if len(outs) == 1 else '(' + ' ++ '.join(outs) + ')')
        term = self.seq(body, dict(params), [], fin, '  ')
        self.out.append(f'(* {CLASS}.{name} *)\nDefinition {NAMES[name]}{" " if binder else ""}{binder} : option (list string) :=\n{lets}{term}.')
        self.active.pop()
        self.n, self.cur, self.loops = saved
        self.done[name] = params
        return params

    def local(self, node, name):
        if name in BUILTINS or name in self.imports or name in self.classes or name == 'self':
            self.bad(node, f'local name {name} rebinds a global, a builtin or self')
        if not name.isidentifier() or not name.isascii():
            self.bad(node, f'local name {name} is outside the subset')
        return name

    # ---------------------------------------------------------------- statements
    def seq(self, ss, env, outs, fin, ind):
        """Gallina (type option ..) for: run ss, then fin(env, outs).  env: local -> type; outs: the terms (lists of
        chunks) written so far, in order."""
        if not ss:
            return ind + fin(env, outs)
        s, rest = ss[0], ss[1:]
        if isinstance(s, ast.Pass):
            return self.seq(rest, env, outs, fin, ind)
        if isinstance(s, ast.Assert):
            if s.msg is not None:
                self.bad(s, 'assert with a message is outside the subset')
            c = self.expr(s.test, env, 'bool')
            return self.bound(c, ind, lambda i: f'{i}if {c.term} then\n' + self.seq(rest, env, outs, fin, i + '  ') + f'\n{i}else None')
        if isinstance(s, (ast.Assign, ast.AnnAssign, ast.AugAssign)):
            v, e = self.assignment(s, env)
            return self.bound(e, ind, lambda i: f'{i}let v_{v} := {e.term} in\n' + self.seq(rest, {**env, v: e.ty}, outs, fin, i))
        if isinstance(s, ast.Expr) and isinstance(s.value, ast.Call):
            return self.call_stmt(s.value, rest, env, outs, fin, ind)
        if isinstance(s, ast.If):
            return self.if_stmt(s, rest, env, outs, fin, ind)
        if isinstance(s, ast.While):
            return self.while_stmt(s, rest, env, outs, fin, ind)
        self.bad(s, f'statement {type(s).__name__} is outside the subset')

    def bound(self, e, ind, k):
        """Statement-level bind of e's pending options around the text k(indent)."""
        if not e.binds:
            return k(ind)
        pat, o = e.binds[0]
        inner = self.bound(E(e.term, e.ty, e.binds[1:]), ind, k)
        return f'{ind}match {o} with None => None | Some {pat} =>\n{inner} end'

    def assignment(self, s, env):
        """(name, value) of an assignment to one local name."""
        t = s.targets[0] if isinstance(s, ast.Assign) and len(s.targets) == 1 else getattr(s, 'target', None)
        if not isinstance(t, ast.Name) or s.value is None:
            self.bad(s, 'assignment target is not one local name')
        v, val = self.local(s, t.id), s.value
        if isinstance(s, ast.AugAssign):
            if v not in env:
                self.bad(s, f'{v} is not bound')
            val = ast.copy_location(ast.BinOp(ast.copy_location(ast.Name(v, ast.Load()), s), s.op, s.value), s)
        e = self.expr(val, env)
        if e.ty not in ('str', 'nat', 'bool') or env.get(v, e.ty) != e.ty:
            self.bad(s, f'local {v} must keep one type (str, int or bool)')
        if isinstance(s, ast.AnnAssign) and not (isinstance(s.annotation, ast.Name) and s.annotation.id in ('str', 'int', 'bool')
                                                 and {'str': 'str', 'int': 'nat', 'bool': 'bool'}[s.annotation.id] == e.ty):
            self.bad(s, 'annotation does not match the value')
        return v, e

    def call_stmt(self, n, rest, env, outs, fin, ind):
        f = n.func
        if isinstance(f, ast.Attribute) and f.attr == 'write' and self_attr(f.value) == 'writer':
            if len(n.args) != 1 or n.keywords or isinstance(n.args[0], ast.Starred):
                self.bad(n, 'self.writer.write takes one argument')
            e = self.expr(n.args[0], env, 'str')
            o = self.fresh('o')          # named here: a later assignment to a local of e must not change what was written
            return self.bound(e, ind, lambda i: f'{i}let {o} := [{e.term}] in\n' + self.seq(rest, env, outs + [o], fin, i))
        m = self_attr(f)
        if m is None or m not in NAMES:
            self.bad(n, 'statement call outside the subset (not self.writer.write, not a translated method of self)')
        if m == RECORD_METHOD:
            self.bad(n, f'a call of {RECORD_METHOD} is outside the subset')
        params = self.method(m, self.members[m])
        if len(n.args) > len(params) or any(k.arg is None for k in n.keywords) or any(isinstance(a, ast.Starred) for a in n.args):
            self.bad(n, 'argument list outside the subset')
        given, binds = {}, []
        for name, a in [(params[i][0], a) for i, a in enumerate(n.args)] + [(k.arg, k.value) for k in n.keywords]:
            if name in given or name not in dict(params):
                self.bad(n, f'argument {name} repeated or unknown')
            given[name] = self.expr(a, env, dict(params)[name])
            binds += given[name].binds                                # evaluation order = source order
        if len(given) != len(params):
            self.bad(n, 'missing argument')
        app = ' '.join([NAMES[m]] + [given[p].term for p, _ in params])
        o = self.fresh('o')
        return self.bound(E('', 'str', binds + [(o, app)]), ind, lambda i: self.seq(rest, env, outs + [o], fin, i))

    def pure_block(self, ss, env, vs, at):
        """A branch that only assigns: the term of the tuple of vs after it."""
        text, env2 = '', dict(env)
        for s in ss:
            if isinstance(s, ast.Pass):
                continue
            if not isinstance(s, (ast.Assign, ast.AnnAssign, ast.AugAssign)):
                self.bad(s, 'a branch that assigns may only assign')
            v, e = self.assignment(s, env2)
            if e.binds:
                self.bad(s, 'possibly-raising expression inside a conditional assignment is outside the subset')
            if v not in env:
                self.bad(s, f'{v} may be unbound after this if')
            if len(ss) == 1 and vs == [v]:
                return e.term
            text += f'let v_{v} := {e.term} in '
            env2[v] = e.ty
        tup = 'v_' + vs[0] if len(vs) == 1 else '(' + ', '.join('v_' + v for v in vs) + ')'
        return f'({text}{tup})' if text else tup

    def if_stmt(self, s, rest, env, outs, fin, ind):
        c = self.expr(s.test, env, 'bool')
        stmts = [x for x in s.body + s.orelse if not isinstance(x, ast.Pass)]
        if stmts and all(isinstance(x, ast.Assert) for x in stmts):
            def guard(ss):
                gs = []
                for x in ss:
                    if isinstance(x, ast.Pass):
                        continue
                    if x.msg is not None:
                        self.bad(x, 'assert with a message is outside the subset')
                    g = self.expr(x.test, env, 'bool')
                    if g.binds:
                        self.bad(x, 'possibly-raising assertion inside a conditional is outside the subset')
                    gs.append(g.term)
                return 'true' if not gs else gs[0] if len(gs) == 1 else '(' + ' && '.join(gs) + ')'
            g = f'(if {c.term} then {guard(s.body)} else {guard(s.orelse)})'
            return self.bound(c, ind, lambda i: f'{i}if {g} then\n' + self.seq(rest, env, outs, fin, i + '  ') + f'\n{i}else None')
        vs = assigned([s], [])
        if not vs or any(isinstance(x, (ast.If, ast.While)) for x in stmts):
            self.bad(s, 'an if whose branches neither only assign nor only assert is outside the subset')
        a, b = self.pure_block(s.body, env, vs, s), self.pure_block(s.orelse, env, vs, s)
        pat = 'v_' + vs[0] if len(vs) == 1 else "'(" + ', '.join('v_' + v for v in vs) + ')'
        return self.bound(c, ind, lambda i: f'{i}let {pat} := if {c.term} then {a} else {b} in\n' + self.seq(rest, env, outs, fin, i))

    def while_stmt(self, s, rest, env, outs, fin, ind):
        if s.orelse:
            self.bad(s, 'while .. else is outside the subset')
        carried = [v for v in assigned(s.body, []) if v in env]
        if not carried:
            self.bad(s, 'a loop that carries no local is outside the subset')
        fuel_of = [n.args[0].id for n in ast.walk(s.test) if isinstance(n, ast.Call) and isinstance(n.func, ast.Name)
                   and n.func.id == 'len' and len(n.args) == 1 and isinstance(n.args[0], ast.Name)
                   and n.args[0].id in carried and env[n.args[0].id] == 'str']
        if not fuel_of:
            self.bad(s, 'the loop test does not look at len(v) of a loop-carried string v: no fuel known')
        read = [n.id for x in [s.test] + s.body for n in ast.walk(x) if isinstance(n, ast.Name) and n.id in env]
        params = carried + [v for v in env if v in read and v not in carried]
        self.loops += 1
        name = f'{NAMES[self.cur]}_loop{self.loops}'
        tup = lambda: 'v_' + carried[0] if len(carried) == 1 else '(' + ', '.join('v_' + v for v in carried) + ')'
        tty = ' * '.join(coqty(env[v]) for v in carried)
        saved, self.n = self.n, 0

        def again(env2, outs2):
            for v in carried:
                if env2[v] != env[v]:
                    self.bad(s, f'{v} changes its type in the loop')
            rec = ' '.join([name, 'fuel'] + ['v_' + p for p in params])
            if not outs2:
                return rec
            return f"match {rec} with None => None | Some (o'r, st'r) => Some ({' ++ '.join(outs2)} ++ o'r, st'r) end"
        c = self.expr(s.test, env, 'bool')
        body = self.bound(c, '    ', lambda i: f'{i}if {c.term} then\n' + self.seq(s.body, dict(env), [], again, i + '  ') +
                          f'\n{i}else Some ([], {tup()})')
        self.n = saved
        binder = ' '.join(f'(v_{p} : {coqty(env[p])})' for p in params)
        self.out.append(f'(* {CLASS}.{self.cur}: the while loop of line {s.lineno}; fuel 0 = not finished *)\n'
                        f'Fixpoint {name} (fuel : nat) {binder} {{struct fuel}} : option (list string * ({tty})) :=\n'
                        f'  match fuel with\n  | O => None\n  | S fuel =>\n{body}\n  end.')
        o = self.fresh('o')
        call = ' '.join([name, f'(S (String.length v_{fuel_of[0]}))'] + ['v_' + p for p in params])
        return f'{ind}match {call} with None => None | Some ({o}, {tup()}) =>\n' + \
            self.seq(rest, env, outs + [o], fin, ind) + ' end'

    # ---------------------------------------------------------------- expressions
    def expr(self, n, env, want=None):
        e = self.expr1(n, env)
        if want is not None and e.ty != want:
            self.bad(n, f'expected a {want} expression, found {e.ty}')
        return e

    def expr1(self, n, env):
        if isinstance(n, ast.Constant):
            if type(n.value) is bool:
                return E('true' if n.value else 'false', 'bool')
            if type(n.value) is int and 0 <= n.value < 100000:
                return E(str(n.value), 'nat', const=n.value)
            if type(n.value) is str:
                return E(gen.coq_str(n.value), 'str')
            self.bad(n, 'literal outside the subset')
        if isinstance(n, ast.JoinedStr):
            parts, binds = [], []
            for v in n.values:
                if isinstance(v, ast.Constant) and type(v.value) is str:
                    parts.append(gen.coq_str(v.value))
                elif isinstance(v, ast.FormattedValue) and v.conversion == -1 and v.format_spec is None:
                    e = self.expr(v.value, env, 'str')        # format(s, '') of a str is s
                    parts.append(e.term)
                    binds += e.binds
                else:
                    self.bad(n, 'f-string part with a conversion or a format is outside the subset')
            return E('(' + ' +++ '.join(parts) + ')' if len(parts) > 1 else parts[0] if parts else '""%string', 'str', binds)
        if isinstance(n, ast.Name):
            if n.id in env:
                return E('v_' + n.id, env[n.id])
            if n.id == VERSION:
                return E('k_version', 'str')
            self.bad(n, 'not a bound local or parameter')
        if isinstance(n, ast.Attribute):
            return self.attribute(n, env)
        if isinstance(n, ast.UnaryOp) and isinstance(n.op, ast.Not):
            a = self.expr(n.operand, env, 'bool')
            return E(f'(negb {a.term})', 'bool', a.binds)
        if isinstance(n, ast.BinOp) and isinstance(n.op, (ast.Add, ast.Sub)):
            a = self.expr(n.left, env)
            b = self.expr(n.right, env, a.ty)
            if a.ty == 'str' and isinstance(n.op, ast.Add):
                return E(f'({a.term} +++ {b.term})', 'str', a.binds + b.binds)
            if a.ty == 'nat' and isinstance(n.op, ast.Add):
                k = None if a.const is None or b.const is None else a.const + b.const
                return E(f'({a.term} + {b.term})', 'nat', a.binds + b.binds, k)
            if a.ty == 'nat' and a.const is not None and b.const is not None and a.const - b.const >= 0:
                return E(f'({a.term} - {b.term})', 'nat', a.binds + b.binds, a.const - b.const)
            self.bad(n, 'arithmetic outside the subset (a subtraction needs constants and a non-negative result)')
        if isinstance(n, ast.BoolOp):
            es = [self.expr(v, env, 'bool') for v in n.values]
            if any(e.binds for e in es[1:]):
                self.bad(n, 'possibly-raising operand after a short-circuit operator')
            return E('(' + (' || ' if isinstance(n.op, ast.Or) else ' && ').join(e.term for e in es) + ')', 'bool', es[0].binds)
        if isinstance(n, ast.Compare) and len(n.ops) == 1:
            return self.compare(n, n.ops[0], n.left, n.comparators[0], env)
        if isinstance(n, ast.IfExp):
            c, a = self.expr(n.test, env, 'bool'), self.expr(n.body, env)
            b = self.expr(n.orelse, env, a.ty)
            if a.binds or b.binds:
                self.bad(n, 'possibly-raising branch of a conditional expression is outside the subset')
            return E(f'(if {c.term} then {a.term} else {b.term})', a.ty, c.binds)
        if isinstance(n, ast.Subscript):
            return self.subscript(n, env)
        if isinstance(n, ast.Call):
            return self.call(n, env)
        self.bad(n, f'expression {type(n).__name__} is outside the subset')

    def attribute(self, n, env):
        if isinstance(n.value, ast.Name) and n.value.id not in env and n.attr == CONST and \
                (n.value.id == 'self' or n.value.id == CLASS):
            return E('k_max_line_chars', 'nat', const=self.kconst)
        if isinstance(n.value, ast.Name) and n.value.id == 'self':
            self.bad(n, f'attribute {n.attr} of self is outside the subset')
        o = self.expr(n.value, env)
        if o.ty == 'contract' and n.attr == 'vul':
            return E(f'(cvul {o.term})', 'vul', o.binds)
        if o.ty == 'contract' and n.attr == 'declarer':
            return E(f'(cdeclarer {o.term})', 'o:seat', o.binds)
        if o.ty == 'scoring' and n.attr in ('value', 'name'):
            self.uses_scoring = True
            return E(f'(py_scoring_{n.attr} {o.term})', 'str', o.binds)
        self.bad(n, f'attribute {n.attr} of a {o.ty} is outside the subset')

    def compare(self, n, op, l, r, env):
        if isinstance(op, (ast.Is, ast.IsNot)):
            if not (isinstance(r, ast.Constant) and r.value is None and isinstance(l, ast.Name) and
                    env.get(l.id, '').startswith('o:')):
                self.bad(n, 'identity test other than `<Optional local> is [not] None`')
            t = f'(py_is_none v_{l.id})'
            return E(t if isinstance(op, ast.Is) else f'(negb {t})', 'bool')
        a = self.expr(l, env)
        b = self.expr(r, env, a.ty)
        if a.ty == 'str':
            fmt = {ast.Eq: '(String.eqb {0} {1})', ast.NotEq: '(negb (String.eqb {0} {1}))'}.get(type(op))
        elif a.ty == 'nat':
            fmt = {ast.Lt: '({0} <? {1})', ast.LtE: '({0} <=? {1})', ast.Gt: '({1} <? {0})', ast.GtE: '({1} <=? {0})',
                   ast.Eq: '({0} =? {1})', ast.NotEq: '(negb ({0} =? {1}))'}.get(type(op))     # a > b is written b <? a
        else:
            fmt = None
        if fmt is None:
            self.bad(n, f'comparison {type(op).__name__} of {a.ty} is outside the subset')
        return E(fmt.format(a.term, b.term), 'bool', a.binds + b.binds)

    def subscript(self, n, env):
        o = self.expr(n.value, env, 'str')
        i = n.slice
        if isinstance(i, ast.Slice):
            if i.step is not None or (i.lower is None) == (i.upper is None):
                self.bad(n, 'slice other than s[:k] / s[k:] is outside the subset')
            k = self.expr(i.lower if i.upper is None else i.upper, env, 'nat')
            if k.const is None or k.binds:
                self.bad(n, 'slice bound is not a non-negative constant')
            return E(f'(py_slice_{"from" if i.upper is None else "to"} {k.term} {o.term})', 'str', o.binds)
        if isinstance(i, ast.Constant) and type(i.value) is int and i.value == 0:
            f = 'py_first'
        elif isinstance(i, ast.UnaryOp) and isinstance(i.op, ast.USub) and isinstance(i.operand, ast.Constant) and \
                type(i.operand.value) is int and i.operand.value == 1:
            f = 'py_last'
        else:
            self.bad(n, 'index other than [0] / [-1] is outside the subset')
        x = self.fresh()
        return E(x, 'str', o.binds + [(x, f'{f} {o.term}')])

    def call(self, n, env):
        f = n.func
        if any(isinstance(a, ast.Starred) for a in n.args) or any(k.arg is None for k in n.keywords):
            self.bad(n, 'argument list outside the subset')
        if isinstance(f, ast.Name) and f.id in BUILTINS and f.id not in env and len(n.args) == 1 and not n.keywords:
            a = self.expr(n.args[0], env)
            if f.id == 'len':
                if a.ty != 'str':
                    self.bad(n, f'len of a {a.ty} is outside the subset')
                return E(f'(String.length {a.term})', 'nat', a.binds)
            return E(self.str_of(a.ty, a.term, n), 'str', a.binds)
        if isinstance(f, ast.Attribute) and self_attr(f) is None:
            o = self.expr(f.value, env)
            if not n.args and not n.keywords:
                if o.ty == 'str' and f.attr == 'isupper':
                    return E(f'(py_isupper {o.term})', 'bool', o.binds)
                if o.ty == 'contract' and f.attr == 'is_passed_out':
                    return E(f'(is_passed_out {o.term})', 'bool', o.binds)
                if o.ty == 'vul' and f.attr == 'pbn_format':
                    self.need('pbn_format', n)
                    return E(f'(vul_pbn {o.term})', 'str', o.binds)
            if o.ty == 'deal' and f.attr == 'to_pbn' and len(n.args) + len(n.keywords) <= 1 and \
                    all(k.arg == 'dealer' for k in n.keywords):
                self.need('to_pbn', n)
                args = n.args + [k.value for k in n.keywords]
                d = self.expr(args[0], env, 'seat') if args else E('North', 'seat')      # the pinned default Player.N
                x = self.fresh()
                return E(x, 'str', o.binds + d.binds + [(x, f'to_pbn {o.term} {d.term}')])
            if o.ty == 'date' and f.attr == 'strftime' and len(n.args) == 1 and not n.keywords and \
                    isinstance(n.args[0], ast.Constant) and type(n.args[0].value) is str:
                return E(self.strftime(n.args[0].value, o.term, n), 'str', o.binds)
        self.bad(n, 'call outside the subset')

    def str_of(self, ty, term, node):
        if ty == 'str':
            return term
        base = ty[2:] if ty.startswith('o:') else ty
        fn = {'nat': 'string_of_nat', 'seat': 'seat_str', 'contract': 'contract_str', 'vul': 'vul_str'}.get(base)
        if fn is None:
            self.bad(node, f'str of a {ty} is outside the subset')
        if base != 'nat':
            self.need('str:' + base, node)
        if base == 'seat':
            self.uses_player_names = True
        return f'(py_str_opt {fn} {term})' if ty.startswith('o:') else f'({fn} {term})'

    def strftime(self, fmt, term, node):
        parts, lit, i = [], '', 0
        while i < len(fmt):
            ch = fmt[i]
            if ch != '%':
                lit, i = lit + ch, i + 1
                continue
            d = fmt[i + 1:i + 2]
            if d == '%':
                lit += '%'
            elif d in STRFTIME:
                if lit:
                    parts.append(gen.coq_str(lit))
                parts.append(f'{STRFTIME[d]} {term}')
                lit = ''
            else:
                self.bad(node, f'strftime directive %{d} is outside the subset (%Y %m %d %% only)')
            i += 2
        if lit:
            parts.append(gen.coq_str(lit))
        if any(ord(c) > 126 or ord(c) < 32 for c in fmt):
            self.bad(node, 'strftime format with non-printable or non-ASCII characters is outside the subset')
        return '(' + ' +++ '.join(parts) + ')' if len(parts) > 1 else parts[0] if parts else '""%string'

    # ---------------------------------------------------------------- the tables of pinned facts the file states
    def tables(self):
        out = f'(* {CLASS}.{CONST} and pbn_handler.{VERSION}, from the source *)\n' \
              f'Definition k_max_line_chars : nat := {self.kconst}.\nDefinition k_version : string := {gen.coq_str(self.version)}.\n'
        if self.uses_player_names:
            _, _, members, ctor = ENUMS['Player']
            out += '(* str() of a Player is its member name (pinned `return self.name`; the member list is pinned) *)\n' \
                   'Definition py_player_names : list (seat * string) :=\n  [' + \
                   '; '.join(f'({ctor[m]}, {gen.coq_str(m)})' for m, _ in members) + '].\n'
        if self.uses_scoring:
            out += '(* the members of Scoring (pinned): the record stores the `.value` of the member *)\n' \
                   'Definition py_scoring_members : list (string * string) :=\n  [' + \
                   '; '.join(f'({gen.coq_str(m)}, {gen.coq_str(v)})' for m, v in SCORING) + '].\n' \
                   'Definition py_scoring_value (stored : string) : string := stored.\n' \
                   'Definition py_scoring_name (stored : string) : string :=\n' \
                   '  match find (fun nv => String.eqb (snd nv) stored) py_scoring_members with Some nv => fst nv | None => stored end.\n'
        return out


def gen_pbnw_fns(path=None, overrides=None):
    """Translate writer.py of the repository (or the file `path`, for sensitivity studies; `overrides` maps further
    relative paths of the repository to files read in their place).  Returns (file name under coq/Gen, text), like the
    other translators; `write()` stores it."""
    _SRC.clear()
    if overrides:
        _SRC.update(overrides)
    if path is not None:
        _SRC[REL] = path
    try:
        # extract-method / conditional normal forms first (gen.py): a harmless restructuring of the source gives the same translation
        tr = Translator(gen.inline_private_helpers(parse(REL), 'PbnWriter', {'__init__', 'write_line', 'write_header', 'write_tag_pair', 'create_contents_sequence', 'write_board_result'}))
        defs = tr.run()
        tables = tr.tables()
    finally:
        _SRC.clear()
    head = f'(* GENERATED by harness/gen_pbnw.py from {REL} -- do not edit *)\n'
    return 'PbnFns.v', head + PRELUDE + tables + '\n'.join(defs) + '\n'


def write(path=None, out=None):
    import lib
    name, text = gen_pbnw_fns(path)
    out = out or os.path.join(gen.GEN, name)
    return out, lib.write_if_changed(out, text)


if __name__ == '__main__':
    o, changed = write()
    print(f'{o}: ' + ('rewritten' if changed else 'unchanged'))
