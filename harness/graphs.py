"""Complete-domain graphs of the implementation (DESIGN.md 2.2(c)): the driver evaluates the
real code on every point of a finite domain and the result is written as Gen/*Graph.v."""
import os
import lib
from gen import HEADER, GEN


def oz(v):
    if v is None:
        return 'None'
    if isinstance(v, list):
        return 'None'   # wrong type returned: treated like a raise (cannot equal Some z)
    return f'(Some {lib.cZ(v)})'


def rows_def(name, rows):
    body = ';\n '.join('[' + '; '.join(oz(v) for v in r) + ']' for r in rows)
    return f'Definition {name} : list (list (option Z)) :=\n [{body}].\n'


def gen_score_graph():
    g = lib.run_impl('score_graph', {})
    text = (HEADER % 'running bridge_env.score on its complete domain') + 'Open Scope Z_scope.\n' + \
        rows_def('score_graph', g['rows']) + rows_def('bid_score_graph', g['bid_rows']) + \
        rows_def('passed_out_graph', g['po_rows'])
    lib.write_if_changed(os.path.join(GEN, 'ScoreGraph.v'), text)
    return g
ALL = [gen_score_graph]
