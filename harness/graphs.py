"""Complete-domain graphs of the implementation (DESIGN.md 2.2(c)): the driver evaluates the
real code on every point of a finite domain and the result is written as Gen/*Graph.v."""
import os
import lib
from gen import HEADER, GEN


def oz(v):
    if v is None:
        return 'None'
    if isinstance(v, list):
        return 'None'   # wrong type returned: treated like a raise (cannot equal Some z)
    return f'(Some {lib.cZ(v)})'


def rows_def(name, rows):
    body = ';\n '.join('[' + '; '.join(oz(v) for v in r) + ']' for r in rows)
    return f'Definition {name} : list (list (option Z)) :=\n [{body}].\n'


def gen_score_graph():
    g = lib.run_impl('score_graph', {})
    text = (HEADER % 'running bridge_env.score on its complete domain') + 'Local Open Scope Z_scope.\n' + \
        rows_def('score_graph', g['rows']) + rows_def('bid_score_graph', g['bid_rows']) + \
        rows_def('passed_out_graph', g['po_rows'])
    lib.write_if_changed(os.path.join(GEN, 'ScoreGraph.v'), text)
    return g
ALL = [gen_score_graph]


# ------------------------------------------------------------------ notation graph (C15)
def n(x):
    return str(int(x))


def on(x):
    return 'None' if x is None else f'(Some {int(x)})'


def b(x):
    return 'true' if x else 'false'


def pr(*xs):
    return '(' + ', '.join(xs) + ')'


def kv(v):
    if v is None:
        return 'None'
    fb, x, xx, vu, d, lvl, tr = v
    return '(Some ' + pr(on(fb), b(x), b(xx), n(vu), on(d), on(lvl), on(tr)) + ')'


def ob(x):
    return 'None' if x is None else f'(Some {b(x)})'


def gen_notation_graph():
    g = lib.run_impl('notation_graph', {})
    s = lib.cstr
    L = lambda items: '[' + ';\n  '.join(items) + ']'
    out = [HEADER % 'running every converter of bridge_env on its complete domain']
    out.append('Definition g_cards : list (nat * string * (nat * nat) * (nat * nat) * (nat * nat)) :=\n ' +
               L(pr(n(r[0]), s(r[1]), pr(n(r[2][0]), n(r[2][1])), pr(n(r[3][0]), n(r[3][1])), pr(n(r[4][0]), n(r[4][1]))) for r in g['cards']) + '.')
    out.append('Definition g_ranks : list (string * nat) := ' + L(pr(s(r[0]), n(r[1])) for r in g['ranks']) + '.')
    out.append('Definition g_card_cmp : list (list nat) :=\n ' + L('[' + ';'.join(n(x) for x in row) + ']' for row in g['card_cmp']) + '.')
    out.append('Definition g_calls : list (nat * string * nat * nat * option nat * option nat * option nat) :=\n ' +
               L(pr(n(r[0]), s(r[1]), n(r[2]), n(r[3]), on(r[4]), on(r[5]), on(r[6])) for r in g['calls']) + '.')
    out.append('Definition g_seats : list (string * nat * string * nat * list nat * list nat) :=\n ' +
               L(pr(s(r[0]), n(r[1]), s(r[2]), n(r[3]), '[' + ';'.join(n(x) for x in r[4]) + ']', '[' + ';'.join(n(x) for x in r[5]) + ']') for r in g['seats']) + '.')
    for name in ('is_partner', 'seat_is_vul'):
        out.append(f'Definition g_{name} : list (list bool) := ' + L('[' + ';'.join(b(x) for x in row) + ']' for row in g[name]) + '.')
    out.append('Definition g_vuls : list (string * string * nat * nat) := ' + L(pr(s(r[0]), s(r[1]), n(r[2]), n(r[3])) for r in g['vuls']) + '.')
    out.append('Definition g_vul_inputs : list (string * option nat) := ' + L(pr(s(r[0]), on(r[1])) for r in g['vul_inputs']) + '.')
    out.append('Definition g_suits : list (string * nat * bool * bool) := ' + L(pr(s(r[0]), n(r[1]), b(r[2]), b(r[3])) for r in g['suits']) + '.')
    out.append('Definition g_pairs : list (string * nat * nat * list bool) := ' +
               L(pr(s(r[0]), n(r[1]), n(r[2]), '[' + ';'.join(b(x) for x in r[3]) + ']') for r in g['pairs']) + '.')
    T = 'list (string * option (option nat * bool * bool * nat * option nat * option nat * option nat) * option bool)'
    out.append(f'Definition g_contracts : {T} :=\n ' + L(pr(s(r[0]), kv(r[1]), ob(r[2])) for r in g['contracts']) + '.')
    out.append(f'Definition g_passed_out : {T} :=\n ' + L(pr(s(r[0]), kv(r[1]), ob(r[2])) for r in g['passed_out']) + '.')
    lib.write_if_changed(os.path.join(GEN, 'NotationGraph.v'), '\n'.join(out) + '\n')
    return g


ALL = [gen_score_graph, gen_notation_graph]
