"""Regenerate Gen (translators + complete-domain graphs) and build everything."""
import os, subprocess, sys, time
sys.path.insert(0, os.path.dirname(os.path.abspath(__file__)))
import lib, gen, graphs

t = time.time()
os.makedirs(lib.WORK, exist_ok=True)
with lib.Lock():
    for m in gen.regenerate_all():
        print(m)
    for g in graphs.ALL:
        g()
    lib.coq_makefile()
p = subprocess.run(['timeout', '5400', 'make', '-C', lib.COQ, '-j16'], capture_output=True, text=True)
print(p.stdout[-3000:])
if p.returncode != 0:
    print(p.stderr[-6000:], file=sys.stderr)
    sys.exit(1)
print('setup: built in %.0fs' % (time.time() - t))
