"""Behaviour-preserving changes: bookkeeping of how the checks react to harmless rewrites.
  benign.py collect <worktree> <name>   store <worktree>/benign_*.diff and the author's note under benign/<name>_<k>/
  benign.py run <name>_<k> [props...]    apply the patch to /repo, run the quick check of every property anchored in the
                                        patched file (or the ones given), undo it, record the outcomes
A check that stays quiet is the wanted outcome; `no-failing-input-found` means a proof or tie broke on a harmless rewrite
(tolerated by the brief, recorded here); a VIOLATION with a concrete input on a benign change would be a false alarm of the
oracle and must be investigated."""
import json, os, subprocess, sys, time
V = os.path.dirname(os.path.dirname(os.path.abspath(__file__)))
PY = '/venv/bin/python'


def sh(cmd, cwd=None, timeout=3600):
    p = subprocess.run(cmd, shell=True, cwd=cwd, capture_output=True, text=True, timeout=timeout)
    return p.returncode, (p.stdout + p.stderr)


def anchored(files):
    props = []
    for l in open(os.path.join(V, 'properties.jsonl')):
        d = json.loads(l)
        if any(f in d['anchors']['files'] for f in files):
            props.append(d['id'])
    return props


def collect(wt, name):
    note = open(os.path.join(wt, 'BENIGN_NOTE.md')).read() if os.path.exists(os.path.join(wt, 'BENIGN_NOTE.md')) else ''
    for k in (1, 2, 3):
        src = os.path.join(wt, f'benign_{k}.diff')
        if not os.path.exists(src):
            continue
        d = os.path.join(V, 'benign', f'{name}_{k}')
        os.makedirs(d, exist_ok=True)
        diff = open(src).read()
        open(os.path.join(d, 'patch.diff'), 'w').write(diff)
        open(os.path.join(d, 'NOTE.md'), 'w').write(note)
        sh('git checkout -- bridge_env', wt)
        rc, out = sh(f'git apply {src}', wt)
        rc2, tests = sh(f'{PY} -m pytest -q -p no:cacheprovider --timeout=900 2>&1 | tail -1', wt)
        sh('git checkout -- bridge_env', wt)
        files = [l[6:].strip() for l in diff.splitlines() if l.startswith('+++ b/')]
        json.dump(dict(id=f'{name}_{k}', files=files, applies=(rc == 0), tests_with_change=tests.strip(),
                       written_by='independent sub-agent asked for a behaviour-preserving clean-up; given only the file name and a scratch worktree'),
                  open(os.path.join(d, 'meta.json'), 'w'), indent=1)
        print(name, k, files, tests.strip())


def run(bid, props=None):
    d = os.path.join(V, 'benign', bid)
    meta = json.load(open(os.path.join(d, 'meta.json')))
    props = props or anchored(meta['files'])
    rc, out = sh('git status --porcelain -- bridge_env', '/repo')
    assert not out.strip(), '/repo is not clean: ' + out
    rc, out = sh(f'git apply {d}/patch.diff', '/repo')
    assert rc == 0, out
    res = {}
    try:
        for p in props:
            ev = os.path.join(V, 'evidence', p + '.json')
            saved = open(ev).read() if os.path.exists(ev) else None
            t = time.time()
            rc, out = sh(f'./check {p} --tier quick', V)
            if saved is not None:
                open(ev, 'w').write(saved)
            lines = [l for l in out.splitlines() if l.startswith(('VIOLATION', 'KNOWN', p))]
            viol = [l for l in lines if l.startswith('VIOLATION')]
            res[p] = dict(exit=rc, seconds=round(time.time() - t),
                          outcome='quiet' if rc == 0 and not viol else
                                  'proof-or-tie-broke (no failing input)' if viol and all('no-failing-input-found' in l for l in viol) else
                                  'ALARM with input',
                          last=lines[-2:])
            broke = None
            rp = os.path.join(V, 'replays')
            if viol and os.path.isdir(rp):
                for f in sorted(os.listdir(rp)):
                    try:
                        r = json.load(open(os.path.join(rp, f)))
                        broke = r.get('theorem_or_tie')
                        break
                    except Exception:
                        pass
            if broke:
                res[p]['what_broke'] = broke
            subprocess.run(['rm', '-rf', rp])
            print(bid, p, res[p]['outcome'], res[p]['seconds'], 's')
    finally:
        sh('git checkout -- .', '/repo')
    meta['check_results'] = res
    json.dump(meta, open(os.path.join(d, 'meta.json'), 'w'), indent=1, default=str)


if __name__ == '__main__':
    if sys.argv[1] == 'collect':
        collect(sys.argv[2], sys.argv[3])
    else:
        run(sys.argv[2], sys.argv[3:] or None)
