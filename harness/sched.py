"""Controlled scheduler for the real server/client threads (DESIGN.md 2.7).

Every synchronisation operation of an instrumented object hands the baton to a central
scheduler *unconditionally* and declares whether it is currently enabled, so a thread's own
sequence of operations does not depend on the schedule.  Real threads, real Server.run,
real Client.run; the schedule is a replayable list of thread names."""
import collections
import random
import threading


class Deadlock(Exception):
    pass


class Interrupt(BaseException):
    """Raised inside a controlled thread at a chosen scheduling point (operator interrupt)."""


class Sched:
    def __init__(self, choose, interrupt=None):
        self.mu = threading.Condition()
        self.threads = collections.OrderedDict()   # name -> dict(state, op, enabled)
        self.current = None
        self.choose = choose           # f(step, [(name, op)]) -> name
        self.trace = []                # [(name, op)]
        self.dead = False
        self.interrupt = interrupt     # (thread name, k): raise Interrupt in that thread at its k-th scheduling point
        self.counts = collections.Counter()

    def add(self, name):
        with self.mu:
            self.threads[name] = dict(state='running', op=None, enabled=None)

    def bind(self, name):
        threading.current_thread()._cs_name = name

    def me(self):
        return getattr(threading.current_thread(), '_cs_name', None)

    def finish(self):
        name = self.me()
        with self.mu:
            self.threads[name]['state'] = 'done'
            if self.current == name:
                self.current = None
            self.mu.notify_all()

    def point(self, op, enabled=lambda: True):
        """Block until the scheduler selects this thread for an enabled operation."""
        name = self.me()
        if name is None:
            return
        with self.mu:
            t = self.threads[name]
            t['state'] = 'waiting'
            t['op'] = op
            t['enabled'] = enabled
            if self.current == name:
                self.current = None
            self.mu.notify_all()
            while self.current != name:
                if self.dead:
                    raise Deadlock()
                self.mu.wait()
            t['state'] = 'running'
            self.counts[name] += 1
            if self.interrupt and self.interrupt[0] == name and self.counts[name] == self.interrupt[1]:
                raise Interrupt()

    def drive(self, max_steps=400000):
        with self.mu:
            for step in range(max_steps):
                while self.current is not None or any(t['state'] == 'running' for t in self.threads.values()):
                    if not self.mu.wait(timeout=30):
                        self.dead = True
                        self.mu.notify_all()
                        return 'hung', {n: t['state'] for n, t in self.threads.items()}
                live = [(n, t) for n, t in self.threads.items() if t['state'] == 'waiting']
                if not live:
                    return 'finished', step
                en = [(n, t['op']) for n, t in live if t['enabled']()]
                if not en:
                    self.dead = True
                    self.mu.notify_all()
                    return 'deadlock', {n: list(map(str, t['op'])) for n, t in live}
                n = self.choose(step, en)
                self.trace.append((n, dict(en)[n]))
                self.current = n
                self.mu.notify_all()
            self.dead = True
            self.mu.notify_all()
        return 'maxsteps', max_steps


S = None          # the scheduler of the running session
POST_POINTS = False   # extra scheduling points after queue puts (thorough tier)
LISTEN = None


class CEvent:
    _n = 0

    def __init__(self):
        CEvent._n += 1
        self.id = CEvent._n
        self.flag = False

    def set(self):
        S.point(('ev.set', self.id))
        self.flag = True
        S.point(('ev.set.done', self.id))     # the caller may be descheduled right after the event is set

    def clear(self):
        S.point(('ev.clear', self.id))
        self.flag = False

    def wait(self, timeout=None):
        S.point(('ev.wait', self.id), lambda: self.flag)
        return True

    def is_set(self):
        return self.flag


class CQueue:
    _n = 0

    def __init__(self, maxsize=0):
        CQueue._n += 1
        self.id = CQueue._n
        self.q = collections.deque()

    def put(self, x, block=True, timeout=None):
        S.point(('q.put', self.id, str(x)))
        self.q.append(x)
        if POST_POINTS:
            S.point(('q.put.done', self.id))

    def get(self, block=True, timeout=None):
        S.point(('q.get', self.id), lambda: len(self.q) > 0)
        return self.q.popleft()


class CBarrier:
    """threading.Barrier with its documented semantics, including reset() / abort() breaking the threads that wait."""

    def __init__(self, parties, action=None, timeout=None):
        self.parties = parties
        self.count = 0
        self.gen = 0
        self.broken_gens = set()
        self.broken = False

    def wait(self, timeout=None):
        S.point(('bar.arrive',))
        if self.broken:
            raise threading.BrokenBarrierError
        g = self.gen
        self.count += 1
        if self.count == self.parties:
            self.count = 0
            self.gen += 1
        S.point(('bar.leave',), lambda: self.gen != g or g in self.broken_gens or self.broken)
        if g in self.broken_gens or (self.broken and self.gen == g):
            raise threading.BrokenBarrierError
        return 0

    def reset(self):
        S.point(('bar.reset',))
        if self.count > 0:                 # threads are waiting: they receive BrokenBarrierError
            self.broken_gens.add(self.gen)
            self.gen += 1
            self.count = 0
        self.broken = False

    def abort(self):
        S.point(('bar.abort',))
        self.broken = True

    @property
    def n_waiting(self):
        return self.count


class Pipe:
    def __init__(self):
        self.buf = bytearray()
        self.closed = False
        self.log = bytearray()     # everything ever written (the transcript)


class FakeSock:
    def __init__(self, rx=None, tx=None, name=''):
        self.rx, self.tx, self.name = rx, tx, name

    def sendall(self, data):
        S.point(('sock.send', self.name, bytes(data).decode('utf-8', 'replace')))
        if self.tx.closed:
            raise BrokenPipeError('peer closed')
        self.tx.buf += data
        self.tx.log += data

    def recv(self, n):
        # a scheduling point per *message*: block only when nothing is buffered
        if not self.rx.buf:
            S.point(('sock.recv', self.name), lambda: bool(self.rx.buf) or self.rx.closed)
        if not self.rx.buf:
            return b''
        b = bytes(self.rx.buf[:n])
        del self.rx.buf[:n]
        return b

    def close(self):
        self.tx.closed = True
        self.rx.closed = True

    def connect(self, addr):
        a, b = Pipe(), Pipe()
        self.rx, self.tx = a, b
        srv_side = FakeSock(rx=b, tx=a, name='srv<-' + self.name)
        # arrival order is an input of the session: client i connects after clients 0..i-1
        idx = int(self.name[3:]) if self.name.startswith('cli') else 0
        S.point(('sock.connect', self.name), lambda: len(LISTEN.pairs) == idx)
        LISTEN.pending.append(srv_side)
        LISTEN.pairs.append((self.name, a, b))

    def setsockopt(self, *a):
        pass


class Listen:
    def __init__(self):
        self.pending = collections.deque()
        self.pairs = []      # (client name, server->client pipe, client->server pipe)

    def bind(self, a):
        pass

    def listen(self, n):
        pass

    def accept(self):
        S.point(('accept',), lambda: len(self.pending) > 0)
        return self.pending.popleft(), None

    def close(self):
        pass

    def setsockopt(self, *a):
        pass


# ---------------------------------------------------------------- strategies
def strategy(spec, seed):
    """spec: 'rr' | 'random' | 'first' | 'low:<name>' | 'high:<name>' | 'pct:<depth>' | 'replay' (with list)"""
    r = random.Random(seed)
    kind, _, arg = spec.partition(':')
    state = dict(last=-1, prio={}, changes=None)

    def choose(step, en):
        names = [n for n, _ in en]
        if kind == 'rr':
            order = sorted(names)
            state['last'] = (state['last'] + 1) % 10 ** 9
            return order[state['last'] % len(order)]
        if kind == 'first':
            return names[0]
        if kind == 'random':
            return r.choice(names)
        if kind == 'low':      # the named thread runs only when nothing else can
            others = [n for n in names if n != arg]
            return r.choice(others) if others else arg
        if kind == 'high':     # the named thread runs whenever it can
            return arg if arg in names else r.choice(names)
        if kind == 'pct':      # random priorities, lowered at a few random change points
            depth = int(arg or 2)
            if state['changes'] is None:
                state['changes'] = sorted(r.randint(1, 3000) for _ in range(depth))
            for n in names:
                if n not in state['prio']:
                    state['prio'][n] = r.random() + 1
            if state['changes'] and step >= state['changes'][0]:
                state['changes'].pop(0)
                top = max(names, key=lambda n: state['prio'][n])
                state['prio'][top] = r.random() * 0.5
            return max(names, key=lambda n: state['prio'][n])
        raise ValueError(spec)
    return choose


def replay_strategy(names_list):
    it = iter(names_list)

    def choose(step, en):
        names = [n for n, _ in en]
        try:
            n = next(it)
        except StopIteration:
            return names[0]
        return n if n in names else names[0]
    return choose
